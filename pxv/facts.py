"""Fact base: reader for pxir JSON + CFG services (DESIGN §3.2/§3.5).  No rule lives here."""
import json, os, re, functools
from collections import defaultdict
from . import build
from .build import AnalysisBroken


class Inst:
    __slots__ = ('f', 'bb', 'i', 'op', 'ty', 'a', 'line', 'file', 'd')

    def __init__(self, f, bb, d):
        self.f = f; self.bb = bb; self.d = d
        self.i = d['i']; self.op = d['o']; self.ty = d['t']; self.a = d.get('a', [])
        self.line = d.get('l', 0); self.file = d.get('fl', f.file)

    # ---- convenience
    @property
    def callee(self):
        return self.d.get('fn') if self.op == 'call' else None

    @property
    def pred(self):
        return self.d.get('p')

    @property
    def dv(self):
        return self.d.get('dv')

    @property
    def dt(self):
        return self.d.get('dt')

    def loc(self):
        return '%s:%d' % (os.path.basename(self.file or self.f.file or '?'), self.line)

    def __repr__(self):
        return '<%s #%d %s %s @%s>' % (self.f.name, self.i, self.op, self.callee or '', self.loc())


class Block:
    __slots__ = ('f', 'id', 'succ', 'insts', 'pred')

    def __init__(self, f, d):
        self.f = f; self.id = d['id']; self.succ = d['succ']; self.pred = []
        self.insts = [Inst(f, self, x) for x in d['insts']]

    @property
    def term(self):
        return self.insts[-1]


class Function:
    def __init__(self, unit, d):
        self.unit = unit; self.d = d
        self.name = d['name']; self.file = d.get('file', ''); self.line = d.get('line', 0)
        self.internal = d['internal']; self.vis = d['vis']
        self.dret = d.get('dret'); self.dparams = d.get('dparams', [])
        self.params = d['params']; self.type = d['type']
        self.blocks = [Block(self, b) for b in d['blocks']]
        self.loops = d.get('loops')
        self.by_id = {}
        for b in self.blocks:
            for x in b.insts:
                self.by_id[x.i] = x
        for b in self.blocks:
            for s in b.succ:
                self.blocks[s].pred.append(b.id)
        self._dom = self._pdom = self._cd = None
        self._users = None

    def __repr__(self):
        return '<fn %s/%s>' % (self.unit.name, self.name)

    @property
    def exported(self):
        return (not self.internal) and self.vis == 0

    def insts(self):
        for b in self.blocks:
            yield from b.insts

    def calls(self, name=None):
        for x in self.insts():
            if x.op == 'call' and (name is None or x.callee == name or (isinstance(name, (set, frozenset, tuple, list)) and x.callee in name)):
                yield x

    def v(self, operand):
        """instruction defining an operand, or None"""
        if operand and operand[0] == 'v':
            return self.by_id.get(operand[1])
        return None

    def users(self, inst):
        if self._users is None:
            u = defaultdict(list)
            for x in self.insts():
                ops = list(x.a)
                if 'callee' in x.d:
                    ops.append(x.d['callee'])
                if x.op == 'getelementptr':
                    for st in x.d['path']:
                        if st[0] in ('p', 'x'):
                            ops.append(st[1])
                for o in ops:
                    if o and o[0] == 'v':
                        u[o[1]].append(x)
            self._users = u
        return self._users.get(inst.i, [])

    def arg_users(self, n):
        return [x for x in self.insts() if any(o and o[0] == 'a' and o[1] == n for o in x.a)]

    # ---- CFG services -------------------------------------------------------------------
    def rets(self):
        return [b.term for b in self.blocks if b.term.op == 'ret']

    def exits(self):
        """blocks without successors (ret, unreachable)"""
        return [b.id for b in self.blocks if not b.succ]

    @staticmethod
    def _idom(n, entry, preds_of, succs_of):
        # Cooper-Harvey-Kennedy
        order = []; seen = set(); stack = [(entry, iter(succs_of(entry)))]
        seen.add(entry)
        while stack:
            node, it = stack[-1]
            adv = False
            for s in it:
                if s not in seen:
                    seen.add(s); stack.append((s, iter(succs_of(s)))); adv = True; break
            if not adv:
                order.append(node); stack.pop()
        rpo = order[::-1]; num = {b: i for i, b in enumerate(rpo)}
        idom = {entry: entry}
        changed = True
        while changed:
            changed = False
            for b in rpo[1:]:
                ps = [p for p in preds_of(b) if p in idom]
                if not ps:
                    continue
                new = ps[0]
                for p in ps[1:]:
                    a, c = p, new
                    while a != c:
                        while num[a] > num[c]:
                            a = idom[a]
                        while num[c] > num[a]:
                            c = idom[c]
                    new = a
                if idom.get(b) != new:
                    idom[b] = new; changed = True
        return idom

    def dom(self):
        if self._dom is None:
            self._dom = self._idom(len(self.blocks), 0, lambda b: self.blocks[b].pred, lambda b: self.blocks[b].succ)
        return self._dom

    def pdom(self):
        """immediate post-dominators with a virtual exit -1"""
        if self._pdom is None:
            ex = self.exits()
            def succs(b):
                return ex if b == -1 else self.blocks[b].pred
            def preds(b):
                if b == -1:
                    return []
                s = list(self.blocks[b].succ)
                if not s:
                    s = [-1]
                return s
            self._pdom = self._idom(len(self.blocks) + 1, -1, preds, succs)
        return self._pdom

    def dominates_block(self, a, b):
        d = self.dom()
        if b not in d:
            return False
        while True:
            if a == b:
                return True
            if d[b] == b:
                return False
            b = d[b]

    def dominates(self, x, y):
        """instruction x dominates instruction y"""
        if x.bb.id == y.bb.id:
            return x.i < y.i
        return self.dominates_block(x.bb.id, y.bb.id)

    def postdominates_block(self, a, b):
        d = self.pdom()
        if b not in d:
            return False
        while True:
            if a == b:
                return True
            if d[b] == b:
                return False
            b = d[b]

    def control_deps(self):
        """{block: set of (branch block, successor taken)} — Ferrante/Ottenstein/Warren"""
        if self._cd is None:
            pd = self.pdom(); cd = defaultdict(set)
            for b in self.blocks:
                if len(b.succ) < 2:
                    continue
                for s in b.succ:
                    # walk up pdom tree from s until ipdom(b)
                    stop = pd.get(b.id)
                    n = s
                    while n != stop and n is not None and n != -1:
                        cd[n].add((b.id, s))
                        nn = pd.get(n)
                        if nn == n:
                            break
                        n = nn
            self._cd = cd
        return self._cd

    def control_conditions(self, block_id, transitive=True):
        """set of (branch Inst, successor block id taken) that block_id is (transitively) control-dependent on"""
        cd = self.control_deps(); out = set(); seen = set(); work = [block_id]
        while work:
            b = work.pop()
            if b in seen:
                continue
            seen.add(b)
            for (bb, s) in cd.get(b, ()):
                out.add((self.blocks[bb].term, s))
                if transitive:
                    work.append(bb)
        return out

    def control_conditions_pruned(self, block_id, prune):
        """like control_conditions, but a condition for which prune(branch inst) holds is neither reported nor
        followed transitively (used to ignore early-exit tests on the result of a previous call)"""
        cd = self.control_deps(); out = set(); seen = set(); work = [block_id]
        while work:
            b = work.pop()
            if b in seen:
                continue
            seen.add(b)
            for (bb, s) in cd.get(b, ()):
                t = self.blocks[bb].term
                if prune(t):
                    continue
                out.add((t, s)); work.append(bb)
        return out

    def guard_edges(self, block_id):
        """branch edges every path from entry to block_id must take: set of (branch Inst, successor id).
        (edge dominance; unlike control dependence it is not polluted by early exits before the block)"""
        key = ('ge', block_id)
        if not hasattr(self, '_ge'):
            self._ge = {}
        if block_id in self._ge:
            return self._ge[block_id]
        out = set()
        for b in self.blocks:
            if len(set(b.succ)) < 2:
                continue
            for s in set(b.succ):
                seen = set(); work = [0]; reached = False
                while work:
                    n = work.pop()
                    if n in seen:
                        continue
                    seen.add(n)
                    if n == block_id:
                        reached = True; break
                    for t in self.blocks[n].succ:
                        if n == b.id and t == s:
                            continue
                        work.append(t)
                if not reached and block_id != 0:
                    out.add((b.term, s))
        self._ge[block_id] = out
        return out

    def reach_avoiding(self, start_inst, is_barrier, target_pred):
        """Is there a path from just after start_inst to an instruction satisfying target_pred that
        passes no instruction satisfying is_barrier?  Returns the offending target inst or None."""
        b = start_inst.bb
        idx = b.insts.index(start_inst)
        for x in b.insts[idx + 1:]:
            if is_barrier(x):
                return None
            if target_pred(x):
                return x
        seen = set(); work = list(b.succ)
        while work:
            n = work.pop()
            if n in seen:
                continue
            seen.add(n)
            blocked = False
            for x in self.blocks[n].insts:
                if is_barrier(x):
                    blocked = True; break
                if target_pred(x):
                    return x
            if not blocked:
                work.extend(self.blocks[n].succ)
        return None

    def reachable_blocks(self, start, avoid=()):
        seen = set(); work = [start]
        while work:
            n = work.pop()
            if n in seen or n in avoid:
                continue
            seen.add(n); work.extend(self.blocks[n].succ)
        return seen

    # ---- value description --------------------------------------------------------------
    INV = {'eq': 'ne', 'ne': 'eq', 'slt': 'sge', 'sge': 'slt', 'sgt': 'sle', 'sle': 'sgt', 'ult': 'uge', 'uge': 'ult', 'ugt': 'ule', 'ule': 'ugt',
           'olt': 'uge', 'oge': 'ult', 'ogt': 'ule', 'ole': 'ugt', 'oeq': 'une', 'une': 'oeq'}

    def cond(self, o):
        """normal form of a branch condition: (comparison Inst or None, effective predicate, operands) after peeling
        logical negations (xor true, == 0 of a boolean) and integer casts"""
        neg = False
        for _ in range(12):
            x = self.v(o)
            if x is None:
                return None, None, None
            if x.op in ('zext', 'sext', 'trunc', 'freeze'):
                o = x.a[0]; continue
            if x.op == 'xor' and any(a[0] == 'c' and int(a[1]) in (1, -1) for a in x.a):
                o = [a for a in x.a if a[0] != 'c'][0]; neg = not neg; continue
            if x.op == 'icmp' and x.pred in ('eq', 'ne') and any(a[0] == 'c' and int(a[1]) == 0 for a in x.a):
                other = [a for a in x.a if not (a[0] == 'c' and int(a[1]) == 0)]
                if other:
                    y = self.v(other[0])
                    while y is not None and y.op in ('zext', 'sext'):
                        y = self.v(y.a[0])
                    if y is not None and (y.op in ('icmp', 'fcmp') or (y.op == 'xor' and y.ty == 'i1') or (y.op == 'phi' and y.ty == 'i1')):
                        if x.pred == 'eq':
                            neg = not neg
                        o = other[0]; continue
            if x.op in ('icmp', 'fcmp'):
                p = x.pred
                if neg:
                    p = self.INV.get(p, p)
                return x, p, x.a
            return x, ('not' if neg else 'is'), [o]
        return None, None, None

    def strip_casts(self, o):
        while True:
            x = self.v(o)
            if x is not None and x.op in ('bitcast', 'zext', 'sext', 'trunc', 'ptrtoint', 'inttoptr', 'freeze'):
                o = x.a[0]; continue
            if o and o[0] == 'ce' and o[1] in ('bitcast', 'ptrtoint', 'inttoptr'):
                o = o[2][0]; continue
            return o

    def path(self, o, depth=0):
        """Access path of a pointer operand: (base, fields) where base is a tuple
        ('arg',n) | ('global',name) | ('alloca',id) | ('call',callee,id) | ('load',(base,fields)) | ('phi',id) | ('null',) | ('?',)
        and fields is a tuple of 'struct.field' / '[c]' / '[v]' / '+c' / '+v' steps."""
        if depth > 16:
            return (('?',), ())
        if o is None:
            return (('?',), ())
        k = o[0]
        if k == 'a':
            return (('arg', o[1]), ())
        if k == 'g':
            return (('global', o[1]), ())
        if k == 'f':
            return (('func', o[1]), ())
        if k == 'n':
            return (('null',), ())
        if k == 'ce':
            if o[1] in ('bitcast', 'ptrtoint', 'inttoptr', 'addrspacecast'):
                return self.path(o[2][0], depth + 1)
            if o[1] == 'getelementptr':
                b, fl = self.path(o[2][0], depth + 1)
                return (b, fl + self._steps(o[3]))
            return (('?',), ())
        if k != 'v':
            return (('?',), ())
        x = self.by_id.get(o[1])
        if x is None:
            return (('?',), ())
        if x.op in ('bitcast', 'ptrtoint', 'inttoptr', 'freeze'):
            return self.path(x.a[0], depth + 1)
        if x.op == 'getelementptr':
            b, fl = self.path(x.a[0], depth + 1)
            return (b, fl + self._steps(x.d['path']))
        if x.op == 'load':
            return (('load', self.path(x.a[0], depth + 1)), ())
        if x.op == 'alloca':
            return (('alloca', x.i), ())
        if x.op == 'call':
            return (('call', x.callee, x.i), ())
        if x.op == 'phi':
            return (('phi', x.i), ())
        if x.op == 'select':
            return (('select', x.i), ())
        return (('?',), ())

    @staticmethod
    def _steps(p):
        out = []
        for st in p:
            if st[0] == 'p':
                if st[1][0] == 'c':
                    if st[1][1] != 0:
                        out.append('+%d' % st[1][1])
                else:
                    out.append('+v')
            elif st[0] == 'f':
                out.append('%s.%s' % (st[1], st[2]))
            elif st[0] == 'x':
                out.append('[%d]' % st[1][1] if st[1][0] == 'c' else '[v]')
            else:
                out.append('?')
        return tuple(out)

    def pstr(self, p):
        b, fl = p
        if b[0] == 'load':
            s = '*(' + self.pstr(b[1]) + ')'
        elif b[0] == 'arg':
            nm = self.params[b[1]][0] if b[1] < len(self.params) else ''
            s = 'arg%d%s' % (b[1], ':' + nm if nm else '')
        elif b[0] == 'global':
            s = '@' + b[1]
        elif b[0] == 'call':
            s = 'ret:%s' % b[1]
        elif b[0] == 'alloca':
            x = self.by_id[b[1]]
            s = 'local:%s' % (x.dv or b[1])
        else:
            s = b[0]
        return s + ''.join('/' + f for f in fl)

    def fields_of(self, p):
        """all 'struct.field' steps occurring anywhere in a path (outer and nested loads)"""
        b, fl = p
        out = [f for f in fl if '.' in f and not f.startswith(('+', '['))]
        if b[0] == 'load':
            out = self.fields_of(b[1]) + out
        return out

    def last_field(self, p):
        b, fl = p
        for f in reversed(fl):
            if not f.startswith(('+', '[')):
                return f
        return None

    def root(self, p):
        """innermost base of a path (through loads)"""
        b, fl = p
        while b[0] == 'load':
            b, fl = b[1]
        return b

    def expr(self, o, depth=0, stop=None):
        """expression tree of a value as nested tuples (for slices and linear forms)"""
        if depth > 24:
            return ('?',)
        k = o[0]
        if k == 'c':
            return ('c', int(o[1]))
        if k == 'a':
            return ('arg', o[1])
        if k == 'n':
            return ('null',)
        if k == 'g':
            return ('global', o[1])
        if k == 'f':
            return ('func', o[1])
        if k == 'fc':
            return ('fc', o[1])
        if k == 'u':
            return ('undef',)
        if k == 'ce':
            if o[1] in ('bitcast', 'ptrtoint', 'inttoptr'):
                return self.expr(o[2][0], depth + 1, stop)
            return ('ce', o[1])
        if k != 'v':
            return ('?',)
        x = self.by_id.get(o[1])
        if x is None:
            return ('?',)
        if stop and stop(x):
            return ('v', x.i)
        if x.op in ('bitcast', 'freeze'):
            return self.expr(x.a[0], depth + 1, stop)
        if x.op in ('zext', 'sext', 'trunc', 'ptrtoint', 'inttoptr', 'sitofp', 'uitofp', 'fptosi', 'fptoui', 'fpext', 'fptrunc'):
            return (x.op, self.expr(x.a[0], depth + 1, stop), x.ty)
        if x.op == 'load':
            return ('load', self.path(x.a[0]))
        if x.op == 'getelementptr' or x.op == 'alloca':
            return ('addr', self.path(o))
        if x.op == 'call':
            return ('call', x.callee, tuple(self.expr(a, depth + 1, stop) for a in x.a), x.i)
        if x.op in ('icmp', 'fcmp'):
            return (x.op, x.pred, self.expr(x.a[0], depth + 1, stop), self.expr(x.a[1], depth + 1, stop))
        if x.op == 'phi':
            return ('phi', x.i)
        if x.op == 'select':
            return ('select', self.expr(x.a[0], depth + 1, stop), self.expr(x.a[1], depth + 1, stop), self.expr(x.a[2], depth + 1, stop))
        if len(x.a) == 2:
            return (x.op, self.expr(x.a[0], depth + 1, stop), self.expr(x.a[1], depth + 1, stop))
        if len(x.a) == 1:
            return (x.op, self.expr(x.a[0], depth + 1, stop))
        return (x.op,) + tuple(self.expr(a, depth + 1, stop) for a in x.a)

    def atoms(self, o, through_phi=True, _seen=None, depth=0):
        """leaves of the backward slice of a value inside the function:
        ('field', 'struct.field'), ('arg', n), ('global', g), ('call', callee), ('const', c), ('local', name)"""
        out = set()
        if _seen is None:
            _seen = set()
        if depth > 40 or o is None:
            return out
        k = o[0]
        if k == 'c':
            out.add(('const', int(o[1]))); return out
        if k == 'a':
            out.add(('arg', o[1])); return out
        if k == 'g':
            out.add(('global', o[1])); return out
        if k == 'f':
            out.add(('func', o[1])); return out
        if k == 'ce':
            for a in o[2]:
                out |= self.atoms(a, through_phi, _seen, depth + 1)
            if len(o) > 3:
                for st in o[3]:
                    if st[0] == 'f':
                        out.add(('field', '%s.%s' % (st[1], st[2])))
            return out
        if k != 'v':
            return out
        if o[1] in _seen:
            return out
        _seen.add(o[1])
        x = self.by_id.get(o[1])
        if x is None:
            return out
        if x.op == 'load':
            p = self.path(x.a[0])
            fl = self.fields_of(p)
            if fl:
                out.add(('field', fl[-1]))
                for f in fl[:-1]:
                    out.add(('via', f))
            r = self.root(p)
            if r[0] == 'arg':
                out.add(('argmem', r[1]))
            elif r[0] == 'global':
                out.add(('global', r[1]))
            elif r[0] == 'call':
                out.add(('call', r[1]))
            elif r[0] == 'alloca':
                out.add(('local', self.by_id[r[1]].dv or str(r[1])))
            # index operands of the address computation also flow in
            out |= self._addr_atoms(x.a[0], through_phi, _seen, depth + 1)
            return out
        if x.op == 'call':
            out.add(('call', x.callee or 'indirect'))
            for a in x.a:
                out |= self.atoms(a, through_phi, _seen, depth + 1)
            return out
        if x.op == 'phi' and not through_phi:
            out.add(('phi', x.i)); return out
        if x.op == 'alloca':
            out.add(('local', x.dv or str(x.i))); return out
        if x.op == 'getelementptr':
            out |= self.atoms(x.a[0], through_phi, _seen, depth + 1)
            for st in x.d['path']:
                if st[0] in ('p', 'x'):
                    out |= self.atoms(st[1], through_phi, _seen, depth + 1)
                elif st[0] == 'f':
                    out.add(('addr_field', '%s.%s' % (st[1], st[2])))
            return out
        for a in x.a:
            out |= self.atoms(a, through_phi, _seen, depth + 1)
        return out

    def _addr_atoms(self, o, through_phi, _seen, depth):
        out = set()
        x = self.v(o)
        while x is not None and x.op in ('bitcast', 'getelementptr'):
            if x.op == 'getelementptr':
                for st in x.d['path']:
                    if st[0] in ('p', 'x') and st[1][0] != 'c':
                        out |= self.atoms(st[1], through_phi, _seen, depth + 1)
            x = self.v(x.a[0])
        if x is not None and x.op == 'load':
            out |= self._addr_atoms(x.a[0], through_phi, _seen, depth + 1)
        return out


class Unit:
    def __init__(self, name, d):
        self.name = name; self.d = d
        self.enums = d['enums']; self.structs = d['structs']; self.lltypes = d['lltypes']
        self.globals = {g['name']: g for g in d['globals']}
        self.ctors = d['ctors']
        self.functions = {}
        for fd in d['functions']:
            f = Function(self, fd)
            self.functions[f.name] = f


class Program:
    def __init__(self, paths):
        self.units = {}
        for name, p in sorted(paths.items()):
            with open(p) as fh:
                self.units[name] = Unit(name, json.load(fh))
        self.fn_by_name = defaultdict(list)
        for u in self.units.values():
            for f in u.functions.values():
                self.fn_by_name[f.name].append(f)
        self._cg = None

    # ---- lookups
    def functions(self):
        for u in self.units.values():
            yield from u.functions.values()

    def fn(self, name, unit=None, required=True):
        if unit is not None:
            f = self.units[unit].functions.get(name) if unit in self.units else None
            if f is None and required:
                raise AnalysisBroken('anchor function %s not found in %s' % (name, unit))
            return f
        l = self.fn_by_name.get(name, [])
        if not l:
            if required:
                raise AnalysisBroken('anchor function %s not found' % name)
            return None
        return l[0]

    def resolve(self, caller, name):
        """callee Function object for a direct call from `caller` (same unit first)"""
        if name is None:
            return None
        f = caller.unit.functions.get(name)
        if f is not None:
            return f
        for g in self.fn_by_name.get(name, []):
            if not g.internal:
                return g
        return None

    def enum(self, name):
        for u in self.units.values():
            if name in u.enums:
                return u.enums[name]
        raise AnalysisBroken('enum %s not found' % name)

    def enum_const(self, cname):
        for u in self.units.values():
            for e in u.enums.values():
                if cname in e:
                    return e[cname]
        raise AnalysisBroken('enumerator %s not found' % cname)

    def struct(self, name):
        for u in self.units.values():
            if name in u.structs:
                return u.structs[name]
        raise AnalysisBroken('struct %s not found' % name)

    def global_(self, name, unit=None, required=True):
        for u in self.units.values():
            if unit is not None and u.name != unit:
                continue
            g = u.globals.get(name)
            if g is not None and not g.get('decl'):
                return u, g
        if required:
            raise AnalysisBroken('global %s not found' % name)
        return None, None

    def all_globals(self):
        for u in self.units.values():
            for g in u.globals.values():
                if not g.get('decl'):
                    yield u, g

    @staticmethod
    def array(g):
        """initialiser of a global array as a flat list; a partially initialised array is emitted by clang as a packed
        struct of two arrays (<{ [k x T], [n-k x T] }>) and is flattened here"""
        init = g.get('init')
        if init is None:
            return None
        if g['type'].startswith('<{') and all(isinstance(x, list) for x in init):
            out = []
            for part in init:
                out.extend(part)
            return out
        return init

    @staticmethod
    def array_len(g):
        import re as _re
        if g['type'].startswith('<{'):
            return sum(int(n) for n in _re.findall(r'\[(\d+) x ', g['type']))
        m = _re.match(r'\[(\d+) x ', g['type'])
        return int(m.group(1)) if m else None

    def table(self, u, g):
        """decode a global array-of-struct initialiser into list of dicts keyed by DI field name"""
        ty = g['type']
        m = re.match(r'\[(\d+) x %(.+)\]$', ty)
        rows = g.get('init')
        if not m or rows is None:
            return None
        lt = u.lltypes.get(m.group(2))
        if lt is None:
            return None
        names = [f[1] for f in lt['fields']]
        return [dict(zip(names, r)) for r in rows]

    # ---- call graph
    def callgraph(self):
        """{Function: set(Function)} over direct calls (indirect edges are added by rules that resolve tables)"""
        if self._cg is None:
            cg = {}
            for f in self.functions():
                s = set()
                for c in f.calls():
                    g = self.resolve(f, c.callee)
                    if g is not None:
                        s.add(g)
                cg[f] = s
            self._cg = cg
        return self._cg

    def closure(self, roots, extra_edges=None, stop=()):
        cg = self.callgraph(); seen = set(); work = list(roots)
        while work:
            f = work.pop()
            if f in seen or f.name in stop:
                continue
            seen.add(f)
            work.extend(cg.get(f, ()))
            if extra_edges:
                work.extend(extra_edges.get(f, ()))
        return seen

    def callers(self):
        cg = self.callgraph(); out = defaultdict(set)
        for f, s in cg.items():
            for g in s:
                out[g].add(f)
        return out

    def address_taken(self):
        """{function name: [(where, kind)]} every place a function's address is used other than as a direct callee"""
        out = defaultdict(list)
        def walk(v, where):
            if isinstance(v, dict):
                if 'f' in v:
                    out[v['f']].append(where)
                for k in v.values():
                    walk(k, where)
            elif isinstance(v, list):
                for k in v:
                    walk(k, where)
        for u, g in self.all_globals():
            walk(g.get('init'), ('global', u.name, g['name']))
        def opwalk(o, where):
            if not o:
                return
            if o[0] == 'f':
                out[o[1]].append(where)
            elif o[0] == 'ce':
                for a in o[2]:
                    opwalk(a, where)
            elif o[0] == 'agg':
                for a in o[1]:
                    opwalk(a, where)
        for f in self.functions():
            for x in f.insts():
                for o in x.a:
                    opwalk(o, ('inst', f, x))
        return out


_PROGRAMS = {}


def load(mode='A', extra=(), loops=False):
    key = (build.tree_hash(), mode, tuple(extra), loops)
    if key not in _PROGRAMS:
        _PROGRAMS[key] = Program(build.library_facts(mode, extra, loops))
    return _PROGRAMS[key]


def load_shim(path, mode='O', flags=(), extra=(), incdirs=(), loops=False):
    p = build.shim_facts(path, mode, flags, extra, incdirs, loops)
    return Program({os.path.basename(path): p})
