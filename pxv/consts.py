"""Values of the repository's own macro constants (FAST_PATH_*, PIXMAN_null, HASH_SIZE...), obtained by compiling a
generated shim to IR and reading the folded initialisers.  A macro that no longer exists makes the analysis broken."""
import os, json, hashlib
from . import build
from .build import AnalysisBroken

FAST_PATH_BITS = ['ID_TRANSFORM', 'NO_ALPHA_MAP', 'NO_CONVOLUTION_FILTER', 'NO_PAD_REPEAT', 'NO_REFLECT_REPEAT', 'NO_ACCESSORS', 'NARROW_FORMAT',
                  'COMPONENT_ALPHA', 'SAMPLES_OPAQUE', 'UNIFIED_ALPHA', 'SCALE_TRANSFORM', 'NEAREST_FILTER', 'HAS_TRANSFORM', 'IS_OPAQUE',
                  'NO_NORMAL_REPEAT', 'NO_NONE_REPEAT', 'X_UNIT_POSITIVE', 'AFFINE_TRANSFORM', 'Y_UNIT_ZERO', 'BILINEAR_FILTER', 'ROTATE_90_TRANSFORM',
                  'ROTATE_180_TRANSFORM', 'ROTATE_270_TRANSFORM', 'SAMPLES_COVER_CLIP_NEAREST', 'SAMPLES_COVER_CLIP_BILINEAR', 'BITS_IMAGE',
                  'SEPARABLE_CONVOLUTION_FILTER']
FAST_PATH_COMPOSED = ['PAD_REPEAT', 'NORMAL_REPEAT', 'NONE_REPEAT', 'REFLECT_REPEAT', 'STANDARD_FLAGS', 'STD_DEST_FLAGS']
PSEUDO_FORMATS = ['PIXMAN_null', 'PIXMAN_solid', 'PIXMAN_pixbuf', 'PIXMAN_rpixbuf', 'PIXMAN_unknown', 'PIXMAN_any', 'PIXMAN_OP_any']

_cache = {}


def get(names, includes=('pixman-private.h',), pre=''):
    key = (tuple(names), tuple(includes), pre, build.tree_hash())
    if key in _cache:
        return _cache[key]
    src = ['#include <config.h>'] + [pre] + ['#include "%s"' % i for i in includes]
    for n in names:
        src.append('const long long pxc_%s = (long long)(%s);' % (n, n))
    text = '\n'.join(src) + '\n'
    d = os.path.join(build.cache_dir(), 'gen'); os.makedirs(d, exist_ok=True)
    p = os.path.join(d, 'consts_%s.c' % hashlib.sha1(text.encode()).hexdigest()[:10])
    if not os.path.exists(p):
        tmp = p + '.tmp%d' % os.getpid()
        with open(tmp, 'w') as f:
            f.write(text)
        os.replace(tmp, p)
    try:
        j = json.load(open(build.shim_facts(p, mode='A')))
    except AnalysisBroken as e:
        raise AnalysisBroken('constant shim does not compile (a macro the rules anchor on vanished?): ' + str(e)[-600:])
    out = {}
    for g in j['globals']:
        if g['name'].startswith('pxc_'):
            out[g['name'][4:]] = int(g['init'])
    for n in names:
        if n not in out:
            raise AnalysisBroken('constant %s not recovered' % n)
    _cache[key] = out
    return out


def fast_path_flags():
    d = get(['FAST_PATH_' + n for n in FAST_PATH_BITS + FAST_PATH_COMPOSED] + PSEUDO_FORMATS + ['PIXMAN_N_OPERATORS'])
    return d
