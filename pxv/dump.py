"""debug aid: print a function's events in readable form.  usage: python3 -m pxv.dump <function> [unit] [--all]"""
import sys
from . import facts


def vstr(f, o, depth=0):
    if o is None:
        return '?'
    k = o[0]
    if k == 'c':
        return str(o[1])
    if k == 'a':
        return 'arg%d' % o[1]
    if k == 'n':
        return 'null'
    if k == 'g':
        return '@' + o[1]
    if k == 'f':
        return '&' + o[1]
    if k == 'fc':
        return o[1]
    if k == 'ce':
        return 'ce_%s(%s)' % (o[1], ','.join(vstr(f, a, depth + 1) for a in o[2]))
    if k != 'v':
        return k
    x = f.by_id.get(o[1])
    if x is None or depth > 6:
        return '%%%d' % o[1]
    if x.op == 'load':
        return '*(' + f.pstr(f.path(x.a[0])) + ')'
    if x.op in ('getelementptr', 'alloca'):
        return '&' + f.pstr(f.path(o))
    if x.op == 'call':
        return 'ret:%s#%d' % (x.callee, x.i)
    if x.op == 'phi':
        return 'phi#%d%s' % (x.i, '<' + x.dv + '>' if x.dv else '')
    if x.op in ('bitcast',):
        return vstr(f, x.a[0], depth + 1)
    if x.op in ('zext', 'sext', 'trunc', 'ptrtoint', 'inttoptr', 'sitofp', 'fptosi', 'uitofp', 'fptoui', 'fpext', 'fptrunc'):
        return '%s(%s)' % (x.op, vstr(f, x.a[0], depth + 1))
    if x.op in ('icmp', 'fcmp'):
        return '%s_%s(%s,%s)' % (x.op, x.pred, vstr(f, x.a[0], depth + 1), vstr(f, x.a[1], depth + 1))
    return '%s(%s)' % (x.op, ','.join(vstr(f, a, depth + 1) for a in x.a))


def dump(f, all_=False):
    print('FUNC %s  unit=%s internal=%s vis=%d dret=%s params=%s' % (f.name, f.unit.name, f.internal, f.vis, f.dret, [p[0] for p in f.params]))
    for b in f.blocks:
        print(' B%d -> %s' % (b.id, ' '.join('B%d' % s for s in b.succ)))
        for x in b.insts:
            if x.op == 'store':
                print('   %4d #%d STORE %s <- %s' % (x.line, x.i, f.pstr(f.path(x.a[1])), vstr(f, x.a[0])))
            elif x.op == 'call':
                nm = x.callee or ('indirect:' + vstr(f, x.d.get('callee')))
                print('   %4d #%d CALL %s(%s)%s' % (x.line, x.i, nm, ', '.join(vstr(f, a) for a in x.a), '' if x.d.get('used') or x.ty == 'void' else ' UNUSED'))
            elif x.op == 'ret':
                print('   %4d #%d RET %s' % (x.line, x.i, vstr(f, x.a[0]) if x.a else 'void'))
            elif x.op == 'br':
                if x.a:
                    print('   %4d #%d BR %s ? B%d : B%d' % (x.line, x.i, vstr(f, x.a[0]), x.d['succ'][0], x.d['succ'][1]))
            elif x.op == 'switch':
                print('   %4d #%d SWITCH %s cases=%s default=B%d' % (x.line, x.i, vstr(f, x.a[0]), x.d['cases'], x.d['default']))
            elif x.op == 'phi':
                print('   %4d #%d PHI<%s:%s> %s' % (x.line, x.i, x.dv, x.dt, ' '.join('B%d:%s' % (bb, vstr(f, a, 5)) for a, bb in zip(x.a, x.d['bb']))))
            elif all_:
                print('   %4d #%d %s %s %s%s' % (x.line, x.i, x.op, x.ty, ','.join(vstr(f, a, 5) for a in x.a), ' <%s:%s>' % (x.dv, x.dt) if x.dv else ''))


if __name__ == '__main__':
    args = [a for a in sys.argv[1:] if not a.startswith('--')]
    P = facts.load()
    for f in P.fn_by_name.get(args[0], []):
        if len(args) > 1 and f.unit.name != args[1]:
            continue
        dump(f, '--all' in sys.argv)
