"""Both-ways self-test (DESIGN §7): every patch under mutants/<ID>/ applied to a scratch copy of the current tree (outside /repo and /verif)
must make that property's check report a VIOLATION; every patch under benign/ must leave it silent.  Scratch copies are deleted at once."""
import os, subprocess, tempfile, shutil, glob, sys
from concurrent.futures import ThreadPoolExecutor
from .build import VERIF, repo


def _one(args):
    pid, patch, expect_violation = args
    d = tempfile.mkdtemp(prefix='pxm.', dir='/tmp')
    try:
        r = os.path.join(d, 'r'); os.makedirs(r)
        subprocess.run('cd %s && tar cf - --exclude=_build --exclude=.git . | (cd %s && tar xf -)' % (repo(), r), shell=True, check=True)
        p = subprocess.run(['patch', '-p1', '-s', '--no-backup-if-mismatch', '-i', os.path.abspath(patch)], cwd=r, capture_output=True, text=True)
        if p.returncode != 0:
            return (patch, 'stale', 'patch no longer applies to the current tree')
        env = dict(os.environ, PXV_REPO=r, PXV_NO_EVIDENCE='1', VERIF_TIER='quick')
        q = subprocess.run([sys.executable, '-m', 'pxv.cli', pid, '--tier', 'quick'], cwd=VERIF, env=env, capture_output=True, text=True)
        viol = [l for l in q.stdout.splitlines() if l.startswith('VIOLATION')]
        if expect_violation:
            if q.returncode == 1 and viol:
                import re
                first = [l for l in q.stdout.splitlines() if re.match(r'^  C\d+-R\w+: ', l)]
                return (patch, 'detected', (first[0].strip()[:200] if first else viol[0]))
            broken = [l for l in q.stdout.splitlines() if l.startswith('ANALYSIS-BROKEN')] + q.stderr.strip().splitlines()[-1:]
            return (patch, 'missed', 'exit %d, no VIOLATION line%s' % (q.returncode, (' (' + broken[0][:160] + ')') if broken else ''))
        else:
            if q.returncode == 0 and not viol:
                return (patch, 'silent', '')
            return (patch, 'false-alarm', (viol[0] if viol else 'exit %d' % q.returncode))
    finally:
        shutil.rmtree(d, ignore_errors=True)


def _touched(patch):
    out = set()
    try:
        for l in open(patch, errors='replace'):
            if l.startswith('+++ '):
                out.add(os.path.basename(l[4:].split('\t')[0].strip()))
    except Exception:
        pass
    return out


def _relevant(patch, units):
    """a behaviour-preserving variant can only raise a false alarm in a check that reads the code it rewrites: it is run for a property
    when it touches a header, a unit the baseline run of that property analysed, or a .c file such a unit includes (pixman-region.c in
    pixman-region16.c / -32.c, pixman-access.c in pixman-access-accessors.c, pixman-edge.c in pixman-edge-accessors.c)"""
    if not units:
        return True
    inc = _c_includes()
    for t in _touched(patch) or {'?.h'}:
        if t.endswith('.h') or t in units:
            return True
        if any(u in units for u in inc.get(t, ())):
            return True
    return False


_INC = {}


def _c_includes():
    """.c files that are #included by other units of the tree: {included: [including unit, ...]}"""
    key = repo()
    if key not in _INC:
        import re
        m = {}
        for path in glob.glob(os.path.join(key, 'pixman', '*.c')):
            try:
                txt = open(path, errors='replace').read()
            except Exception:
                continue
            for q in re.findall(r'#\s*include\s+"([^"]+\.c)"', txt):
                m.setdefault(os.path.basename(q), []).append(os.path.basename(path))
        _INC[key] = m
    return _INC[key]


def run(pid, workers=8, units=None):
    jobs = [(pid, p, True) for p in sorted(glob.glob(os.path.join(VERIF, 'mutants', pid, '*.patch')))]
    jobs += [(pid, p, True) for p in sorted(glob.glob(os.path.join(VERIF, 'seeded', '*', 'patch.diff'))) if _seed_applies(p, pid)]
    benign = sorted(glob.glob(os.path.join(VERIF, 'benign', '*.patch')))
    jobs += [(pid, p, False) for p in benign if _relevant(p, units)]
    with ThreadPoolExecutor(max_workers=workers) as ex:
        res = list(ex.map(_one, jobs))
    res += [(p, 'not-relevant', 'touches no unit this check analyses') for p in benign if not _relevant(p, units)]
    return res


def _seed_applies(patch, pid):
    import json
    m = os.path.join(os.path.dirname(patch), 'meta.json')
    try:
        meta = json.load(open(m))
    except Exception:
        return False
    return pid in meta.get('detected_by', [])
