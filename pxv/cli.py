"""/verif/check <ID> [--tier quick|thorough] [--replay file]"""
import sys, os, importlib, traceback
from .build import AnalysisBroken
from .report import Check


def main(argv):
    if len(argv) < 2:
        print('usage: check <property id> [--tier quick|thorough] [--replay file]'); return 2
    pid = argv[1].upper(); tier = os.environ.get('VERIF_TIER', 'quick'); replay = None
    i = 2
    while i < len(argv):
        if argv[i] == '--tier':
            tier = argv[i + 1]; i += 2
        elif argv[i] == '--replay':
            replay = argv[i + 1]; i += 2
        else:
            i += 1
    if tier not in ('quick', 'thorough'):
        tier = 'quick'
    try:
        mod = importlib.import_module('pxv.props.' + pid.lower())
    except ModuleNotFoundError:
        print('no check for property', pid); return 2
    ck = Check(pid, tier, replay)
    print('check %s tier=%s repo=%s' % (pid, tier, os.environ.get('PXV_REPO', '/repo')))
    try:
        mod.run(ck)
        if tier == 'thorough' and replay is None and not os.environ.get('PXV_NO_EVIDENCE'):
            from . import selftest
            res = selftest.run(pid, units=set(ck.units))
            det = [r for r in res if r[1] == 'detected']; sil = [r for r in res if r[1] == 'silent']
            ck.note('self-test: %d mutants detected, %d benign edits silent (%d more touch no unit this check analyses), %d stale patches' % (len(det), len(sil), len([r for r in res if r[1] == 'not-relevant']), len([r for r in res if r[1] == 'stale'])))
            ck.selftest = [dict(patch=os.path.relpath(r[0], os.path.dirname(os.path.dirname(os.path.abspath(__file__)))), verdict=r[1], report=r[2]) for r in res]
            for r in res:
                if r[1] == 'not-relevant':
                    continue
                nm = os.path.basename(r[0]) if 'seeded' not in r[0] else os.path.basename(os.path.dirname(r[0])) + '/patch.diff'
                print('  self-test %-11s %s %s' % (r[1], nm, r[2][:240]))
                if r[1] in ('missed', 'false-alarm'):
                    ck.broken.append('self-test: %s %s (%s)' % (r[1], nm, r[2]))
        return ck.finish()
    except AnalysisBroken as e:
        print('ANALYSIS-BROKEN property=%s %s' % (pid, e))
        return 2
    except Exception:
        traceback.print_exc()
        print('ANALYSIS-BROKEN property=%s internal error in the checker' % pid)
        return 2


if __name__ == '__main__':
    import signal
    try:
        signal.signal(signal.SIGPIPE, signal.SIG_DFL)
    except Exception:
        pass
    sys.exit(main(sys.argv))
