"""/verif/check <ID> [--tier quick|thorough] [--replay file]"""
import sys, os, importlib, traceback
from .build import AnalysisBroken
from .report import Check


def _resilient_run(mod, ck):
    """Run the property module's run(ck) with every rule call (a bare call statement) guarded on its own: a rule whose anchor has
    vanished (AnalysisBroken) is recorded as analysis-incomplete and the remaining rules still run, so that a violation another rule
    finds is not hidden behind it.  finish() lets violations take precedence (exit 1) over incompleteness (exit 2)."""
    import ast, inspect
    try:
        tree = ast.parse(inspect.getsource(mod))
    except (OSError, SyntaxError):
        return mod.run(ck)
    for node in tree.body:
        if isinstance(node, ast.FunctionDef) and node.name == 'run':
            body = []
            for st in node.body:
                if isinstance(st, ast.Expr) and isinstance(st.value, ast.Call):
                    handler = ast.ExceptHandler(
                        type=ast.Name(id='AnalysisBroken', ctx=ast.Load()), name='_e',
                        body=[ast.Expr(ast.Call(func=ast.Attribute(value=ast.Attribute(value=ast.Name(id=node.args.args[0].arg, ctx=ast.Load()), attr='broken', ctx=ast.Load()), attr='append', ctx=ast.Load()),
                                                args=[ast.Call(func=ast.Name(id='str', ctx=ast.Load()), args=[ast.Name(id='_e', ctx=ast.Load())], keywords=[])], keywords=[]))])
                    body.append(ast.Try(body=[st], handlers=[handler], orelse=[], finalbody=[]))
                else:
                    body.append(st)
            node.body = body
    ast.fix_missing_locations(tree)
    ns = dict(mod.__dict__)
    ns['AnalysisBroken'] = AnalysisBroken
    exec(compile(tree, mod.__file__, 'exec'), ns)
    return ns['run'](ck)


def main(argv):
    if len(argv) < 2:
        print('usage: check <property id> [--tier quick|thorough] [--replay file]'); return 2
    pid = argv[1].upper(); tier = os.environ.get('VERIF_TIER', 'quick'); replay = None
    i = 2
    while i < len(argv):
        if argv[i] == '--tier':
            tier = argv[i + 1]; i += 2
        elif argv[i] == '--replay':
            replay = argv[i + 1]; i += 2
        else:
            i += 1
    if tier not in ('quick', 'thorough'):
        tier = 'quick'
    try:
        mod = importlib.import_module('pxv.props.' + pid.lower())
    except ModuleNotFoundError:
        print('no check for property', pid); return 2
    ck = Check(pid, tier, replay)
    print('check %s tier=%s repo=%s' % (pid, tier, os.environ.get('PXV_REPO', '/repo')))
    try:
        _resilient_run(mod, ck)
        if tier == 'thorough' and replay is None and not os.environ.get('PXV_NO_EVIDENCE'):
            from . import selftest
            res = selftest.run(pid, units=set(ck.units))
            det = [r for r in res if r[1] == 'detected']; sil = [r for r in res if r[1] == 'silent']
            ck.note('self-test: %d mutants detected, %d benign edits silent (%d more touch no unit this check analyses), %d stale patches' % (len(det), len(sil), len([r for r in res if r[1] == 'not-relevant']), len([r for r in res if r[1] == 'stale'])))
            ck.selftest = [dict(patch=os.path.relpath(r[0], os.path.dirname(os.path.dirname(os.path.abspath(__file__)))), verdict=r[1], report=r[2]) for r in res]
            for r in res:
                if r[1] == 'not-relevant':
                    continue
                nm = os.path.basename(r[0]) if 'seeded' not in r[0] else os.path.basename(os.path.dirname(r[0])) + '/patch.diff'
                print('  self-test %-11s %s %s' % (r[1], nm, r[2][:240]))
                if r[1] in ('missed', 'false-alarm'):
                    ck.broken.append('self-test: %s %s (%s)' % (r[1], nm, r[2]))
        return ck.finish()
    except AnalysisBroken as e:
        print('ANALYSIS-BROKEN property=%s %s' % (pid, e))
        return 2
    except Exception:
        traceback.print_exc()
        print('ANALYSIS-BROKEN property=%s internal error in the checker' % pid)
        return 2


if __name__ == '__main__':
    import signal
    try:
        signal.signal(signal.SIGPIPE, signal.SIG_DFL)
    except Exception:
        pass
    sys.exit(main(sys.argv))
