"""/verif/check <ID> [--tier quick|thorough] [--replay file]"""
import sys, os, importlib, traceback
from .build import AnalysisBroken
from .report import Check


def main(argv):
    if len(argv) < 2:
        print('usage: check <property id> [--tier quick|thorough] [--replay file]'); return 2
    pid = argv[1].upper(); tier = os.environ.get('VERIF_TIER', 'quick'); replay = None
    i = 2
    while i < len(argv):
        if argv[i] == '--tier':
            tier = argv[i + 1]; i += 2
        elif argv[i] == '--replay':
            replay = argv[i + 1]; i += 2
        else:
            i += 1
    if tier not in ('quick', 'thorough'):
        tier = 'quick'
    try:
        mod = importlib.import_module('pxv.props.' + pid.lower())
    except ModuleNotFoundError:
        print('no check for property', pid); return 2
    ck = Check(pid, tier, replay)
    print('check %s tier=%s repo=%s' % (pid, tier, os.environ.get('PXV_REPO', '/repo')))
    try:
        mod.run(ck)
        return ck.finish()
    except AnalysisBroken as e:
        print('ANALYSIS-BROKEN property=%s %s' % (pid, e))
        return 2
    except Exception:
        traceback.print_exc()
        print('ANALYSIS-BROKEN property=%s internal error in the checker' % pid)
        return 2


if __name__ == '__main__':
    sys.exit(main(sys.argv))
