"""Check bookkeeping: rule instances, floors, known findings, evidence, exit protocol (DESIGN §3.5)."""
import json, os, sys, time, hashlib
from .build import VERIF, AnalysisBroken

KNOWN = os.path.join(VERIF, 'known_findings.json')


def _fp(d):
    return hashlib.sha1(json.dumps(d, sort_keys=True).encode()).hexdigest()[:10]


class Check:
    def __init__(self, pid, tier='quick', replay=None):
        self.pid = pid; self.tier = tier; self.t0 = time.time()
        self.rules = {}          # rule id -> dict(desc, instances, nontrivial set, floor, samples, violations)
        self.order = []
        self.broken = []         # analysis-incomplete reasons
        self.notes = []
        self.assumptions = []
        self.replay = json.load(open(replay)) if replay else None
        self.units = set(); self.functions = set()
        self.not_decided = ''
        self.level = 'other'
        self.obligations = None
        self.selftest = None
        try:
            self.known = [k for k in json.load(open(KNOWN))['findings']]
        except FileNotFoundError:
            self.known = []

    # ---- rule registration
    def rule(self, rid, desc, floor=0):
        if rid not in self.rules:
            self.rules[rid] = dict(desc=desc, n=0, nontrivial=set(), floor=floor, samples=[], viol=[], incomplete=[])
            self.order.append(rid)
        return rid

    def ok(self, rid, construct, detail=None):
        """one rule instance evaluated and found to hold; construct is a short hashable description"""
        r = self.rules[rid]; r['n'] += 1
        r['nontrivial'].add(str(construct))
        if len(r['samples']) < 3:
            r['samples'].append({'construct': str(construct), 'verdict': 'holds', 'detail': detail})

    def violation(self, rid, function, construct, what, loc=None, detail=None):
        """an instance that does not hold.  fingerprint = (function, construct) — no line numbers."""
        r = self.rules[rid]; r['n'] += 1
        r['nontrivial'].add(str(construct) + '@' + str(function))
        r['viol'].append(dict(rule=rid, function=function, construct=construct, what=what, loc=loc, detail=detail))

    def incomplete(self, rid, what):
        """the rule could not decide an instance (unknown idiom, undischarged top): analysis-incomplete, exit 2"""
        self.rules[rid]['incomplete'].append(what)

    def saw(self, f):
        self.functions.add(f.name); self.units.add(f.unit.name)

    def note(self, s):
        self.notes.append(s)

    # ---- finish
    def finish(self):
        viol_new = []; viol_known = []
        for rid in self.order:
            r = self.rules[rid]
            if r['n'] < r['floor']:
                self.broken.append('%s matched %d instances, below the floor %d confirmed on the pinned tree' % (rid, r['n'], r['floor']))
            for w in r['incomplete']:
                self.broken.append('%s: %s' % (rid, w))
            for v in r['viol']:
                k = self._known(v)
                (viol_known if k else viol_new).append((v, k))
        if self.replay is not None:
            want = (self.replay.get('rule'), self.replay.get('function'), self.replay.get('construct'))
            viol_new = [(v, k) for v, k in viol_new + viol_known if (v['rule'], v['function'], v['construct']) == want]
            viol_known = []
        evaluations = sum(self.rules[r]['n'] for r in self.order)
        distinct = sum(len(self.rules[r]['nontrivial']) for r in self.order)
        samples = []
        for rid in self.order:
            samples.extend(dict(rule=rid, **s) for s in self.rules[rid]['samples'][:2])
        cov = dict(
            evaluations=evaluations, distinct_nontrivial=distinct,
            rule='Each evaluation is one rule instance (a table entry, call site, store, field, guard, wrapper or path query) of the rules listed under "rules", '
                 'enumerated exhaustively from the LLVM IR of /repo\'s current working tree; an instance is distinct and non-trivial when the rule had a '
                 'construct to decide (distinct constructs are counted per rule by their description, not by line).',
            samples=samples[:12] or [{'note': 'no instance'}],
            explanation=('Static analysis over clang-14 LLVM IR of every library unit the meson build compiles (no pixman code is executed). '
                         'Decides the structural clauses listed per rule; ' + (self.not_decided or '')),
            exhaustive=True,
            rules={rid: dict(description=self.rules[rid]['desc'], instances=self.rules[rid]['n'], distinct=len(self.rules[rid]['nontrivial']), floor=self.rules[rid]['floor'],
                             violations=len(self.rules[rid]['viol'])) for rid in self.order},
            units_analysed=sorted(self.units), functions_analysed=len(self.functions),
            known_findings_reported=[v['what'] for v, k in viol_known],
            analysis_incomplete=self.broken,
            notes=self.notes,
        )
        if self.selftest is not None:
            cov['self_test'] = self.selftest
        if self.obligations is not None:
            ob, dis, cmd, tb = self.obligations
            cov.update(obligations=ob, discharged=dis, checker_cmd=cmd, trusted_base=tb)
        ev = dict(property_id=self.pid, tier=self.tier, seed=int(os.environ.get('VERIF_SEED', '0') or 0), level=self.level, coverage=cov,
                  assumptions=self.assumptions or ['clang 14 front end sees the same program as the build for this config.h', 'mem2reg preserves semantics'],
                  wall_s=round(time.time() - self.t0, 3), violations=len(viol_new))
        os.makedirs(os.path.join(VERIF, 'evidence'), exist_ok=True)
        if self.replay is None and not os.environ.get('PXV_NO_EVIDENCE'):
            with open(os.path.join(VERIF, 'evidence', self.pid + '.json'), 'w') as f:
                json.dump(ev, f, indent=1, default=str)
        for rid in self.order:
            r = self.rules[rid]
            print('  %-10s %4d instances (%d distinct, floor %d), %d violation(s)  — %s' % (rid, r['n'], len(r['nontrivial']), r['floor'], len(r['viol']), r['desc'][:110]))
        for v, k in viol_known:
            print('KNOWN-FINDING: property=%s %s [%s in %s: %s]' % (self.pid, k['what'], v['rule'], v['function'], v['construct']))
        rc = 0
        if viol_new:
            rdir = os.path.join(VERIF, 'replay', self.pid) if not os.environ.get('PXV_NO_EVIDENCE') else os.path.join('/tmp', 'pxv-replay-%d' % os.getpid(), self.pid)
            os.makedirs(rdir, exist_ok=True)
            for v, _ in viol_new:
                p = os.path.join(rdir, '%s-%s.json' % (v['rule'], _fp([v['function'], v['construct']])))
                with open(p, 'w') as f:
                    json.dump(dict(property=self.pid, **v), f, indent=1, default=str)
                print('  %s: %s in %s%s: %s' % (v['rule'], v['construct'], v['function'], ' (' + v['loc'] + ')' if v['loc'] else '', v['what']))
                print('VIOLATION property=%s replay=%s' % (self.pid, p))
            rc = 1
        if self.broken and rc == 0:
            for b in self.broken:
                print('ANALYSIS-BROKEN property=%s %s' % (self.pid, b))
            rc = 2
        return rc

    def _known(self, v):
        for k in self.known:
            if k.get('status') != 'known':
                continue
            if k['property'] == self.pid and k['rule'] == v['rule'] and k['fingerprint'].get('function') == v['function'] and k['fingerprint'].get('construct') == v['construct']:
                return k
        return None
