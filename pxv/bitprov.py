"""E2 — bit-provenance abstract interpreter (DESIGN §3.3).

Domain: an integer SSA value of width w is a list of w abstract bits (LSB first); each bit is
0 | 1 | ('in', k, j) (bit j of argument k) | ('not', k, j) | TOP.  Forward dataflow over the -O2 IR of a shim wrapper; it never
enumerates values.  A TOP result bit leaves the obligation undischarged (reported, never silently accepted)."""
TOP = 'T'


def const_bits(v, w):
    v &= (1 << w) - 1
    return [(v >> i) & 1 for i in range(w)]


def _neg(b):
    if b == 0:
        return 1
    if b == 1:
        return 0
    if isinstance(b, tuple) and b[0] == 'in':
        return ('not',) + b[1:]
    if isinstance(b, tuple) and b[0] == 'not':
        return ('in',) + b[1:]
    return TOP


def _lit(b):
    return isinstance(b, tuple) and b[0] in ('in', 'not')


def _combine(kind, x, y):
    """depth-1 boolean combination of literals: ('or'|'and'|'xor', frozenset(literals))"""
    def terms(b):
        if _lit(b):
            return {b}
        if isinstance(b, tuple) and b[0] == kind:
            return set(b[1])
        return None
    tx, ty = terms(x), terms(y)
    if tx is None or ty is None:
        return TOP
    t = tx | ty
    if kind == 'xor':
        t = tx ^ ty
        if any(_neg(q) in t for q in t):
            return TOP
        if not t:
            return 0
    else:
        if any(_neg(q) in t for q in t):
            return 1 if kind == 'or' else 0
    if len(t) == 1:
        return next(iter(t))
    if len(t) > 6:
        return TOP
    return (kind, frozenset(t))


def _and(x, y):
    if x == 0 or y == 0:
        return 0
    if x == 1:
        return y
    if y == 1:
        return x
    if x == y:
        return x
    if x == TOP or y == TOP:
        return TOP
    return _combine('and', x, y)


def _or(x, y):
    if x == 1 or y == 1:
        return 1
    if x == 0:
        return y
    if y == 0:
        return x
    if x == y:
        return x
    if x == TOP or y == TOP:
        return TOP
    return _combine('or', x, y)


def _xor(x, y):
    if x == 0:
        return y
    if y == 0:
        return x
    if x == 1:
        return _neg(y)
    if y == 1:
        return _neg(x)
    if x == TOP or y == TOP:
        return TOP
    if x == y:
        return 0
    return _combine('xor', x, y)


def _width(ty):
    if ty.startswith('i') and ty[1:].isdigit():
        return int(ty[1:])
    if ty.startswith('{') and ty.endswith('}'):
        ws = [_width(t.strip()) for t in ty[1:-1].split(',')]
        if all(ws):
            return sum(ws)
    return None


def _elem_range(ty, idx):
    ws = [_width(t.strip()) for t in ty[1:-1].split(',')]
    lo = sum(ws[:idx])
    return lo, lo + ws[idx]


class Interp:
    def __init__(self, f, arg_bits=None):
        self.f = f
        self.env = {}
        self.args = {}
        for k, (n, t) in enumerate(f.params):
            w = _width(t)
            if w:
                self.args[k] = arg_bits[k] if arg_bits and k in arg_bits else [('in', k, j) for j in range(w)]
        self.unknown = []

    def val(self, o, w):
        k = o[0]
        if k == 'c':
            return const_bits(int(o[1]), w)
        if k == 'a':
            return self.args.get(o[1], [TOP] * w)
        if k == 'v':
            return self.env.get(o[1], [TOP] * w)
        if k == 'u':
            return [TOP] * w
        return [TOP] * w

    def cval(self, o, w):
        b = self.val(o, w)
        if all(x in (0, 1) for x in b):
            return sum(x << i for i, x in enumerate(b))
        return None

    def run(self):
        f = self.f
        # reverse post-order
        order = []; seen = set()
        def dfs(b):
            seen.add(b)
            for s in f.blocks[b].succ:
                if s not in seen:
                    dfs(s)
            order.append(b)
        dfs(0)
        ret = None
        for b in reversed(order):
            for x in f.blocks[b].insts:
                r = self.step(x)
                if x.op == 'ret' and x.a:
                    w = _width(self._ty_of(x.a[0]))
                    v = self.val(x.a[0], w or 32)
                    ret = v if ret is None else [p if p == q else TOP for p, q in zip(ret, v)]
        return ret

    def _ty_of(self, o):
        if o[0] == 'c':
            return 'i%d' % o[2]
        if o[0] == 'v':
            return self.f.by_id[o[1]].ty
        if o[0] == 'a':
            return self.f.params[o[1]][1]
        return 'i32'

    def step(self, x):
        w = _width(x.ty)
        op = x.op
        if op in ('and', 'or', 'xor'):
            A = self.val(x.a[0], w); B = self.val(x.a[1], w)
            fn = {'and': _and, 'or': _or, 'xor': _xor}[op]
            self.env[x.i] = [fn(p, q) for p, q in zip(A, B)]
        elif op in ('shl', 'lshr', 'ashr'):
            A = self.val(x.a[0], w); k = self.cval(x.a[1], w)
            if k is None or k >= w:
                self.env[x.i] = [TOP] * w
            elif op == 'shl':
                self.env[x.i] = ([0] * k + A)[:w]
            elif op == 'lshr':
                self.env[x.i] = (A[k:] + [0] * k)[:w]
            else:
                self.env[x.i] = (A[k:] + [A[-1]] * k)[:w]
        elif op in ('zext', 'sext', 'trunc'):
            sw = _width(x.d.get('st', '')) or _width(self._ty_of(x.a[0]))
            A = self.val(x.a[0], sw)
            if op == 'trunc':
                self.env[x.i] = A[:w]
            else:
                self.env[x.i] = A + ([0] if op == 'zext' else [A[-1]]) * (w - sw)
        elif op == 'select':
            c = self.val(x.a[0], 1)[0]
            X = self.val(x.a[1], w); Y = self.val(x.a[2], w)
            if c == 1:
                self.env[x.i] = X
            elif c == 0:
                self.env[x.i] = Y
            else:
                self.env[x.i] = [p if p == q else TOP for p, q in zip(X, Y)]
        elif op == 'phi':
            vs = [self.val(a, w) for a in x.a if not (a[0] == 'v' and a[1] not in self.env)]
            if vs and w:
                r = vs[0]
                for v in vs[1:]:
                    r = [p if p == q else TOP for p, q in zip(r, v)]
                self.env[x.i] = r
            elif w:
                self.env[x.i] = [TOP] * w
        elif op == 'icmp':
            sw = _width(self._ty_of(x.a[0])) or 32
            A = self.val(x.a[0], sw); B = self.val(x.a[1], sw)
            r = TOP
            if all(p in (0, 1) for p in A + B):
                a = sum(p << i for i, p in enumerate(A)); bb = sum(p << i for i, p in enumerate(B))
                r = {'eq': a == bb, 'ne': a != bb, 'ult': a < bb, 'ugt': a > bb, 'ule': a <= bb, 'uge': a >= bb}.get(x.pred, None)
                r = TOP if r is None else int(r)
            elif x.pred in ('eq', 'ne'):
                # single-bit test: (x & 1<<j) ==/!= 0
                nz = [p for p in A if p != 0]
                if all(q == 0 for q in B) and len(nz) == 1 and nz[0] != TOP:
                    r = nz[0] if x.pred == 'ne' else _neg(nz[0])
            self.env[x.i] = [r]
        elif op == 'call' and x.callee and x.callee.startswith('llvm.bswap'):
            A = self.val(x.a[0], w)
            self.env[x.i] = sum([A[w - 8 * (k + 1):w - 8 * k] for k in range(w // 8)], [])
        elif op == 'call' and x.callee and x.callee.startswith(('llvm.fshl', 'llvm.fshr')):
            A = self.val(x.a[0], w); B = self.val(x.a[1], w); k = self.cval(x.a[2], w)
            if k is None:
                self.env[x.i] = [TOP] * w
            else:
                k %= w
                cat = B + A          # low half B, high half A
                if x.callee.startswith('llvm.fshl'):
                    self.env[x.i] = cat[w - k:2 * w - k] if k else A
                else:
                    self.env[x.i] = cat[k:k + w]
        elif op in ('add', 'mul') and w:
            A = self.val(x.a[0], w); B = self.val(x.a[1], w)
            if op == 'add':
                # carry-free addition (disjoint possibly-non-zero positions) is an or
                if all(p == 0 or q == 0 for p, q in zip(A, B)):
                    self.env[x.i] = [_or(p, q) for p, q in zip(A, B)]
                else:
                    self.env[x.i] = [TOP] * w; self.unknown.append(x)
            else:
                c = self.cval(x.a[1], w); X = A
                if c is None:
                    c = self.cval(x.a[0], w); X = B
                if c is None:
                    self.env[x.i] = [TOP] * w; self.unknown.append(x)
                else:
                    acc = [0] * w; ok = True
                    for s in range(w):
                        if (c >> s) & 1:
                            sh = ([0] * s + X)[:w]
                            if any(p != 0 and q != 0 for p, q in zip(acc, sh)):
                                ok = False; break
                            acc = [_or(p, q) for p, q in zip(acc, sh)]
                    self.env[x.i] = acc if ok else [TOP] * w
                    if not ok:
                        self.unknown.append(x)
        elif op == 'insertvalue' and w and len(x.d.get('idx', [])) == 1:
            A = self.val(x.a[0], w)
            lo, hi = _elem_range(x.ty, x.d['idx'][0])
            V = self.val(x.a[1], hi - lo)
            self.env[x.i] = A[:lo] + V + A[hi:]
        elif op == 'extractvalue' and w and len(x.d.get('idx', [])) == 1:
            sty = self._ty_of(x.a[0]); sw = _width(sty)
            A = self.val(x.a[0], sw)
            lo, hi = _elem_range(sty, x.d['idx'][0])
            self.env[x.i] = A[lo:hi]
        elif op == 'freeze' and w:
            self.env[x.i] = self.val(x.a[0], w)
        elif w and op not in ('ret', 'br', 'store'):
            self.env[x.i] = [TOP] * w; self.unknown.append(x)
        return None


def provenance(f, arg_bits=None):
    it = Interp(f, arg_bits)
    r = it.run()
    return r, it


def show(bits):
    """compact rendering, MSB first"""
    out = []
    for b in reversed(bits):
        if b in (0, 1):
            out.append(str(b))
        elif b == TOP:
            out.append('?')
        elif b[0] in ('or', 'and', 'xor'):
            out.append(b[0] + '(' + ','.join(sorted(show([q]) for q in b[1])) + ')')
        elif b[0] == 'in':
            out.append('%s%d' % ('abcdefgh'[b[1]], b[2]))
        else:
            out.append('~%s%d' % ('abcdefgh'[b[1]], b[2]))
    return ' '.join(out)


# ---------------------------------------------------------------------------------------------- SIMD values
import re as _re
_VEC = _re.compile(r'^<(\d+) x i(\d+)>$')


def vwidth(ty):
    """(total width, lane width) of an integer, x86_mmx or integer-vector type"""
    if ty == 'x86_mmx':
        return 64, 64
    m = _VEC.match(ty or '')
    if m:
        return int(m.group(1)) * int(m.group(2)), int(m.group(2))
    if ty in ('double', '<1 x double>'):
        return 64, 64
    w = _width(ty or '')
    return (w, w) if w else (None, None)


def _lanes(bits, lw):
    return [bits[i:i + lw] for i in range(0, len(bits), lw)]


def _mulc(X, c, w):
    """X * c (mod 2^w) for a constant c when the shifted copies never overlap (no carries); None otherwise"""
    acc = [0] * w
    for s in range(w):
        if (c >> s) & 1:
            sh = ([0] * s + X)[:w]
            if any(p != 0 and q != 0 for p, q in zip(acc, sh)):
                return None
            acc = [_or(p, q) for p, q in zip(acc, sh)]
    return acc


def _cbits(b):
    return sum(x << i for i, x in enumerate(b)) if all(x in (0, 1) for x in b) else None


class SimdInterp(Interp):
    """Interp extended to x86_mmx / integer vector values (flat bit lists, lane 0 first) and the MMX/SSE2 intrinsics the 565
    helpers use.  `globals_` maps the name of a global to the integer the analysed program is known to keep there."""
    def __init__(self, f, arg_bits=None, globals_=None):
        self.f = f; self.env = {}; self.args = {}; self.unknown = []
        self.globals_ = globals_ or {}
        for k, (n, t) in enumerate(f.params):
            w = vwidth(t)[0]
            if w:
                self.args[k] = arg_bits[k] if arg_bits and k in arg_bits else [('in', k, j) for j in range(w)]

    def _ty_of(self, o):
        if o[0] in ('ce',):
            return None
        return Interp._ty_of(self, o)

    def val(self, o, w):
        k = o[0]
        if k == 'ce' and o[1] == 'bitcast':
            return self.val(o[2][0], w)
        if k == 'fc':
            return const_bits(int(o[2], 16), w)
        if k == 'z':
            return [0] * w
        if k == 'agg':
            n = len(o[1]); lw = w // n
            out = []
            for e in o[1]:
                out += self.val(e, lw)
            return out
        return Interp.val(self, o, w)

    def run(self):
        f = self.f
        order = []; seen = set()
        def dfs(b):
            seen.add(b)
            for s in f.blocks[b].succ:
                if s not in seen:
                    dfs(s)
            order.append(b)
        dfs(0)
        ret = None
        for b in reversed(order):
            for x in f.blocks[b].insts:
                self.step(x)
                if x.op == 'ret' and x.a:
                    w = vwidth(self._ty_of(x.a[0]))[0]
                    v = self.val(x.a[0], w or 32)
                    ret = v if ret is None else [p if p == q else TOP for p, q in zip(ret, v)]
        return ret

    def _shift(self, A, lw, k, kind):
        out = []
        for L in _lanes(A, lw):
            if k >= lw:
                out += [0] * lw if kind != 'a' else [L[-1]] * lw
            elif kind == 'l':
                out += ([0] * k + L)[:lw]
            elif kind == 'r':
                out += (L[k:] + [0] * k)[:lw]
            else:
                out += (L[k:] + [L[-1]] * k)[:lw]
        return out

    def _packus(self, A, B, src, dst):
        out = []
        for L in _lanes(A, src) + _lanes(B, src):
            # unsigned saturation of a signed lane: the low bits when everything above them is known to be zero
            out += L[:dst] if all(b == 0 for b in L[dst:]) else [TOP] * dst
        return out

    def _unpack(self, A, B, lw, high):
        la, lb = _lanes(A, lw), _lanes(B, lw)
        n = len(la) // 2
        idx = range(n, 2 * n) if high else range(n)
        out = []
        for i in idx:
            out += la[i] + lb[i]
        return out

    def step(self, x):
        w, lw = vwidth(x.ty)
        op = x.op
        vec = w is not None and (x.ty == 'x86_mmx' or x.ty.startswith('<'))
        if op == 'bitcast' and w:
            self.env[x.i] = self.val(x.a[0], w); return
        if op == 'load' and w and x.a[0][0] == 'g':
            g = self.globals_.get(x.a[0][1])
            self.env[x.i] = const_bits(g, w) if g is not None else [TOP] * w
            if g is None:
                self.unknown.append(x)
            return
        if vec and op in ('and', 'or', 'xor'):
            A = self.val(x.a[0], w); B = self.val(x.a[1], w)
            fn = {'and': _and, 'or': _or, 'xor': _xor}[op]
            self.env[x.i] = [fn(p, q) for p, q in zip(A, B)]; return
        if vec and op in ('shl', 'lshr', 'ashr'):
            A = self.val(x.a[0], w); K = _lanes(self.val(x.a[1], w), lw)
            ks = [_cbits(k) for k in K]
            if None in ks:
                self.env[x.i] = [TOP] * w; self.unknown.append(x); return
            out = []
            for L, k in zip(_lanes(A, lw), ks):
                out += self._shift(L, lw, k, {'shl': 'l', 'lshr': 'r', 'ashr': 'a'}[op])
            self.env[x.i] = out; return
        if vec and op == 'mul':
            A = self.val(x.a[0], w); B = self.val(x.a[1], w)
            out = []
            for p, q in zip(_lanes(A, lw), _lanes(B, lw)):
                c = _cbits(q); X = p
                if c is None:
                    c = _cbits(p); X = q
                r = _mulc(X, c, lw) if c is not None else None
                out += r if r is not None else [TOP] * lw
            self.env[x.i] = out; return
        if vec and op == 'shufflevector':
            sty = self._ty_of(x.a[0]); sw, slw = vwidth(sty)
            cat = _lanes(self.val(x.a[0], sw), slw) + _lanes(self.val(x.a[1], sw), slw)
            out = []
            for m in x.d.get('mask', []):
                out += cat[m] if 0 <= m < len(cat) else [TOP] * slw
            self.env[x.i] = out; return
        if op == 'insertelement' and vec:
            A = self.val(x.a[0], w); k = self.cval(x.a[2], 64)
            if k is None or k * lw >= w:
                self.env[x.i] = [TOP] * w; self.unknown.append(x)
            else:
                self.env[x.i] = A[:k * lw] + self.val(x.a[1], lw) + A[(k + 1) * lw:]
            return
        if op == 'extractelement':
            sty = self._ty_of(x.a[0]); sw, slw = vwidth(sty) if sty else (None, None)
            k = self.cval(x.a[1], 64)
            if sw is None and sty and sty.startswith('<1 x '):
                # <1 x double> and the like: the single element is the whole value
                sw = slw = 64; k = 0
            if sw is None or k is None:
                if w:
                    self.env[x.i] = [TOP] * w; self.unknown.append(x)
            else:
                self.env[x.i] = self.val(x.a[0], sw)[k * slw:(k + 1) * slw]
            return
        if op == 'bitcast' and x.ty in ('double', '<1 x double>', '<1 x i64>'):
            self.env[x.i] = self.val(x.a[0], 64); return
        if op == 'call' and x.callee is None and x.d.get('asm', '').split() [:1] == ['pshufw'] and len(x.a) == 2:
            A = self.val(x.a[0], 64); k = self.cval(x.a[1], 8)
            la = _lanes(A, 16)
            if k is None:
                self.env[x.i] = [TOP] * 64; self.unknown.append(x)
            else:
                self.env[x.i] = sum((la[(k >> (2 * i)) & 3] for i in range(4)), [])
            return
        if op == 'call' and isinstance(x.callee, str) and x.callee.startswith(('llvm.x86.mmx.', 'llvm.x86.sse2.')):
            nm = x.callee.split('.', 3)[3]
            full = 128 if x.callee.startswith('llvm.x86.sse2.') else 64
            nm = nm[:-4] if nm.endswith('.128') else nm
            A = self.val(x.a[0], full)
            m = _re.match(r'^ps(ll|rl|ra)i\.([wdq])$', nm)
            if m:
                k = self.cval(x.a[1], 32)
                l_ = {'w': 16, 'd': 32, 'q': 64}[m.group(2)]
                if k is None:
                    self.env[x.i] = [TOP] * full; self.unknown.append(x)
                else:
                    self.env[x.i] = self._shift(A, l_, k, {'ll': 'l', 'rl': 'r', 'ra': 'a'}[m.group(1)])
                return
            B = self.val(x.a[1], full) if len(x.a) > 1 else None
            if nm in ('por', 'pand', 'pxor'):
                fn = {'por': _or, 'pand': _and, 'pxor': _xor}[nm]
                self.env[x.i] = [fn(p, q) for p, q in zip(A, B)]; return
            if nm == 'pandn':
                self.env[x.i] = [_and(_neg(p), q) for p, q in zip(A, B)]; return
            if nm == 'pmull.w':
                out = []
                for p, q in zip(_lanes(A, 16), _lanes(B, 16)):
                    c = _cbits(q); X = p
                    if c is None:
                        c = _cbits(p); X = q
                    r = _mulc(X, c, 16) if c is not None else None
                    out += r if r is not None else [TOP] * 16
                self.env[x.i] = out; return
            if nm == 'pmadd.wd':
                la, lb = _lanes(A, 16), _lanes(B, 16)
                out = []
                for i in range(0, len(la), 2):
                    acc = [0] * 32
                    for p, q in ((la[i], lb[i]), (la[i + 1], lb[i + 1])):
                        c = _cbits(q); X = p
                        if c is None:
                            c = _cbits(p); X = q
                        if c is None or c >> 15 or acc is None:
                            acc = None; break
                        r = _mulc(X + [X[-1]] * 16, c, 32)
                        if r is None or any(u != 0 and v != 0 for u, v in zip(acc, r)):
                            acc = None; break
                        acc = [_or(u, v) for u, v in zip(acc, r)]
                    out += acc if acc is not None else [TOP] * 32
                self.env[x.i] = out; return
            if nm == 'packuswb':
                self.env[x.i] = self._packus(A, B, 16, 8); return
            m = _re.match(r'^punpck([lh])(bw|wd|dq)$', nm)
            if m:
                self.env[x.i] = self._unpack(A, B, {'bw': 8, 'wd': 16, 'dq': 32}[m.group(2)], m.group(1) == 'h'); return
            if nm.startswith('pcmpeq.') and x.a[0] == x.a[1]:
                self.env[x.i] = [1] * full; return
            if nm in ('pshuf.w', 'pshufl.w'):
                k = self.cval(x.a[1], 8)
                la = _lanes(A, 16)
                if k is None:
                    self.env[x.i] = [TOP] * full; self.unknown.append(x)
                else:
                    out = []
                    for i in range(4):
                        out += la[(k >> (2 * i)) & 3]
                    for L in la[4:]:
                        out += L
                    self.env[x.i] = out
                return
            if w:
                self.env[x.i] = [TOP] * w; self.unknown.append(x)
            return
        if vec and op not in ('ret', 'br', 'store'):
            self.env[x.i] = [TOP] * w; self.unknown.append(x); return
        return Interp.step(self, x)


def simd_provenance(f, arg_bits=None, globals_=None):
    it = SimdInterp(f, arg_bits, globals_)
    return it.run(), it
