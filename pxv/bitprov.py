"""E2 — bit-provenance abstract interpreter (DESIGN §3.3).

Domain: an integer SSA value of width w is a list of w abstract bits (LSB first); each bit is
0 | 1 | ('in', k, j) (bit j of argument k) | ('not', k, j) | TOP.  Forward dataflow over the -O2 IR of a shim wrapper; it never
enumerates values.  A TOP result bit leaves the obligation undischarged (reported, never silently accepted)."""
TOP = 'T'


def const_bits(v, w):
    v &= (1 << w) - 1
    return [(v >> i) & 1 for i in range(w)]


def _neg(b):
    if b == 0:
        return 1
    if b == 1:
        return 0
    if isinstance(b, tuple) and b[0] == 'in':
        return ('not',) + b[1:]
    if isinstance(b, tuple) and b[0] == 'not':
        return ('in',) + b[1:]
    return TOP


def _lit(b):
    return isinstance(b, tuple) and b[0] in ('in', 'not')


def _combine(kind, x, y):
    """depth-1 boolean combination of literals: ('or'|'and'|'xor', frozenset(literals))"""
    def terms(b):
        if _lit(b):
            return {b}
        if isinstance(b, tuple) and b[0] == kind:
            return set(b[1])
        return None
    tx, ty = terms(x), terms(y)
    if tx is None or ty is None:
        return TOP
    t = tx | ty
    if kind == 'xor':
        t = tx ^ ty
        if any(_neg(q) in t for q in t):
            return TOP
        if not t:
            return 0
    else:
        if any(_neg(q) in t for q in t):
            return 1 if kind == 'or' else 0
    if len(t) == 1:
        return next(iter(t))
    if len(t) > 6:
        return TOP
    return (kind, frozenset(t))


def _and(x, y):
    if x == 0 or y == 0:
        return 0
    if x == 1:
        return y
    if y == 1:
        return x
    if x == y:
        return x
    if x == TOP or y == TOP:
        return TOP
    return _combine('and', x, y)


def _or(x, y):
    if x == 1 or y == 1:
        return 1
    if x == 0:
        return y
    if y == 0:
        return x
    if x == y:
        return x
    if x == TOP or y == TOP:
        return TOP
    return _combine('or', x, y)


def _xor(x, y):
    if x == 0:
        return y
    if y == 0:
        return x
    if x == 1:
        return _neg(y)
    if y == 1:
        return _neg(x)
    if x == TOP or y == TOP:
        return TOP
    if x == y:
        return 0
    return _combine('xor', x, y)


def _width(ty):
    if ty.startswith('i') and ty[1:].isdigit():
        return int(ty[1:])
    if ty.startswith('{') and ty.endswith('}'):
        ws = [_width(t.strip()) for t in ty[1:-1].split(',')]
        if all(ws):
            return sum(ws)
    return None


def _elem_range(ty, idx):
    ws = [_width(t.strip()) for t in ty[1:-1].split(',')]
    lo = sum(ws[:idx])
    return lo, lo + ws[idx]


class Interp:
    def __init__(self, f, arg_bits=None):
        self.f = f
        self.env = {}
        self.args = {}
        for k, (n, t) in enumerate(f.params):
            w = _width(t)
            if w:
                self.args[k] = arg_bits[k] if arg_bits and k in arg_bits else [('in', k, j) for j in range(w)]
        self.unknown = []

    def val(self, o, w):
        k = o[0]
        if k == 'c':
            return const_bits(int(o[1]), w)
        if k == 'a':
            return self.args.get(o[1], [TOP] * w)
        if k == 'v':
            return self.env.get(o[1], [TOP] * w)
        if k == 'u':
            return [TOP] * w
        return [TOP] * w

    def cval(self, o, w):
        b = self.val(o, w)
        if all(x in (0, 1) for x in b):
            return sum(x << i for i, x in enumerate(b))
        return None

    def run(self):
        f = self.f
        # reverse post-order
        order = []; seen = set()
        def dfs(b):
            seen.add(b)
            for s in f.blocks[b].succ:
                if s not in seen:
                    dfs(s)
            order.append(b)
        dfs(0)
        ret = None
        for b in reversed(order):
            for x in f.blocks[b].insts:
                r = self.step(x)
                if x.op == 'ret' and x.a:
                    w = _width(self._ty_of(x.a[0]))
                    v = self.val(x.a[0], w or 32)
                    ret = v if ret is None else [p if p == q else TOP for p, q in zip(ret, v)]
        return ret

    def _ty_of(self, o):
        if o[0] == 'c':
            return 'i%d' % o[2]
        if o[0] == 'v':
            return self.f.by_id[o[1]].ty
        if o[0] == 'a':
            return self.f.params[o[1]][1]
        return 'i32'

    def step(self, x):
        w = _width(x.ty)
        op = x.op
        if op in ('and', 'or', 'xor'):
            A = self.val(x.a[0], w); B = self.val(x.a[1], w)
            fn = {'and': _and, 'or': _or, 'xor': _xor}[op]
            self.env[x.i] = [fn(p, q) for p, q in zip(A, B)]
        elif op in ('shl', 'lshr', 'ashr'):
            A = self.val(x.a[0], w); k = self.cval(x.a[1], w)
            if k is None or k >= w:
                self.env[x.i] = [TOP] * w
            elif op == 'shl':
                self.env[x.i] = ([0] * k + A)[:w]
            elif op == 'lshr':
                self.env[x.i] = (A[k:] + [0] * k)[:w]
            else:
                self.env[x.i] = (A[k:] + [A[-1]] * k)[:w]
        elif op in ('zext', 'sext', 'trunc'):
            sw = _width(x.d.get('st', '')) or _width(self._ty_of(x.a[0]))
            A = self.val(x.a[0], sw)
            if op == 'trunc':
                self.env[x.i] = A[:w]
            else:
                self.env[x.i] = A + ([0] if op == 'zext' else [A[-1]]) * (w - sw)
        elif op == 'select':
            c = self.val(x.a[0], 1)[0]
            X = self.val(x.a[1], w); Y = self.val(x.a[2], w)
            if c == 1:
                self.env[x.i] = X
            elif c == 0:
                self.env[x.i] = Y
            else:
                self.env[x.i] = [p if p == q else TOP for p, q in zip(X, Y)]
        elif op == 'phi':
            vs = [self.val(a, w) for a in x.a if not (a[0] == 'v' and a[1] not in self.env)]
            if vs and w:
                r = vs[0]
                for v in vs[1:]:
                    r = [p if p == q else TOP for p, q in zip(r, v)]
                self.env[x.i] = r
            elif w:
                self.env[x.i] = [TOP] * w
        elif op == 'icmp':
            sw = _width(self._ty_of(x.a[0])) or 32
            A = self.val(x.a[0], sw); B = self.val(x.a[1], sw)
            r = TOP
            if all(p in (0, 1) for p in A + B):
                a = sum(p << i for i, p in enumerate(A)); bb = sum(p << i for i, p in enumerate(B))
                r = {'eq': a == bb, 'ne': a != bb, 'ult': a < bb, 'ugt': a > bb, 'ule': a <= bb, 'uge': a >= bb}.get(x.pred, None)
                r = TOP if r is None else int(r)
            elif x.pred in ('eq', 'ne'):
                # single-bit test: (x & 1<<j) ==/!= 0
                nz = [p for p in A if p != 0]
                if all(q == 0 for q in B) and len(nz) == 1 and nz[0] != TOP:
                    r = nz[0] if x.pred == 'ne' else _neg(nz[0])
            self.env[x.i] = [r]
        elif op == 'call' and x.callee and x.callee.startswith('llvm.bswap'):
            A = self.val(x.a[0], w)
            self.env[x.i] = sum([A[w - 8 * (k + 1):w - 8 * k] for k in range(w // 8)], [])
        elif op == 'call' and x.callee and x.callee.startswith(('llvm.fshl', 'llvm.fshr')):
            A = self.val(x.a[0], w); B = self.val(x.a[1], w); k = self.cval(x.a[2], w)
            if k is None:
                self.env[x.i] = [TOP] * w
            else:
                k %= w
                cat = B + A          # low half B, high half A
                if x.callee.startswith('llvm.fshl'):
                    self.env[x.i] = cat[w - k:2 * w - k] if k else A
                else:
                    self.env[x.i] = cat[k:k + w]
        elif op in ('add', 'mul') and w:
            A = self.val(x.a[0], w); B = self.val(x.a[1], w)
            if op == 'add':
                # carry-free addition (disjoint possibly-non-zero positions) is an or
                if all(p == 0 or q == 0 for p, q in zip(A, B)):
                    self.env[x.i] = [_or(p, q) for p, q in zip(A, B)]
                else:
                    self.env[x.i] = [TOP] * w; self.unknown.append(x)
            else:
                c = self.cval(x.a[1], w); X = A
                if c is None:
                    c = self.cval(x.a[0], w); X = B
                if c is None:
                    self.env[x.i] = [TOP] * w; self.unknown.append(x)
                else:
                    acc = [0] * w; ok = True
                    for s in range(w):
                        if (c >> s) & 1:
                            sh = ([0] * s + X)[:w]
                            if any(p != 0 and q != 0 for p, q in zip(acc, sh)):
                                ok = False; break
                            acc = [_or(p, q) for p, q in zip(acc, sh)]
                    self.env[x.i] = acc if ok else [TOP] * w
                    if not ok:
                        self.unknown.append(x)
        elif op == 'insertvalue' and w and len(x.d.get('idx', [])) == 1:
            A = self.val(x.a[0], w)
            lo, hi = _elem_range(x.ty, x.d['idx'][0])
            V = self.val(x.a[1], hi - lo)
            self.env[x.i] = A[:lo] + V + A[hi:]
        elif op == 'extractvalue' and w and len(x.d.get('idx', [])) == 1:
            sty = self._ty_of(x.a[0]); sw = _width(sty)
            A = self.val(x.a[0], sw)
            lo, hi = _elem_range(sty, x.d['idx'][0])
            self.env[x.i] = A[lo:hi]
        elif op == 'freeze' and w:
            self.env[x.i] = self.val(x.a[0], w)
        elif w and op not in ('ret', 'br', 'store'):
            self.env[x.i] = [TOP] * w; self.unknown.append(x)
        return None


def provenance(f, arg_bits=None):
    it = Interp(f, arg_bits)
    r = it.run()
    return r, it


def show(bits):
    """compact rendering, MSB first"""
    out = []
    for b in reversed(bits):
        if b in (0, 1):
            out.append(str(b))
        elif b == TOP:
            out.append('?')
        elif b[0] in ('or', 'and', 'xor'):
            out.append(b[0] + '(' + ','.join(sorted(show([q]) for q in b[1])) + ')')
        elif b[0] == 'in':
            out.append('%s%d' % ('abcdefgh'[b[1]], b[2]))
        else:
            out.append('~%s%d' % ('abcdefgh'[b[1]], b[2]))
    return ' '.join(out)
