from .. import facts
from ..rules import geometry, region, image, tables, gradient, opacity, status, alloc


def run(ck):
    P = facts.load()
    ck.not_decided = ('not decided: that compute_image_info derives the right flags from the inputs (C09 decides the opacity part); histories as such.')
    image.r1_inputs_invalidate(ck, P)
    image.r2_derived_only_in_validate(ck, P)
    image.r3_early_returns(ck, P)
    tables.r4_cache_key(ck, P)
    image.r5_alpha_count(ck, P)
    alloc.r9_failure_is_atomic(ck, P, 'C14-R12')     # a refused setter leaves inputs and derived flags in agreement only if it stored nothing
    image.r13_boolean_index_arguments_are_truth_values(ck, P)
    image.r14_bits_setters_test_the_type(ck, P)
    image.r_validated_before_use(ck, P, 'C14-R7')
    geometry.r1_clip_sources(ck, P)            # C03-R1: a clip that was reset must not clip (have_clip_region is the current property, the rectangles are stale)
    region.r5_4_success_writes_result(ck, P)   # C05-R4: a clip setter that reports success has replaced the clip
    region.r5_5_copy_sets_count(ck, P)
    image.r_hook_refreshes_unconditionally(ck, P, 'C14-R8')
    image.r_validate_clears_dirty(ck, P, 'C14-R9')
    gradient.r4_sentinel_contents(ck, P)  # C13-R4: the hook re-derives the sentinel stops from the current repeat mode and stops
    opacity.r9_solid_substitution_excludes_kernels(ck, P, 'C14-R10')   # the derived format code depends on the current filter
    status.r_wide_only_properties_reach_the_flags(ck, P, 'C14-R11')   # the dither setting is a property the flags must follow
