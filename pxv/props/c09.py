from .. import facts
from ..rules import factors, status, image, algebra, opacity, codec, geometry, sampling, gradient


def run(ck):
    P = facts.load()
    ck.not_decided = ('not decided: that solid/1x1 presentations fetch the same value (a 1x1 repeating image under a convolution filter whose kernel does not sum to 1 is still classified as solid); transformed SIMD fetchers of alpha-less formats beyond the loops C09-R5 executes.')
    algebra.r9_operator_table(ck, P)
    opacity.r2_opacity_flags(ck, P)
    opacity.r3_mask_elision(ck, P)
    image.r_validated_before_use(ck, P, 'C09-R4')
    status.r19_6_op_reduction(ck, P)        # C19-R6: the OVER->SRC rewrite of fill_boxes is an opacity simplification too
    factors.r10f_simd_fetchers(ck, P, 'C09-R5')
    opacity.r6_outside_is_transparent(ck, P)
    factors.r10_composite_bodies(ck, P)      # C02-R10: fast paths registered for alpha-less sources must treat them as opaque in every lane
    codec.r15_alphaless_fetchers_force_alpha(ck, P, 'C09-R7')   # an alpha-less source reads as opaque for every pixel of the scanline
    codec.r12_simd_helpers(ck, P, 'C09-R8')                     # the widening helpers the fetchers delegate to
    opacity.r9_solid_substitution_excludes_kernels(ck, P)
    geometry.r14_hull_needs_constant_sign_of_w(ck, P, 'C09-R10')   # COVER_CLIP promotes an alpha-less source to opaque
    sampling.r20_cover_from_corners_needs_affine(ck, P)
    status.r_same_storage_needs_same_offsets(ck, P)   # the pixbuf paths take the alpha of an alpha-less source's undefined byte
    geometry.r10_region_gets_callers_images(ck, P, 'C09-R15')   # an opaque mask is dropped from the arithmetic, not from the region: its clip applies whichever way its opacity is presented
    gradient.r16_packed_channels_are_clamped(ck, P, 'C09-R14')   # a gradient flagged opaque must deliver opaque pixels
    codec.r17_converted_pixels_get_the_alpha_mask(ck, P, 'C09-R11')
