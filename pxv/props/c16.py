from .. import facts
from ..rules import traps, threads, image, prefetch


def run(ck):
    P = facts.load()
    ck.not_decided = ('not decided: schedules themselves, races on user data reached through accessor callbacks, glyph-cache updates during drawing (the cache is an explicitly mutable argument). A build without attribute((constructor)) is reported as a violation (lazy creation of the implementation table).')
    threads.r1_globals(ck, P)
    threads.r2_validate_readonly(ck, P)
    threads.r3_drawing_no_mutation(ck, P)
    threads.r4_sources_untouched(ck, P)
    traps.r7_edge_clamps(ck, P)              # C04-R7: a read-modify-write of the byte after a row races with the thread that owns the adjacent image
    image.r_validate_clears_dirty(ck, P, 'C16-R5')
    prefetch.r11_tail_access_needs_remaining_count(ck, P, 'C16-R6')   # a read-modify-write of the word after the span races with the thread that owns it
    threads.r7_source_iterators_do_not_write_their_image(ck, P)
    threads.r8_first_use_validates(ck, P)
