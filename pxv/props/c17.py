from .. import facts
from ..rules import glyph, image, codec


def run(ck):
    P = facts.load()
    ck.not_decided = ('not decided: map semantics under arbitrary histories (a second insert under a live key yields two entries), LRU order, equality of glyph drawing with per-glyph compositing.')
    glyph.r1_capacity(ck, P)
    glyph.r2_counters_pair(ck, P)
    glyph.r3_index_bounds(ck, P)
    glyph.r4_insert_protocol(ck, P)
    image.r15_6_free_while_linked(ck, P)
    glyph.r5_component_alpha_siblings(ck, P)
    glyph.r6_arguments_kept_whole(ck, P)
    glyph.r7_neighbour_in_probe_direction(ck, P)
    glyph.r8_thaw_thresholds(ck, P)
    glyph.r9_copy_in_source_format_keeps_palette(ck, P)
    glyph.r10_tail_taken_only_from_nonempty_list(ck, P)
    codec.r12_simd_helpers(ck, P, 'C17-R11')    # the single-pixel packers of the glyph fast paths: a glyph is drawn the same at every x only if head, body and tail pack alike
