from .. import facts
from ..rules import filt, matrix


def run(ck):
    P = facts.load()
    ck.not_decided = ('not decided: that the coefficients of a phase sum to exactly 65536 (only the residual mechanism\'s presence is checked), the kernel integrals, overflow of n_values for absurd scales.')
    filt.r1_layout(ck, P)
    filt.r2_write_accounting(ck, P)
    filt.r4_kernel_table(ck, P)
    filt.r_axis_consistency(ck, P, 'C18-R5')
    filt.r6_acceptance_domain(ck, P)
    filt.r8_coefficient_product_width(ck, P, 'C18-R8')
    filt.r9_degenerate_phases(ck, P)
    filt.r10_touching_supports(ck, P)
    filt.r11_final_correction(ck, P)
    filt.r12_param_block_validated(ck, P)
    filt.r14_header_fields_bounded(ck, P)
    matrix.r20_matrix_unit_keeps_no_state(ck, P, 'C18-R14', unit='pixman-filter.c', floor=5)
