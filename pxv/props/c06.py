from .. import facts
from ..rules import region


def run(ck):
    P = facts.load()
    ck.not_decided = ('not decided: that the produced list is y-x banded and minimal; that equal is therefore set equality (follows only if the algebra is right).')
    region.r6_1_equal(ck, P)
    region.r6_1b_equal_empty(ck, P)
    region.r6_2_extents_after_op(ck, P)
    region.r6_2b_extents_after_drop(ck, P)
    region.r6_3_coalesce(ck, P)
    region.r6_4_normalisation(ck, P)
    region.r6_5_touching_merges(ck, P)
    region.r7_4_compaction_cursors(ck, P)    # C07-R4: a clamp written through the input cursor leaves a malformed rectangle in the result
    region.r_equality_sides(ck, P, 'C06-R6')
