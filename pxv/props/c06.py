from .. import facts
from ..rules import region


def run(ck):
    P = facts.load()
    ck.not_decided = ('not decided: that the produced list is y-x banded and minimal; that equal is therefore set equality (follows only if the algebra is right).')
    region.r6_1_equal(ck, P)
    region.r6_1b_equal_empty(ck, P)
    region.r6_2_extents_after_op(ck, P)
    region.r6_2b_extents_after_drop(ck, P)
    region.r6_3_coalesce(ck, P)
    region.r6_4_normalisation(ck, P)
    region.r6_5_touching_merges(ck, P)
    region.r7_4_compaction_cursors(ck, P)    # C07-R4: a clamp written through the input cursor leaves a malformed rectangle in the result
    region.r_equality_sides(ck, P, 'C06-R6')
    region.r7_5_independent_clamps(ck, P)        # C07-R5: a clamp that depends on the other axis leaves a malformed (x1 > x2 / y1 > y2) box
    region.r7_8_range_test_siblings(ck, P)       # C07-R8
    region.r6_7_normalise_after_last_change(ck, P)
    region.r6_8_extents_before_data_is_dropped(ck, P)
    region.r1_aliasing(ck, P)                    # C05-R1: an operand overwritten while it is read leaves a malformed region
    region.r7_13_or_trick_exactness(ck, P, 'C06-R9')
    region.r5_11_constructed_rectangle_validated(ck, P, 'C06-R10')   # a rectangle without points stored as a region is not canonical
    region.r7_14_running_extremes_independent(ck, P, 'C06-R11')      # extents enclose the rectangles
    region.r6_12_clamped_boxes_revalidated(ck, P)
    region.r7_1_overflow_width(ck, P, 'C06-R13')                    # a wrapped coordinate yields malformed (x1 > x2) or misordered rectangles
    region.r6_14_no_coalesce_after_bulk_append(ck, P)
    region.r7_11_limits_are_type_limits(ck, P, 'C06-R16')           # a clamp to a value outside the coordinate type stores a wrapped coordinate: x1 > x2
    region.r6_17_extents_recomputed_after_subtraction(ck, P)
    region.r5_8_cached_field_follows_cursor(ck, P, 'C06-R15')       # a stale fence emits overlapping, unordered rectangles
