from .. import facts
from ..rules import factors, codec, image, status, tables


def run(ck):
    P = facts.load()
    ck.not_decided = ('not decided: float widening/narrowing, sRGB tables, YUV, indexed formats\' palettes, wide 10-bit formats.')
    n = codec.r1_codec(ck, P, ck.tier)
    if ck.tier == 'thorough':
        n += codec.r1_codec(ck, P, ck.tier, be=True)
    codec.r3_table_complete(ck, P)
    codec.r4_row_functions_agree(ck, P)
    codec.r5_accessor_purity(ck, P)
    codec.r6_constant_tables(ck, P)
    codec.r7_unorm(ck, P)
    codec.r9_color_to_pixel(ck, P)      # the direct-fill pixel is the same narrowing (shared with C19)
    ck.level = 'proof'
    n = sum(ck.rules[r]['n'] for r in ck.order if r.startswith(('C10-R1', 'C10-R2', 'C10-R7')))
    bad = sum(len(ck.rules[r]['viol']) + len(ck.rules[r]['incomplete']) for r in ck.order if r.startswith(('C10-R1', 'C10-R2', 'C10-R7')))
    ck.obligations = (n, n - bad, './check C10 (pxv.bitprov over clang -O2 IR of generated wrappers)',
                      ['clang 14 -O2 folding of the wrappers preserves semantics', 'pxv/bitprov.py transfer functions', 'format layout oracle transcribed from pixman.h PIXMAN_FORMAT documentation (DESIGN Appendix B.2)'])
    factors.r10f_simd_fetchers(ck, P, 'C10-R8')
    codec.r9_float_widening_format(ck, P)
    codec.r10_accessor_presence(ck, P)
    codec.r11_yuy2_siblings(ck, P)
    codec.r18_yuv_clamps_are_signed(ck, P)
    codec.r19_sizeless_formats_expand_as_argb(ck, P)
    tables.r1b_iter_entries(ck, P)        # C02-R1i: an iterator that reads bits directly is registered only for images without accessors
    codec.r12_simd_helpers(ck, P)
    image.r_hook_refreshes_unconditionally(ck, P, 'C10-R13')
    status.r19_13_shortcut_needs_plain_destination(ck, P, 'C10-R14')   # accessor equivalence: a raw shortcut bypasses read_func / write_func
    codec.r15_alphaless_fetchers_force_alpha(ck, P, 'C10-R15')
    codec.r16_scanline_readers_are_memoryless(ck, P)
    codec.r17_converted_pixels_get_the_alpha_mask(ck, P)
