from .. import facts
from ..rules import traps, algebra, status, deadcmp, region


def run(ck):
    P = facts.load()
    ck.not_decided = ('not decided: the values pixman_sample_ceil_y/floor_y return (only the reachability of their saturation tests, C12-R11), 32-bit differences in pixman_edge_init for lines longer than 32768 rows, additivity of abutting shapes, the triangle decomposition.')
    traps.r1_sample_grid(ck, P)
    traps.r7_edge_clamps(ck, P)
    traps.r5_trap_shortcut(ck, P)
    algebra.r12_zero_src(ck, P)
    traps.r6_trap_extents(ck, P)
    traps.r7_error_term_width(ck, P)
    traps.r8_fill_count_restart(ck, P)
    traps.r9_edge_step_conservation(ck, P)
    traps.r10_row_weight_constant(ck, P)
    status.r19_13_shortcut_needs_plain_destination(ck, P, 'C12-R12')   # both routes of pixman_composite_trapezoids give the same picture
    deadcmp.r_equality_with_unreachable_value(ck, P, 'C12-R11', floor=300)
    region.r5_13_box_difference_keeps_its_width(ck, P, 'C12-R13')   # the mask route of pixman_composite_trapezoids keeps the extents' 32 bits
    traps.r14_bottom_clamp_siblings(ck, P)
    traps.r15_edge_offset_in_wide_type(ck, P)
    traps.r16_full_destination_box_in_trap_space(ck, P)
    traps.r17_extents_follow_the_lines(ck, P)
    traps.r18_error_term_interval_is_closed(ck, P)
    traps.r19_zero_source_operators_never_refused(ck, P)
    traps.r20_edge_products_in_wide_type(ck, P)
    traps.r22_flush_covers_the_saved_span(ck, P)
