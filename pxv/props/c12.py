from .. import facts
from ..rules import traps, algebra


def run(ck):
    P = facts.load()
    ck.not_decided = ('not decided: pixman_sample_ceil_y/floor_y, edge stepping, additivity of abutting shapes, the triangle decomposition.')
    traps.r1_sample_grid(ck, P)
    traps.r7_edge_clamps(ck, P)
    traps.r5_trap_shortcut(ck, P)
    algebra.r12_zero_src(ck, P)
    traps.r6_trap_extents(ck, P)
    traps.r7_error_term_width(ck, P)
    traps.r8_fill_count_restart(ck, P)
    traps.r9_edge_step_conservation(ck, P)
    traps.r10_row_weight_constant(ck, P)
