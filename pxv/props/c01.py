from .. import facts
from ..rules import tables, opacity, algebra, factors, floatmask, codec, sampling, status


def run(ck):
    P = facts.load()
    ck.not_decided = ('not decided: the rounding inside MUL_UN8/DIV_UN8 and the helper vocabulary (over, in_over, pix_multiply ...), the PDF blend-mode formulas themselves (uninterpreted in C01-R5), fetch/store around the combiner, float-to-unorm quantisation, scaled/rotated fast paths and the fast-path bodies listed in the notes as outside the vocabulary.')
    algebra.r1_slots(ck, P)
    algebra.r2_float_factors(ck, P)
    algebra.r3_table_lengths(ck, P)
    decided = factors.r4_c_combiners(ck, P)
    factors.r9_simd_combiners(ck, P)
    factors.r10_composite_bodies(ck, P)
    factors.r10s_scaled_scanlines(ck, P)
    floatmask.r5_float_mask(ck, P)
    floatmask.r6_c_mask(ck, P, decided or ())
    floatmask.r7_set_sat(ck, P)
    opacity.r2_opacity_flags(ck, P)          # C09-R2: a wrongly opaque source has its operator rewritten and the equations no longer hold
    tables.r15_pixbuf_substitution(ck, P)
    codec.r12_simd_helpers(ck, P, 'C01-R8')
    sampling.r15_mask_stride_follows_pipeline(ck, P, 'C01-R9')
    floatmask.r11_blend_degrees(ck, P)
    sampling.r16_skip_only_on_zero_mask_word(ck, P)
    floatmask.r11b_blend_degrees_8bit(ck, P)
    status.r_same_storage_needs_same_stride(ck, P, 'C01-R13')   # the pixbuf fast paths replace the general source-in-mask pipeline
    status.r_same_storage_needs_same_offsets(ck, P, 'C01-R16')
    sampling.r17_cursor_step_follows_pipeline(ck, P, 'C01-R14')
    algebra.r9_operator_table(ck, P, 'C01-R15')      # the operator actually combined is the one operator_table substitutes
    tables.r1b_iter_entries(ck, P)            # C02-R1i: iterators that bypass the general fetchers pin what those would have honoured (alpha map)
