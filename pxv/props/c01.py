from .. import facts
from ..rules import algebra, factors, floatmask


def run(ck):
    P = facts.load()
    ck.not_decided = ('not decided: the rounding of MUL_UN8/DIV_UN8 and saturating adds, the PDF blend-mode formulas, SIMD combiners, fetch/store around the combiner, float-to-unorm quantisation.')
    algebra.r1_slots(ck, P)
    algebra.r2_float_factors(ck, P)
    algebra.r3_table_lengths(ck, P)
    decided = factors.r4_c_combiners(ck, P)
    factors.r9_simd_combiners(ck, P)
    factors.r10_composite_bodies(ck, P)
    floatmask.r5_float_mask(ck, P)
    floatmask.r6_c_mask(ck, P, decided or ())
    floatmask.r7_set_sat(ck, P)
