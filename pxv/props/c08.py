from .. import facts
from ..rules import opacity, filt, sampling, codec, alloc, geometry, tables


def run(ck):
    P = facts.load()
    ck.not_decided = ('not decided: the fetched value, affine stepping versus per-pixel division, convolution alignment beyond axis consistency, SIMD scalers.')
    sampling.r4_repeat_typestate(ck, P)
    codec.r10_bilinear_weight(ck, P)
    sampling.r3_iter_instantiation(ck, P)
    sampling.r4_enum_exhaustive(ck, P)
    filt.r_axis_consistency(ck, P, 'C08-R5')
    geometry.r_wide_division_numerator(ck, P, 'C08-R21')
    tables.r16_repeat_of_row_matches_padding_source(ck, P)
    filt.r15_window_from_the_rounded_position(ck, P)
    alloc.r9_failure_is_atomic(ck, P, 'C08-R20')     # a refused set_filter must not leave the new filter kind behind: the image would be sampled with a filter it was never given
    sampling.r6_coordinate_siblings(ck, P)
    filt.r7_signed_totals(ck, P, 'C08-R7')
    filt.r8_coefficient_product_width(ck, P, 'C08-R8')
    opacity.r6_outside_is_transparent(ck, P)    # C09-R6: REPEAT_NONE maps outside coordinates to transparent
    sampling.r7_neighbour_before_repeat(ck, P)
    sampling.r8_rotation_tiles(ck, P)
    sampling.r9_signed_projective_division(ck, P)
    sampling.r10_transform_flags(ck, P)
    sampling.r11_rounding_epsilon(ck, P)
    sampling.r13_weight_vector_tracks_position(ck, P)
    sampling.r14_float_bilinear_weights(ck, P)
    sampling.r15_mask_stride_follows_pipeline(ck, P)
    sampling.r17_cursor_step_follows_pipeline(ck, P, 'C08-R16')
    sampling.r12_wrap_is_a_loop(ck, P, 'C08-R17')
    sampling.r18_rotation_tiles(ck, P)
    filt.r13_phase_follows_the_pixel(ck, P)
