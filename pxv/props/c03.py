from .. import facts
from ..rules import image, geometry, codec, status, prefetch, deadcmp, traps, region


def run(ck):
    P = facts.load()
    ck.not_decided = ('not decided: that each composite routine writes only inside (dest_x, dest_y, width, height) beyond the byte-budget discipline of the fill/blt primitives; that pixman_region32_intersect computes the intersection (C05).')
    geometry.r1_clip_sources(ck, P)
    geometry.r2_raw_writers_bounded(ck, P)
    geometry.r3_one_call_per_box(ck, P)
    geometry.r6_clip_offsets(ck, P)
    status.r_byte_budget(ck, P, 'C03-R7')
    image.r3_early_returns(ck, P)           # C14-R3: a setter that skips an update of the alpha-map origin leaves the composite region stale
    codec.r1_codec(ck, P, ck.tier)          # C03-R4 = C10-R2: partial-byte stores preserve their neighbours
    if ck.tier == 'thorough':
        codec.r1_codec(ck, P, ck.tier, be=True)
    prefetch.r11_tail_access_needs_remaining_count(ck, P, 'C03-R8')
    geometry.r9_clip_consulted_under_its_flag(ck, P)
    geometry.r10_region_gets_callers_images(ck, P)
    status.r19_13_shortcut_needs_plain_destination(ck, P, 'C03-R13')   # a shortcut that ignores the alpha map ignores its bounds
    geometry.r12_dest_alpha_clip_offset(ck, P)
    deadcmp.r_equality_with_unreachable_value(ck, P, 'C03-R14', floor=300)   # the missed saturation walks rows outside the image
    traps.r5_trap_shortcut(ck, P)             # C03-R5: the direct trapezoid route is taken only where clips and masks cannot matter
    status.r19_14_direct_fill_passes_the_image_bounds(ck, P, 'C03-R15')
    geometry.r_coordinate_split_floors(ck, P)
    traps.r21_raw_rasterisers_consult_the_clip(ck, P)
    status.r_rectangles_taken_after_the_last_intersection(ck, P)
    region.r5_15_extents_never_assigned_without_data(ck, P, 'C03-R19')   # pixman_compute_composite_region reports through such a conversion
    status.r_fill_rows_are_separate(ck, P)
