from .. import facts
from ..rules import gradient, opacity, sampling


def run(ck):
    P = facts.load()
    ck.not_decided = ('not decided: colours, root selection of the radial equation, repeat folding of t, angle computation, termination of degenerate cases beyond array bounds.')
    gradient.r1_sentinel_protocol(ck, P)
    gradient.r3_transform_status(ck, P)
    gradient.r4_sentinel_contents(ck, P)
    gradient.r6_transform_column(ck, P)
    gradient.r7_projective_split(ck, P)
    gradient.r8_position_advances(ck, P)
    gradient.r9_radial_roots(ck, P)
    gradient.r10_widen_before_arithmetic(ck, P)
    gradient.r11_walker_segment_test_siblings(ck, P)
    gradient.r12_step_matches_component(ck, P)
    opacity.r2_opacity_flags(ck, P)       # C09-R2: a radial gradient is opaque only when every pixel has an admissible t (a < 0)
    gradient.r13_homogeneous_degrees(ck, P)
    gradient.r15_reflected_angle_stays_half_open(ck, P)
    gradient.r16_packed_channels_are_clamped(ck, P)
    gradient.r17_walker_position_kept_wide(ck, P)
    gradient.r18_reflection_mirrors_the_old_bounds(ck, P)
    gradient.r19_stop_search_starts_at_the_first_stop(ck, P)
    gradient.r20_horizontal_verdict_depends_on_the_y_column(ck, P)
    sampling.r16_skip_only_on_zero_mask_word(ck, P, 'C13-R14')
