from .. import facts
from ..rules import sampling, tables, geometry, traps, prefetch, alloc, filt, region, codec, status


def run(ck):
    P = facts.load()
    ck.not_decided = ('not decided: that SIMD/C loops stay within [x, x+width) of each row (vector tails, bilinear one-past reads), that analyze_extent\'s arithmetic is tight, pad_repeat_get_scanline_bounds.')
    sampling.r1_cover_flags(ck, P)
    sampling.r4_repeat_typestate(ck, P)
    tables.r1_fast_path_entries(ck, P)
    tables.r1b_iter_entries(ck, P)
    geometry.r2_raw_writers_bounded(ck, P)
    traps.r7_edge_clamps(ck, P)
    sampling.r11_rounding_epsilon(ck, P)
    sampling.r12_wrap_is_a_loop(ck, P)
    prefetch.r10_no_unconsumed_fetch(ck, P)
    prefetch.r11_tail_access_needs_remaining_count(ck, P)
    alloc.r9_failure_is_atomic(ck, P)      # C15-R9: a failed setter must not leave the filter kind ahead of its parameter block (the block is then read with the wrong layout)
    filt.r1_layout(ck, P)                # C18-R1: the generator writes each table within the part of the block that was sized for it
    filt.r12_param_block_validated(ck, P, 'C04-R12')   # the fetchers read the kernel out of the library's own copy of the block
    filt.r14_header_fields_bounded(ck, P, 'C04-R17')
    geometry.r13_empty_image_never_repeated(ck, P)
    geometry.r14_hull_needs_constant_sign_of_w(ck, P)
    geometry.r15_empty_image_not_addressed_directly(ck, P)
    geometry.r16_translation_offset_in_wide_type(ck, P)
    geometry.r_coordinate_split_floors(ck, P, 'C04-R18')     # the dither tables are indexed with a reduced coordinate
    geometry.r_dispatch_needs_extent_analysis(ck, P)
    region.r7_20_partial_word_read_needs_partial_word(ck, P)     # the bitmap import reads the caller's a1 image
    region.r7_19_bitmap_read_only_with_pixels(ck, P, 'C04-R21')
    codec.r20_pixel_reader_stride_matches_row_format(ck, P)
    status.r19_14_direct_fill_passes_the_image_bounds(ck, P, 'C04-R23')   # the direct fill writes wherever its rectangles say: they are bounded by the image on every path
