from .. import facts
from ..rules import image, alloc, glyph


def run(ck):
    P = facts.load()
    ck.not_decided = ('not decided: histories as such (sequences of ref/unref), user misuse (unref more often than ref), glyph-cache image ownership beyond C17.')
    image.r20_1_fini(ck, P)
    image.r20_2_overwrite_releases(ck, P)
    image.r20_3_refcount_writers(ck, P)
    image.r20_4_alpha_map_exchange(ck, P)
    image.r5_alpha_count(ck, P)
    image.r20_4b_exchange_order(ck, P)
    image.r20_6_region_reinit(ck, P)
    image.r15_6_free_while_linked(ck, P)
    image.r_no_dangling_after_free(ck, P, 'C20-R7')
    alloc.r3_local_ownership(ck, P)       # C15-R3: what a function allocates for itself is released on every path (a leak is a lifetime violation too)
    glyph.r2_counters_pair(ck, P)         # C17-R2: the table-clearing sweep visits every slot (a glyph left in an unvisited slot is never released)
    image.r_embedded_region_finalised(ck, P)
    alloc.r12_region_storage_released_before_overwrite(ck, P)
    image.r20_11_half_built_image_is_freed_raw(ck, P)
    image.r20_12_fini_releases_the_alpha_map_on_every_path(ck, P)
