from .. import facts
from ..rules import region


def run(ck):
    P = facts.load()
    ck.not_decided = ('not decided: that the band sweep and the overlap callbacks produce the right rectangles; the trivial-case predicates\' comparison operators; validate\'s merge. The set algebra proper is value-level.')
    region.r1_aliasing(ck, P)
    region.r2_failure_protocol(ck, P)
    region.r3_conversions(ck, P)
    region.r15_4_sentinels(ck, P)
    region.r5_4_success_writes_result(ck, P)
    region.r5_5_copy_sets_count(ck, P)
    region.r5_6_subsumption_single_rect(ck, P)
    region.r5_7_sort_key_fields(ck, P)
    region.r_instantiation_signedness(ck, P, 'C05-R9')
    region.r5_8_cached_field_follows_cursor(ck, P)
    region.r6_7_normalise_after_last_change(ck, P, 'C05-R10')
    region.r5_11_constructed_rectangle_validated(ck, P)
    region.r5_12_degenerate_rectangle_follows_the_operator(ck, P)
    region.r5_13_box_difference_keeps_its_width(ck, P)
    region.r5_14_extents_cover_only_for_single_rectangles(ck, P)
    region.r5_15_extents_never_assigned_without_data(ck, P)
