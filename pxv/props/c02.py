from .. import facts
from ..rules import sampling, filt, tables, status, factors, codec, geometry, opacity


def run(ck):
    P = facts.load()
    ck.not_decided = ('not decided: rounding, packing and lane arithmetic inside the helper vocabulary (over, in_over, pix_multiply, expand/pack), loop trip counts and pointer stepping of the fast-path bodies; bodies outside the vocabulary are listed in the notes as not analysed.')
    tables.r1_fast_path_entries(ck, P)
    tables.r1b_iter_entries(ck, P)
    tables.r2_catch_alls(ck, P)
    tables.r3_layouts(ck, P)
    tables.r4_cache_key(ck, P)
    status.r5_blt_fill(ck, P)
    factors.r4_c_combiners(ck, P)
    factors.r9_simd_combiners(ck, P)
    factors.r10_composite_bodies(ck, P)
    factors.r10s_scaled_scanlines(ck, P)
    status.r_fill_word(ck, P, 'C02-R11')
    filt.r7_signed_totals(ck, P, 'C02-R12')
    filt.r_axis_consistency(ck, P, 'C02-R13')
    codec.r8_scalar_helpers(ck, P)
    factors.r10f_simd_fetchers(ck, P, 'C02-R14')
    sampling.r11_rounding_epsilon(ck, P)     # C08-R11: the C fast-path fetcher and the general fetcher start their kernels at the same pixel
    tables.r15_pixbuf_substitution(ck, P)
    codec.r12_simd_helpers(ck, P, 'C02-R16')
    sampling.r13_weight_vector_tracks_position(ck, P, 'C02-R17')
    sampling.r12_wrap_is_a_loop(ck, P, 'C02-R18')     # the MMX, SSE2 and C nearest scanlines wrap the coordinate the same way (a loop)
    filt.r8_coefficient_product_width(ck, P, 'C02-R19')   # both separable-convolution readers form the coefficient product in 64 bits
    sampling.r10_transform_flags(ck, P, 'C02-R20')     # the rotate/scale fast paths trust the classification flags; the general path does not
    factors.r21_mmx_lane_consistency(ck, P)
    status.r_same_storage_needs_same_stride(ck, P, 'C02-R22')
    status.r_same_storage_needs_same_offsets(ck, P, 'C02-R29')
    codec.r15_alphaless_fetchers_force_alpha(ck, P, 'C02-R23')  # the implementations' scanline readers agree on the alpha of alpha-less formats
    status.r_wide_only_properties_reach_the_flags(ck, P)
    sampling.r18_rotation_tiles(ck, P, 'C02-R25')        # the tiled C rotation fast paths against the general path
    filt.r13_phase_follows_the_pixel(ck, P, 'C02-R26')           # the C fast fetcher against the general one
    factors.r27_opacity_test_on_unpacked_pixel(ck, P)
    geometry.r_wide_division_numerator(ck, P)        # the scaled fast paths' padding bounds against the general path
    opacity.r6_outside_is_transparent(ck, P, 'C02-R30')      # the C fast fetchers against the general ones: a tap outside a NONE image is transparent in both
    status.r_dst_operator_never_dispatched(ck, P)
