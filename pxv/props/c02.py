from .. import facts
from ..rules import tables, status, factors, codec


def run(ck):
    P = facts.load()
    ck.not_decided = ('not decided: that the body of a SIMD or C fast path computes the same pixel values as the general path (rounding, intrinsics, packing).')
    tables.r1_fast_path_entries(ck, P)
    tables.r1b_iter_entries(ck, P)
    tables.r2_catch_alls(ck, P)
    tables.r3_layouts(ck, P)
    tables.r4_cache_key(ck, P)
    status.r5_blt_fill(ck, P)
    factors.r9_simd_combiners(ck, P)
    codec.r8_scalar_helpers(ck, P)
