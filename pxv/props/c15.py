from .. import facts
from ..rules import alloc, region, image


def run(ck):
    P = facts.load()
    ck.not_decided = ('not decided: behaviour of a failing realloc beyond the checked pointer; the load-time constructor chain (outside the API); thread-local allocation in the pthread-key TLS variant (not this build).')
    alloc.r1_null_deref(ck, P)
    alloc.r2_status_used(ck, P)
    alloc.r3_local_ownership(ck, P)
    alloc.r7_result_tested(ck, P)
    region.r15_4_sentinels(ck, P)
    region.r2_failure_protocol(ck, P)
    image.r15_6_free_while_linked(ck, P)
    image.r20_6_region_reinit(ck, P)
    image.r_no_dangling_after_free(ck, P, 'C15-R8')
    alloc.r9_failure_is_atomic(ck, P)
    alloc.r10_cleanup_count_is_fresh(ck, P)
    alloc.r11_broken_operand_not_dropped(ck, P)
    alloc.r12_region_storage_released_before_overwrite(ck, P, 'C15-R12')
    alloc.r13_allocation_size_in_wide_type(ck, P)
    alloc.r14_parked_storage_released_on_every_exit(ck, P)
    alloc.r15_cleanup_loop_starts_at_the_first_element(ck, P)
