from .. import facts
from ..rules import region, deadcmp, alloc


def run(ck):
    P = facts.load()
    ck.not_decided = ('not decided: membership answers, PART/IN/OUT classification, the run extraction of init_from_image, find_box_for_y.')
    region.r7_1_overflow_width(ck, P)
    region.r6_4_normalisation(ck, P)
    region.r7_3_queries(ck, P)
    region.r7_4_compaction_cursors(ck, P)
    region.r7_5_independent_clamps(ck, P)
    region.r7_6_previous_band_updates(ck, P)
    region.r_equality_sides(ck, P, 'C07-R7')
    region.r7_8_range_test_siblings(ck, P)
    region.r7_9_word_skip_depends_on_run_state(ck, P)
    region.r7_10_axis_symmetry(ck, P)
    region.r6_8_extents_before_data_is_dropped(ck, P, 'C07-R12')
    region.r7_11_limits_are_type_limits(ck, P)
    region.r7_13_or_trick_exactness(ck, P)
    region.r7_14_running_extremes_independent(ck, P)
    deadcmp.r_range_test_after_narrowing(ck, P, 'C07-R15', floor=40)
    region.r6_12_clamped_boxes_revalidated(ck, P, 'C07-R16')
    region.r7_17_translation_amount_unchanged(ck, P)
    alloc.r7_result_tested(ck, P, 'C07-R18', only_units={'pixman-region16.c', 'pixman-region32.c'}, floor=8)   # a failure swallowed in the bitmap import starts a fresh rectangle list: a non-empty region holding only the later scanlines
    region.r7_19_bitmap_read_only_with_pixels(ck, P)
    region.r7_20_partial_word_read_needs_partial_word(ck, P, 'C07-R20')
    region.r7_21_box_coordinates_computed_per_box(ck, P)
    region.r7_22_bitmap_read_word_by_word(ck, P)
