from .. import facts
from ..rules import matrix, wide128


def run(ck):
    P = facts.load()
    ck.not_decided = ('not decided: correct rounding of the 128-by-48 division beyond the negation identity of C11-R9, truncation instead of rounding in fixed_inverse, per-partial rounding of transform_multiply, the +-1 bound for |w| >= 65536, invert accuracy, NaN inputs of the float conversions.')
    matrix.r1_no_abort(ck, P)
    matrix.r2_overflow_reported(ck, P)
    matrix.r3_status_used(ck, P)
    matrix.r4_wide_products(ck, P)
    matrix.r5_rounding_siblings(ck, P)
    matrix.r6_float_to_fixed_guarded(ck, P)
    matrix.r7_whole_w_tested(ck, P)
    matrix.r8_forward_reverse_order(ck, P)
    wide128.r9_negate_128(ck, P)
    matrix.r10_affine_helper_precondition(ck, P)
    matrix.r11_product_indices(ck, P)
    matrix.r12_inverse_guarded(ck, P)
    matrix.r13_narrowed_results_range_tested(ck, P)
    matrix.r14_negation_excludes_minimum(ck, P)
    matrix.r15_ceil_guarded(ck, P)
    matrix.r16_elementary_updates_are_products(ck, P)
    matrix.r17_zero_divisor_always_reported(ck, P)
    matrix.r18_division_digit_shortcuts_are_strict(ck, P)
    matrix.r19_division_guarded_by_its_zero_test(ck, P)
    matrix.r20_matrix_unit_keeps_no_state(ck, P)
    matrix.r21_product_elements_are_sums_of_products(ck, P)
