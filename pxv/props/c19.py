from .. import facts
from ..rules import codec, status, geometry, prefetch


def run(ck):
    P = facts.load()
    ck.not_decided = ('not decided: alignment arithmetic of the head steps, the inline-assembly 64-byte block of mmx_fill (its guard and budget are checked, its stores are not visible), the portable pixel-indexed fills beyond C03-R2, pixman_blt overlap behaviour.')
    status.r5_blt_fill(ck, P)
    accepted = codec.r9_color_to_pixel(ck, P)
    status.r19_4_depths(ck, P, accepted)
    status.r19_6_op_reduction(ck, P)
    status.r_byte_budget(ck, P, 'C19-R7', tail=True)
    status.r_fill_word(ck, P, 'C19-R8')
    status.r19_9_delegated_rectangle(ck, P)
    status.r19_12_stride_pairs_with_its_buffer(ck, P)
    geometry.r2_raw_writers_bounded(ck, P, rows=False)
    prefetch.r11_tail_access_needs_remaining_count(ck, P, 'C19-R10')
    geometry.r9_clip_consulted_under_its_flag(ck, P, 'C19-R11')
    status.r19_13_shortcut_needs_plain_destination(ck, P, 'C19-R13')
    status.r19_14_direct_fill_passes_the_image_bounds(ck, P)
    geometry.r_coordinate_split_floors(ck, P, 'C19-R15')
    status.r_box32_coordinates_not_narrowed(ck, P)
    status.r_rectangles_taken_after_the_last_intersection(ck, P, 'C19-R17')
    status.r_fill_returns_true_only_after_drawing(ck, P)
    status.r_fill_rows_are_separate(ck, P, 'C19-R19')
