"""Compile /repo's current working tree to LLVM IR and extract facts (DESIGN §3.1/§3.2).

Nothing here runs pixman code: units are compiled to IR only (never linked, never executed).
The repository tree analysed is $PXV_REPO (default /repo); the self-tests point it at scratch
copies.  Results are cached under /verif/.work/cache keyed by the content of every input.
"""
import hashlib, json, os, shlex, subprocess, sys, glob, shutil
from concurrent.futures import ThreadPoolExecutor

VERIF = os.path.dirname(os.path.dirname(os.path.abspath(__file__)))
WORK = os.path.join(VERIF, '.work')
BIN = os.path.join(WORK, 'bin')
PXIR = os.path.join(BIN, 'pxir')


class AnalysisBroken(Exception):
    """anchor vanished / tool failure: exit 2, never a pass and never a violation"""


def repo():
    return os.path.abspath(os.environ.get('PXV_REPO', '/repo'))


def _sha(*parts):
    h = hashlib.sha256()
    for p in parts:
        if isinstance(p, str):
            p = p.encode()
        h.update(p)
        h.update(b'\0')
    return h.hexdigest()


def _read(p):
    with open(p, 'rb') as f:
        return f.read()


def ensure_tools():
    if not os.path.exists(PXIR) or os.path.getmtime(PXIR) < os.path.getmtime(os.path.join(VERIF, 'engine', 'pxir.cc')):
        r = subprocess.run(['sh', os.path.join(VERIF, 'engine', 'build.sh')], capture_output=True, text=True)
        if r.returncode != 0:
            raise AnalysisBroken('cannot build pxir: ' + r.stderr[-2000:])


def meson_dir():
    """A private meson build directory for the analysed tree (config.h, per-unit flags, unit list).
    Keyed by the meson files so that a tree that adds/removes a source gets its own directory."""
    R = repo()
    files = ['meson.build', 'meson_options.txt', 'pixman/meson.build']
    key = _sha(*[_read(os.path.join(R, f)) for f in files if os.path.exists(os.path.join(R, f))])[:16]
    d = os.path.join(WORK, 'mb-' + key)
    cdb = os.path.join(d, 'compile_commands.json')
    if not os.path.exists(cdb):
        shutil.rmtree(d, ignore_errors=True)
        os.makedirs(WORK, exist_ok=True)
        env = dict(os.environ, CC='clang')
        r = subprocess.run(['meson', 'setup', d, R, '-Dtests=disabled', '-Dgtk=disabled', '-Dlibpng=disabled', '-Dopenmp=disabled'],
                           capture_output=True, text=True, env=env)
        if r.returncode != 0 or not os.path.exists(cdb):
            shutil.rmtree(d, ignore_errors=True)
            raise AnalysisBroken('meson setup failed: ' + (r.stdout + r.stderr)[-2000:])
    return d


def units():
    """[(unit name, source path in the analysed tree, [flags])] for every library unit the build compiles."""
    d = meson_dir()
    R = repo()
    db = json.load(open(os.path.join(d, 'compile_commands.json')))
    out = []
    for e in db:
        if not e['output'].startswith('pixman/'):
            continue
        args = shlex.split(e['command'])
        flags = [a for a in args if a.startswith(('-D', '-m', '-f', '-pthread')) and not a.startswith(('-fdiagnostics', '-MD', '-MQ', '-MF', '-ftrapping-math'))]
        src = os.path.join(R, 'pixman', os.path.basename(e['file']))
        out.append((os.path.basename(e['file']), src, flags))
    if len(out) < 30:
        raise AnalysisBroken('compile database lists only %d library units' % len(out))
    return sorted(out)


def tree_hash():
    R = repo()
    parts = []
    for p in sorted(glob.glob(os.path.join(R, 'pixman', '*.[ch]'))):
        parts.append(os.path.basename(p))
        parts.append(_read(p))
    parts.append(_read(os.path.join(meson_dir(), 'pixman', 'config.h')))
    parts.append(_read(os.path.join(VERIF, 'engine', 'pxir.cc')))
    parts.append('flags-v2')
    return _sha(*parts)[:24]


MODES = {
    # analysis IR: source-shaped CFG, force_inline helpers stay calls, full debug info
    'A': ['-O0', '-g', '-Xclang', '-disable-O0-optnone', '-Xclang', '-disable-llvm-passes'],
    # folded IR for the bit-provenance engine
    'O': ['-O2', '-g0', '-fno-vectorize', '-fno-slp-vectorize', '-fno-unroll-loops'],
    # analysis IR with scalar replacement: like A, but locals whose address is only used for type punning (__m64 values coerced
    # through memory at -O0) become SSA values too
    'S': ['-O0', '-g', '-Xclang', '-disable-O0-optnone', '-Xclang', '-disable-llvm-passes'],
}


def compile_ir(src, flags, mode, out_ll, extra=(), incdirs=()):
    d = meson_dir()
    R = repo()
    cmd = ['clang', '-S', '-emit-llvm', '-w'] + MODES[mode] + ['-I' + os.path.join(d, 'pixman')] + ['-I' + i for i in incdirs] + ['-I' + os.path.join(R, 'pixman')] \
        + list(flags) + list(extra) + ['-UNDEBUG', '-o', out_ll, src]
    r = subprocess.run(cmd, capture_output=True, text=True)
    if r.returncode != 0:
        raise AnalysisBroken('clang failed on %s: %s' % (src, r.stderr[-3000:]))
    if mode in ('A', 'S'):
        r = subprocess.run(['opt-14', '-S', '-passes=' + ('mem2reg' if mode == 'A' else 'sroa'), out_ll, '-o', out_ll], capture_output=True, text=True)
        if r.returncode != 0:
            raise AnalysisBroken('opt mem2reg failed on %s: %s' % (src, r.stderr[-2000:]))


def _facts_one(job):
    name, src, flags, mode, extra, loops, cdir = job
    tag = name + '.' + mode + ('.' + _sha(' '.join(extra))[:8] if extra else '') + ('.loops' if loops else '')
    out = os.path.join(cdir, tag + '.json')
    if os.path.exists(out):
        return out
    # the IR file is private to this process: two checks of identical trees (same cache directory) must not write the same file
    ll = os.path.join(cdir, tag + '.%d.ll' % os.getpid())
    try:
        compile_ir(src, flags, mode, ll, extra)
        tmp = out + '.tmp%d' % os.getpid()
        r = subprocess.run([PXIR, ll, tmp] + (['--loops'] if loops else []), capture_output=True, text=True)
        if r.returncode != 0:
            raise AnalysisBroken('pxir failed on %s (exit %d): %s' % (name, r.returncode, r.stderr[-2000:]))
        os.replace(tmp, out)
    finally:
        try:
            os.unlink(ll)
        except OSError:
            pass
    return out


def cache_dir():
    d = os.path.join(WORK, 'cache', tree_hash())
    os.makedirs(d, exist_ok=True)
    return d


def library_facts(mode='A', extra=(), loops=False, only=None):
    """{unit: path of facts JSON} for all library units (or the subset `only`)."""
    ensure_tools()
    cdir = cache_dir()
    jobs = [(n, s, f, mode, tuple(extra), loops, cdir) for n, s, f in units() if only is None or n in only]
    with ThreadPoolExecutor(max_workers=16) as ex:
        res = list(ex.map(_facts_one, jobs))
    return {j[0]: p for j, p in zip(jobs, res)}


def shim_facts(shim_path, mode='O', flags=(), extra=(), incdirs=(), loops=False):
    """Compile a shim translation unit (which #includes repo sources) to IR and extract facts."""
    ensure_tools()
    cdir = cache_dir()
    key = _sha(_read(shim_path), mode, ' '.join(flags), ' '.join(extra), ' '.join(incdirs), *[_read(p) for i in incdirs for p in sorted(glob.glob(os.path.join(i, '*')))])[:16]
    base = os.path.join(cdir, 'shim-' + os.path.basename(shim_path) + '.' + key)
    out = base + '.json'
    if not os.path.exists(out):
        ll = base + '.%d.ll' % os.getpid()
        try:
            compile_ir(shim_path, flags, mode, ll, extra, incdirs)
            tmp = out + '.tmp%d' % os.getpid()
            r = subprocess.run([PXIR, ll, tmp] + (['--loops'] if loops else []), capture_output=True, text=True)
            if r.returncode != 0:
                raise AnalysisBroken('pxir failed on shim %s (exit %d): %s' % (shim_path, r.returncode, r.stderr[-2000:]))
            os.replace(tmp, out)
        finally:
            try:
                os.unlink(ll)
            except OSError:
                pass
    return out


def syntax_check(path, flags=(), extra=()):
    """E3: compile-time witnesses; returns (ok, diagnostics)."""
    d = meson_dir()
    R = repo()
    cmd = ['clang', '-fsyntax-only', '-ferror-limit=0', '-w', '-I' + os.path.join(d, 'pixman'), '-I' + os.path.join(R, 'pixman'), '-DHAVE_CONFIG_H'] + list(flags) + list(extra) + [path]
    r = subprocess.run(cmd, capture_output=True, text=True)
    return r.returncode == 0, r.stderr


def prune_cache(keep=6):
    c = os.path.join(WORK, 'cache')
    if not os.path.isdir(c):
        return
    ds = sorted((os.path.getmtime(os.path.join(c, x)), x) for x in os.listdir(c))
    for _, x in ds[:-keep]:
        shutil.rmtree(os.path.join(c, x), ignore_errors=True)


if __name__ == '__main__':
    import time
    t = time.time()
    r = library_facts()
    print(len(r), 'units', time.time() - t)
