"""Porter-Duff factor algebra (T-ALG): C01-R1/R2/R3, C09-R1, C12-R3."""
import re
from collections import defaultdict
import sympy
from ..build import AnalysisBroken
from .. import consts
from . import common

SA, DA = sympy.symbols('sa da', nonnegative=True)

# ------------------------------------------------------------------ oracle (DESIGN Appendix B.1; keyed by the public operator names)
def _cl(e, guard, default):
    return ('clamp', sympy.simplify(e), guard, default)

ZERO, ONE = ('lin', sympy.Integer(0)), ('lin', sympy.Integer(1))
F_SA, F_DA, F_ISA, F_IDA = ('lin', SA), ('lin', DA), ('lin', 1 - SA), ('lin', 1 - DA)
A_ = _cl((1 - DA) / SA, 'sa', 1); B_ = _cl((1 - SA) / DA, 'da', 1)
C_ = _cl(1 - (1 - DA) / SA, 'sa', 0); D_ = _cl(1 - (1 - SA) / DA, 'da', 0)
E_ = _cl(DA / SA, 'sa', 1); F_ = _cl(SA / DA, 'da', 1)
G_ = _cl(1 - DA / SA, 'sa', 0); H_ = _cl(1 - SA / DA, 'da', 0)

ORACLE = {
    'CLEAR': (ZERO, ZERO), 'SRC': (ONE, ZERO), 'DST': (ZERO, ONE), 'OVER': (ONE, F_ISA), 'OVER_REVERSE': (F_IDA, ONE),
    'IN': (F_DA, ZERO), 'IN_REVERSE': (ZERO, F_SA), 'OUT': (F_IDA, ZERO), 'OUT_REVERSE': (ZERO, F_ISA),
    'ATOP': (F_DA, F_ISA), 'ATOP_REVERSE': (F_IDA, F_SA), 'XOR': (F_IDA, F_ISA), 'ADD': (ONE, ONE), 'SATURATE': (A_, ONE),
    'DISJOINT_CLEAR': (ZERO, ZERO), 'DISJOINT_SRC': (ONE, ZERO), 'DISJOINT_DST': (ZERO, ONE), 'DISJOINT_OVER': (ONE, B_),
    'DISJOINT_OVER_REVERSE': (A_, ONE), 'DISJOINT_IN': (C_, ZERO), 'DISJOINT_IN_REVERSE': (ZERO, D_), 'DISJOINT_OUT': (A_, ZERO),
    'DISJOINT_OUT_REVERSE': (ZERO, B_), 'DISJOINT_ATOP': (C_, B_), 'DISJOINT_ATOP_REVERSE': (A_, D_), 'DISJOINT_XOR': (A_, B_),
    'CONJOINT_CLEAR': (ZERO, ZERO), 'CONJOINT_SRC': (ONE, ZERO), 'CONJOINT_DST': (ZERO, ONE), 'CONJOINT_OVER': (ONE, H_),
    'CONJOINT_OVER_REVERSE': (G_, ONE), 'CONJOINT_IN': (E_, ZERO), 'CONJOINT_IN_REVERSE': (ZERO, F_), 'CONJOINT_OUT': (G_, ZERO),
    'CONJOINT_OUT_REVERSE': (ZERO, H_), 'CONJOINT_ATOP': (E_, H_), 'CONJOINT_ATOP_REVERSE': (G_, F_), 'CONJOINT_XOR': (G_, H_),
}


def operators(P):
    e = P.enum('pixman_op_t')
    ops = {k[len('PIXMAN_OP_'):]: v for k, v in e.items() if k.startswith('PIXMAN_OP_') and k not in ('PIXMAN_OP_NONE',)}
    C = consts.fast_path_flags()
    N = C['PIXMAN_N_OPERATORS']
    ops = {k: v for k, v in ops.items() if v < N}
    if len(ops) < 50:
        raise AnalysisBroken('pixman_op_t has only %d operators' % len(ops))
    return ops, N


# ------------------------------------------------------------------ reading the float combiners
def _fexpr(f, o, sym, depth=0):
    """sympy expression of a float value of f; sym maps ('arg', n) -> symbol; returns None when not a rational expression"""
    if depth > 30:
        return None
    k = o[0]
    if k == 'fc':
        try:
            v = float(o[1])
        except ValueError:
            return None
        return sympy.nsimplify(v, rational=True) if abs(v) < 1e6 and abs(v) > 1e-6 or v == 0 else sympy.Float(v)
    if k == 'c':
        return sympy.Integer(int(o[1]))
    if k == 'a':
        return sym.get(('arg', o[1]))
    if k != 'v':
        return None
    x = f.by_id.get(o[1])
    if x is None:
        return None
    if ('v', x.i) in sym:
        return sym[('v', x.i)]
    if x.op in ('fpext', 'fptrunc', 'sitofp', 'uitofp', 'freeze', 'bitcast'):
        return _fexpr(f, x.a[0], sym, depth + 1)
    if x.op in ('fadd', 'fsub', 'fmul', 'fdiv'):
        a = _fexpr(f, x.a[0], sym, depth + 1); b = _fexpr(f, x.a[1], sym, depth + 1)
        if a is None or b is None:
            return None
        return {'fadd': a + b, 'fsub': a - b, 'fmul': a * b, 'fdiv': a / b}[x.op]
    if x.op == 'fneg':
        a = _fexpr(f, x.a[0], sym, depth + 1)
        return None if a is None else -a
    if x.op == 'call' and x.callee and x.callee.startswith('llvm.fmuladd'):
        a, b, c = (_fexpr(f, q, sym, depth + 1) for q in x.a[:3])
        if None in (a, b, c):
            return None
        return a * b + c
    return None


def factor_arms(P):
    """{enumerator value K: descriptor} for the function with a switch on its first parameter returning float (role of get_factor)"""
    cands = []
    for f in P.units.get('pixman-combine-float.c', None).functions.values() if 'pixman-combine-float.c' in P.units else []:
        sw = [x for x in f.insts() if x.op == 'switch' and x.a[0] == ['a', 0]]
        if sw and f.type.startswith('float') and len(f.params) == 3:
            cands.append((f, sw[0]))
    if len(cands) != 1:
        raise AnalysisBroken('factor function (switch on a factor kind returning float) not identified: %s' % [c[0].name for c in cands])
    f, sw = cands[0]
    sym = {('arg', 1): SA, ('arg', 2): DA}
    join = None
    # common join block: where all arms meet (the block of the final phi / return)
    rets = f.rets()
    join = rets[0].bb.id
    arms = {}
    for K, start in sw.d['cases']:
        paths = []     # (conditions [(cond operand, polarity)], ('val', operand, trail))
        def walk(b, conds, trail, depth=0):
            if depth > 14:
                paths.append((conds, 'deep')); return
            if b == join:
                paths.append((conds, ('val', _resolve_phi(f, rets[0].a[0], trail + [b]), trail))); return
            blk = f.blocks[b]; t = blk.term
            if t.op == 'br' and t.a:
                walk(t.d['succ'][0], conds + [(t.a[0], True)], trail + [b], depth + 1)
                walk(t.d['succ'][1], conds + [(t.a[0], False)], trail + [b], depth + 1)
            elif t.op == 'br':
                walk(t.d['succ'][0], conds, trail + [b], depth + 1)
            else:
                paths.append((conds, 'odd'))
        walk(start, [], [sw.bb.id])
        arms[K] = _classify_arm(f, paths, sym)
    return f, arms


def _resolve_phi(f, o, trail):
    """value of o along the block sequence `trail`: every phi is replaced by the operand coming from the predecessor on the trail"""
    n = 0
    while n < 12:
        n += 1
        y = f.v(o)
        if y is None:
            return o
        if y.op in ('fptrunc', 'fpext'):
            o = y.a[0]; continue
        if y.op == 'phi':
            if y.bb.id not in trail:
                return o
            i = len(trail) - 1 - trail[::-1].index(y.bb.id)
            prev = trail[i - 1] if i > 0 else None
            nxt = None
            for a, bb in zip(y.a, y.d['bb']):
                if bb == prev:
                    nxt = a
            if nxt is None:
                return o
            o = nxt; continue
        return o
    return o


def _classify_arm(f, paths, sym):
    if any(v in ('deep', 'odd') for _, v in paths):
        return ('unknown', 'irregular control flow')
    if len(paths) == 1 and not paths[0][0]:
        e = _fexpr(f, paths[0][1][1], sym)
        return ('lin', sympy.simplify(e)) if e is not None else ('unknown', 'non-rational value')
    guard = None; default = None; e_expr = None; seen = defaultdict(list)
    for conds, (tag, o, prev) in paths:
        # blocks visited on this path are not tracked; resolve nested phis structurally: a const or an expression
        cs = []
        for c, pol in conds:
            y = f.v(c)
            if y is None or y.op != 'fcmp':
                return ('unknown', 'non-fcmp condition')
            l = _fexpr(f, y.a[0], sym); r = _fexpr(f, y.a[1], sym)
            cs.append((y.pred, l, r, pol))
        seen[tuple((p, str(l), str(r), pol) for p, l, r, pol in cs)].append(o)
    # derive from the condition structure
    zero_tests = set(); clamp_e = set()
    res = {}
    for conds, (tag, o, prev) in paths:
        key = []
        for c, pol in conds:
            y = f.v(c); l = _fexpr(f, y.a[0], sym); r = _fexpr(f, y.a[1], sym)
            tiny = lambda v: v is not None and v.is_number and abs(float(v)) < 1e-30 and v != 0
            if tiny(l) and r in (SA, DA):
                key.append(('gz', r, pol)); zero_tests.add(r)
            elif tiny(r) and l in (SA, DA):
                key.append(('gz', l, pol)); zero_tests.add(l)
            elif y.pred in ('olt', 'ult') and r == 0:
                key.append(('lt0', l, pol)); clamp_e.add(l)
            elif y.pred in ('ogt', 'ugt') and r == 1:
                key.append(('gt1', l, pol)); clamp_e.add(l)
            else:
                return ('unknown', 'unrecognised comparison %s' % y.pred)
        res[tuple(key)] = o
    if len(zero_tests) != 1 or len(clamp_e) != 1:
        return ('unknown', 'not the zero-guard + clamp shape')
    g = zero_tests.pop(); e = sympy.simplify(clamp_e.pop())
    # the default: value on the path where both zero tests hold
    dflt = None; ok = True
    for key, o in res.items():
        gz = [k for k in key if k[0] == 'gz']
        if len(gz) == 2 and all(k[2] for k in gz):
            dflt = _const_of(o)
        else:
            # clamp paths
            lt0 = [k for k in key if k[0] == 'lt0']; gt1 = [k for k in key if k[0] == 'gt1']
            v = _const_of(o)
            if lt0 and lt0[0][2]:
                ok &= (v == 0)
            elif gt1 and gt1[0][2]:
                ok &= (v == 1)
            else:
                ev = _fexpr(f, o, sym)
                ok &= ev is not None and sympy.simplify(ev - e) == 0
    if dflt is None or not ok:
        return ('unknown', 'clamp arms do not return 0 / 1 / e')
    return ('clamp', e, 'sa' if g == SA else 'da', int(dflt))


def _const_of(o):
    if o[0] == 'fc':
        return sympy.nsimplify(float(o[1]), rational=True)
    if o[0] == 'c':
        return sympy.Integer(int(o[1]))
    return None


def _strip_phi(f, o):
    n = 0
    y = f.v(o)
    while y is not None and n < 6:
        if y.op in ('fptrunc', 'fpext'):
            o = y.a[0]
        elif y.op == 'phi':
            # pick the non-constant incoming value
            nc = [a for a in y.a if a[0] not in ('fc', 'c')]
            if len(nc) != 1:
                return o
            o = nc[0]
        else:
            return o
        y = f.v(o); n += 1
    return o


def _const_through_phi(f, o):
    """the constant a path-selected phi operand denotes (operands were selected by predecessor, so o is the incoming value)"""
    y = f.v(o); n = 0
    while y is not None and y.op in ('fptrunc', 'fpext') and n < 4:
        o = y.a[0]; y = f.v(o); n += 1
    if o[0] == 'fc':
        return sympy.nsimplify(float(o[1]), rational=True)
    if y is not None and y.op == 'phi':
        cs = [a for a in y.a if a[0] == 'fc']
        if cs:
            return None
    return None


def pd_functions(P):
    """{pd function name: (Ka, Kb)}: the factor kinds multiplying the source and the destination colour"""
    u = P.units['pixman-combine-float.c']
    gf, arms = factor_arms(P)
    out = {}
    for f in u.functions.values():
        cs = list(f.calls(gf.name))
        if len(cs) != 2 or len(f.params) != 4:
            continue
        ok = all(c.a[1] == ['a', 0] and c.a[2] == ['a', 2] and c.a[0][0] == 'c' for c in cs)
        if not ok:
            out[f.name] = None; continue
        fa, fb = sympy.symbols('fa fb')
        sym = {('arg', 0): SA, ('arg', 1): sympy.Symbol('s'), ('arg', 2): DA, ('arg', 3): sympy.Symbol('d'), ('v', cs[0].i): fa, ('v', cs[1].i): fb}
        # the returned value: min (1, s*Fa + d*Fb)
        r = f.rets()[0]; y = f.v(r.a[0])
        vals = []
        if y is not None and y.op == 'phi':
            vals = [a for a in y.a]
        else:
            vals = [r.a[0]]
        exprs = [_fexpr(f, a, sym) for a in vals]
        s, d = sympy.Symbol('s'), sympy.Symbol('d')
        lin = [e for e in exprs if e is not None and e.has(s) or (e is not None and e.has(d))]
        one = [e for e in exprs if e == 1]
        if not lin:
            out[f.name] = None; continue
        e = sympy.expand(lin[0])
        ca = e.coeff(s); cb = e.coeff(d)
        km = {fa: cs[0].a[0][1], fb: cs[1].a[0][1]}
        if ca in km and cb in km and sympy.expand(e - ca * s - cb * d) == 0 and (len(vals) == 1 or one):
            out[f.name] = (km[ca], km[cb], bool(one))
        else:
            out[f.name] = None
    return gf, arms, out


def slot_stores(P):
    """{slot field: {index: function name}} from every store imp->combine_*[K] = f in the general setup functions (the chain end)"""
    out = defaultdict(dict); where = {}
    for f in P.functions():
        if not f.name.startswith('_pixman_setup_combiner_functions'):
            pass
        for x in f.insts():
            if x.op != 'store' or x.a[0][0] != 'f':
                continue
            p = f.path(x.a[1])
            if len(p[1]) >= 2 and p[1][-2].startswith('pixman_implementation_t.combine_') and p[1][-1].startswith('['):
                idx = p[1][-1][1:-1]
                out[(f.unit.name, f.name, p[1][-2].split('.')[1])][idx] = (x.a[0][1], x)
    return out


def general_setup(P):
    """slot stores of the functions called by the chain-end constructor (role: installs both 32-bit and float combiners)"""
    from .tables import find_create
    create, fb, tb = find_create(P)
    res = {}
    for f in P.functions():
        for c in f.calls(create.name):
            if c.a[fb][0] == 'n':
                for d in f.calls():
                    g = P.resolve(f, d.callee)
                    if g is None:
                        continue
                    for (un, fn, slot), m in slot_stores(P).items():
                        if fn == g.name and un == g.unit.name:
                            res[slot] = (g, m)
    if not {'combine_32', 'combine_32_ca', 'combine_float', 'combine_float_ca'} <= set(res):
        raise AnalysisBroken('combiner setup of the general implementation not found (slots %s)' % sorted(res))
    return res


def needs_division_table(P):
    for u, g in P.all_globals():
        if g['name'].endswith('needs_division') or g['name'] == 'needs_division':
            return u, g
    raise AnalysisBroken('needs_division table not found')


def r1_slots(ck, P):
    R = ck.rule('C01-R1', 'every operator has a combiner in the pipeline general_composite_rect selects for it (float always; 32-bit when needs_division is 0)', floor=140)
    ops, N = operators(P)
    setup = general_setup(P)
    u, nd = needs_division_table(P)
    ndv = P.array(nd)
    inv = {v: k for k, v in ops.items()}
    for slot in ('combine_float', 'combine_float_ca', 'combine_32', 'combine_32_ca'):
        g, m = setup[slot]
        ck.saw(g)
        for idx, (fn, x) in m.items():
            if not idx.lstrip('-').isdigit() or int(idx) not in inv:
                ck.violation(R, g.name, '%s[%s]' % (slot, idx), 'a combiner is stored at index %s of %s, which is not an operator (array overrun or dead slot)' % (idx, slot), x.loc())
        have = {int(i) for i in m if i.lstrip('-').isdigit()}
        for name, v in sorted(ops.items(), key=lambda kv: kv[1]):
            if slot.startswith('combine_float'):
                need = True
            else:
                need = v < len(ndv) and ndv[v] == 0
            if not need:
                continue
            if v in have:
                ck.ok(R, '%s[%s]' % (slot, name))
            else:
                fa_fb = ORACLE.get(name)
                if fa_fb is not None and fa_fb == (ZERO, ONE):
                    ck.ok(R, '%s[%s] empty: falls back to the no-op combiner, which is DST\'s semantics' % (slot, name))
                else:
                    ck.violation(R, g.name, '%s[%s]' % (slot, name), 'operator %s has no %s combiner although the %s pipeline can be chosen for it: the request silently leaves the destination unchanged' % (name, slot, 'narrow' if '32' in slot else 'wide'), '%s:%d' % (g.unit.name, g.line))


def r2_float_factors(ck, P):
    R = ck.rule('C01-R2', 'the float Porter-Duff/disjoint/conjoint combiner registered for each operator computes min(1, s*Fa + d*Fb) with the Render factors (unified and component alpha)', floor=70)
    ops, N = operators(P)
    gf, arms, pd = pd_functions(P)
    ck.saw(gf)
    setup = general_setup(P)
    u = P.units['pixman-combine-float.c']
    for K, d in sorted(arms.items()):
        if d[0] == 'unknown':
            ck.incomplete(R, 'factor kind %d of %s: %s' % (K, gf.name, d[1]))
    for slot in ('combine_float', 'combine_float_ca'):
        g, m = setup[slot]
        for name, v in sorted(ops.items(), key=lambda kv: kv[1]):
            if name not in ORACLE:
                continue
            ent = m.get(str(v))
            if ent is None:
                continue        # reported by R1
            fn, x = ent
            f = u.functions.get(fn)
            if f is None:
                ck.incomplete(R, '%s[%s] -> %s not in pixman-combine-float.c' % (slot, name, fn)); continue
            # pd functions referenced by the combiner (passed to the inner loop)
            refs = set()
            for c in f.calls():
                for a in c.a:
                    if a[0] == 'f' and a[1] in pd:
                        refs.add(a[1])
                if c.callee in pd:
                    refs.add(c.callee)
            if len(refs) != 1:
                ck.incomplete(R, '%s[%s]: %s does not use exactly one factor function (%s)' % (slot, name, fn, sorted(refs))); continue
            pdn = refs.pop()
            if pd[pdn] is None:
                ck.incomplete(R, '%s: not of the form min(1, s*Fa + d*Fb)' % pdn); continue
            ka, kb, clamped = pd[pdn]
            da_, db_ = arms.get(ka), arms.get(kb)
            if da_ is None or db_ is None or da_[0] == 'unknown' or db_[0] == 'unknown':
                continue
            ea, eb = ORACLE[name]
            probs = []
            if not _same(da_, ea, 's'):
                probs.append('Fa is %s, Render specifies %s' % (_ds(da_), _ds(ea)))
            if not _same(db_, eb, 'd'):
                probs.append('Fb is %s, Render specifies %s' % (_ds(db_), _ds(eb)))
            if not clamped:
                probs.append('the sum is not clamped to 1')
            if probs:
                ck.violation(R, fn, '%s[%s]' % (slot, name), 'operator %s: %s' % (name, '; '.join(probs)), x.loc())
            else:
                ck.ok(R, '%s[%s] = (%s, %s)' % (slot, name, _ds(ea), _ds(eb)))
    return arms, pd


def _same(a, b, colour):
    """equal factor descriptors; the value at guard == 0 is compared only where it is observable, i.e. not when the guard
    variable is the alpha of the (premultiplied, hence zero) colour the factor multiplies"""
    if a[0] != b[0]:
        return False
    if a[0] == 'lin':
        return sympy.simplify(a[1] - b[1]) == 0
    if sympy.simplify(a[1] - b[1]) != 0 or a[2] != b[2]:
        return False
    observable = not ((a[2] == 'sa' and colour == 's') or (a[2] == 'da' and colour == 'd'))
    return a[3] == b[3] or not observable


def _ds(d):
    if d[0] == 'lin':
        return str(d[1])
    if d[0] == 'clamp':
        return 'clamp(%s; %s=0 -> %d)' % (d[1], d[2], d[3])
    return str(d)


def r3_table_lengths(ck, P):
    R = ck.rule('C01-R3', 'operator-indexed tables have at least PIXMAN_N_OPERATORS elements', floor=6)
    ops, N = operators(P)
    found = 0
    for u, g in P.all_globals():
        n = P.array_len(g)
        if n is None:
            continue
        nm = g['name'].split('.')[-1]
        if nm in ('operator_table', 'needs_division', 'op_flags', 'zero_src_has_no_effect'):
            found += 1
            if n >= N:
                ck.ok(R, '%s has %d >= %d entries' % (nm, n, N))
            else:
                ck.violation(R, nm, 'table length', '%s has %d entries but is indexed by operators up to %d' % (nm, n, N - 1), u.name)
    st = P.struct('pixman_implementation_t')
    for n, off, sz, ty in st['fields']:
        if n.startswith('combine_'):
            found += 1
            m = re.search(r'\[(\d+)\]', ty)
            if m and int(m.group(1)) >= N:
                ck.ok(R, 'imp->%s has %s slots' % (n, m.group(1)))
            else:
                ck.violation(R, 'pixman_implementation_t', n, 'slot array %s (%s) is shorter than PIXMAN_N_OPERATORS' % (n, ty), 'pixman-private.h')
    if found < 7:
        ck.incomplete(R, 'only %d operator-indexed tables found' % found)


# ------------------------------------------------------------------ C09-R1 / C12-R3: rewriting under opacity / zero source
def _range01(e, var):
    """(lo, hi) of a linear-fractional e over var in (0, 1]"""
    lo = sympy.limit(e, var, 0, '+'); hi = e.subs(var, 1)
    vals = [lo, hi]
    return min(vals), max(vals)


def rewrite(d, subs, colour):
    """normal form of factor descriptor d under subs {SA:1} / {DA:1} / {SA:0}; colour = 's' or 'd' (whose premultiplied colour it multiplies)"""
    if d[0] == 'lin':
        return ('lin', sympy.simplify(d[1].subs(subs)))
    kind, e, guard, dflt = d
    gsym = SA if guard == 'sa' else DA
    if gsym in subs:
        if subs[gsym] == 0:
            return ('lin', sympy.Integer(dflt))
        e2 = sympy.simplify(e.subs(subs))
    else:
        e2 = sympy.simplify(e.subs(subs))
    free = e2.free_symbols
    # is the default observable?  not when the guard variable is the alpha of the colour the factor multiplies (premultiplied: colour <= alpha)
    dflt_matters = not ((guard == 'sa' and colour == 's') or (guard == 'da' and colour == 'd'))
    if not free:
        v = min(max(e2, 0), 1)
        if gsym in subs or not dflt_matters or v == dflt:
            return ('lin', sympy.Integer(v) if v == int(v) else v)
        return ('clamp', sympy.Integer(v), guard, dflt)
    if len(free) == 1:
        var = free.pop()
        lo, hi = _range01(e2, var)
        if lo >= 0 and hi <= 1:
            res = e2
        elif lo >= 1:
            res = sympy.Integer(1)
        elif hi <= 0:
            res = sympy.Integer(0)
        else:
            res = None
        if res is not None:
            if gsym in subs or not dflt_matters:
                return ('lin', sympy.simplify(res))
            # default matters only at guard = 0: is it the continuous value?
            try:
                lim = sympy.limit(res, gsym, 0, '+') if res.has(gsym) else res
            except Exception:
                lim = None
            if lim == dflt:
                return ('lin', sympy.simplify(res))
            return ('clamp', sympy.simplify(res), guard, dflt)
    return ('clamp', e2, guard, dflt if dflt_matters else None)


def r9_operator_table(ck, P, rid='C09-R1'):
    R = ck.rule(rid, 'every strength reduction of operator_table (source opaque, destination opaque, both) preserves the operator\'s Porter-Duff factors under sa:=1 / da:=1', floor=150)
    ops, N = operators(P)
    inv = {v: k for k, v in ops.items()}
    u, g = P.global_('operator_table')
    rows = P.array(g)
    if len(rows) < N:
        ck.violation(R, 'operator_table', 'length', 'operator_table has %d rows' % len(rows), u.name)
    cases = {0: ('neither opaque', {}), 1: ('source opaque', {SA: 1}), 2: ('destination opaque', {DA: 1}), 3: ('both opaque', {SA: 1, DA: 1})}
    for name, v in sorted(ops.items(), key=lambda kv: kv[1]):
        if v >= len(rows):
            continue
        row = rows[v]
        while isinstance(row, list) and len(row) == 1 and isinstance(row[0], list):
            row = row[0]
        for col, (what, subs) in cases.items():
            rep = row[col]
            rname = inv.get(rep)
            where = 'row %s, %s' % (name, what)
            if rname is None:
                ck.violation(R, 'operator_table', where, 'replacement %d is not an operator' % rep, u.name); continue
            if rep == v:
                ck.ok(R, where + ' (unchanged)'); continue
            if name not in ORACLE or rname not in ORACLE:
                ck.violation(R, 'operator_table', where, '%s is replaced by %s but its compositing equation is not a Porter-Duff factor pair, so the replacement cannot be justified by opacity' % (name, rname), u.name); continue
            a1 = rewrite(ORACLE[name][0], subs, 's'); b1 = rewrite(ORACLE[name][1], subs, 'd')
            a2 = rewrite(ORACLE[rname][0], subs, 's'); b2 = rewrite(ORACLE[rname][1], subs, 'd')
            if _nf_eq(a1, a2) and _nf_eq(b1, b2):
                ck.ok(R, where + ' -> ' + rname)
            else:
                ck.violation(R, 'operator_table', where, 'with %s, %s has factors (%s, %s) but its replacement %s has (%s, %s): the picture changes' % (what, name, _ds(a1), _ds(b1), rname, _ds(a2), _ds(b2)), u.name)


def _nf_eq(a, b):
    if a[0] != b[0]:
        return False
    if sympy.simplify(a[1] - b[1]) != 0:
        return False
    if a[0] == 'clamp':
        return a[2] == b[2] and a[3] == b[3]
    return True


def r12_zero_src(ck, P):
    R = ck.rule('C12-R3', 'zero_src_has_no_effect[op] is TRUE only for operators whose destination factor is 1 for a transparent source', floor=13)
    ops, N = operators(P)
    u = g = None
    for uu, gg in P.all_globals():
        if gg['name'].split('.')[-1] == 'zero_src_has_no_effect':
            u, g = uu, gg
    if g is None:
        raise AnalysisBroken('zero_src_has_no_effect not found')
    inv = {v: k for k, v in ops.items()}
    for i, val in enumerate(P.array(g)):
        name = inv.get(i)
        if name is None:
            if val:
                ck.violation(R, 'zero_src_has_no_effect', 'index %d' % i, 'TRUE at an index that is not an operator', u.name)
            continue
        if not val:
            ck.ok(R, '%s: FALSE (always safe: the whole destination is composited)' % name); continue
        if name not in ORACLE:
            ck.violation(R, 'zero_src_has_no_effect', name, '%s is marked as unaffected by a zero source but is not a Porter-Duff operator' % name, u.name); continue
        fb = rewrite(ORACLE[name][1], {SA: 0}, 'd')
        if fb[0] == 'lin' and fb[1] == 1:
            ck.ok(R, '%s: Fb(sa=0) = 1' % name)
        else:
            ck.violation(R, 'zero_src_has_no_effect', name, '%s is marked as unaffected by a zero source, but with sa = 0 its destination factor is %s: pixels outside the trapezoids must change and are skipped' % (name, _ds(fb)), u.name)
