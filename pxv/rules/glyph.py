"""Glyph cache rules (C17)."""
from collections import defaultdict
from ..build import AnalysisBroken
from .. import consts
from . import common
from .geometry import linear

SLOT = 'pixman_glyph_cache_t.glyphs'


def glyph_consts():
    return consts.get(['HASH_SIZE', 'HASH_MASK', 'N_GLYPHS_HIGH_WATER', 'N_GLYPHS_LOW_WATER'], includes=('pixman-glyph.c',))


def slot_stores(f):
    for x in f.insts():
        if x.op == 'store':
            p = f.path(x.a[1])
            if len(p[1]) >= 2 and p[1][-2] == SLOT and p[1][-1].startswith('['):
                yield x


def _kind(f, x):
    """'glyph' (a pointer from a parameter), 'tombstone' (non-null constant), 'null'"""
    o = x.a[0]
    if o[0] == 'n':
        return 'null'
    if o[0] == 'ce':
        return 'tombstone'
    if any(r[0] == 'arg' for r in common.roots(f, o)):
        return 'glyph'
    return 'other'


def _counter_updates(f):
    """{field: set of deltas / 'zero'} for integer fields of the cache struct written in f"""
    out = defaultdict(list)
    for x in f.insts():
        if x.op != 'store':
            continue
        lf = f.last_field(f.path(x.a[1]))
        if not lf or not lf.startswith('pixman_glyph_cache_t.') or lf == SLOT:
            continue
        y = f.v(x.a[0])
        if x.a[0][0] == 'c':
            out[lf].append(('set', int(x.a[0][1]), x))
        elif y is not None and y.op in ('add', 'sub'):
            d = [int(o[1]) for o in y.a if o[0] == 'c']
            if d:
                out[lf].append(('delta', d[0] if y.op == 'add' else -d[0], x))
    return out


def roles(P):
    u = P.units.get('pixman-glyph.c')
    if u is None:
        raise AnalysisBroken('pixman-glyph.c not compiled')
    r = {'insert': [], 'remove': [], 'clear': []}
    for f in u.functions.values():
        kinds = {_kind(f, x) for x in slot_stores(f)}
        if 'glyph' in kinds:
            r['insert'].append(f)
        if 'tombstone' in kinds:
            r['remove'].append(f)
        if kinds == {'null'}:
            r['clear'].append(f)
    if not r['clear']:
        # the table may be emptied wholesale (memset) instead of slot by slot: the clearing function is then the one that resets the glyph count
        for f in u.functions.values():
            if f in r['insert'] or f in r['remove'] or any(c.callee in ('malloc', 'calloc') for c in f.calls()):
                continue            # the constructor zeroes a fresh table
            if any((c.callee or '').startswith('llvm.memset') and f.last_field(f.path(c.a[0])) == 'pixman_glyph_cache_t.glyphs' for c in f.calls()):
                r['clear'].append(f)
    for k, v in r.items():
        if len(v) != 1:
            raise AnalysisBroken('glyph table role %s matched %s' % (k, [g.name for g in v]))
    return u, {k: v[0] for k, v in r.items()}


def occupancy_counters(P):
    u, R = roles(P)
    cnt = set()
    for f in (R['insert'], R['remove']):
        for fld, ups in _counter_updates(f).items():
            if any(k == 'delta' and d > 0 for k, d, x in ups):
                cnt.add(fld)
    return cnt


def r1_capacity(ck, P):
    R = ck.rule('C17-R1', 'the capacity test before a slot-consuming insertion covers every occupancy counter, so that one empty slot always remains for the probe loops to stop at', floor=1)
    u, ro = roles(P)
    C = glyph_consts()
    cnt = occupancy_counters(P)
    if len(cnt) < 2:
        ck.incomplete(R, 'occupancy counters not recognised: %s' % sorted(cnt))
    ins = ro['insert']
    n = 0
    for f in u.functions.values():
        for c in f.calls(ins.name):
            n += 1; ck.saw(f)
            best = None
            for br, succ in f.guard_edges(c.bb.id):
                if not br.a:
                    continue
                cc = f.v(br.a[0])
                if cc is None or cc.op != 'icmp':
                    continue
                ats = f.atoms(br.a[0])
                have = {a[1] for a in ats if a[0] == 'field' and a[1] in cnt}
                if not have:
                    continue
                # bound established on the proceeding edge
                l = linear(f, cc.a[0]); r = linear(f, cc.a[1])
                if l is None or r is None:
                    continue
                taken_true = br.d['succ'][0] == succ
                k = None
                if set(r) <= {()}:
                    K = r.get((), 0); pred = cc.pred
                    if not taken_true:
                        pred = {'sge': 'slt', 'sgt': 'sle', 'slt': 'sge', 'sle': 'sgt', 'uge': 'ult', 'ugt': 'ule', 'ult': 'uge', 'ule': 'ugt', 'eq': 'ne', 'ne': 'eq'}.get(pred)
                    if pred in ('slt', 'ult'):
                        k = K - 1
                    elif pred in ('sle', 'ule'):
                        k = K
                coeffs = {t[1][-1] if t[0] == 'mem' else t: cf for t, cf in l.items()}
                best = (have, k, coeffs, br)
            if best is None:
                ck.violation(R, f.name, 'capacity guard before ' + ins.name, 'no test of the occupancy counters dominates the insertion: a full table makes every probe loop spin forever', c.loc()); continue
            have, k, coeffs, br = best
            miss = cnt - have
            if miss:
                ck.violation(R, f.name, 'capacity guard before ' + ins.name, 'the capacity test reads %s but not %s: tombstones (and a completely full table) leave no empty slot, and a lookup of an absent key never terminates' % (sorted(q.split('.')[1] for q in have), sorted(q.split('.')[1] for q in miss)), br.loc())
            elif k is None or k + 1 > C['HASH_SIZE'] - 1:
                ck.violation(R, f.name, 'capacity guard before ' + ins.name, 'the capacity test allows the occupied slots to reach %s of %d: no empty slot is guaranteed' % (k + 1 if k is not None else 'an unknown number', C['HASH_SIZE']), br.loc())
            else:
                ck.ok(R, '%s: insertion only while occupied <= %d < HASH_SIZE' % (f.name, k))
    if n == 0:
        ck.incomplete(R, 'no call of the inserting function found')


def r2_counters_pair(ck, P):
    R = ck.rule('C17-R2', 'slot states and counters move together (glyph stored: n_glyphs++, and n_tombstones-- iff a tombstone was overwritten; tombstone stored: ++/--; null over tombstone: n_tombstones--; clear zeroes both; removal is followed by release)', floor=8)
    u, ro = roles(P)
    cnt = occupancy_counters(P)
    ng = [c for c in cnt if any(k == 'delta' and d > 0 for k, d, x in _counter_updates(ro['insert']).get(c, []))]
    if len(ng) != 1:
        ck.incomplete(R, 'live-glyph counter not recognised'); return
    NG = ng[0]; NT = (cnt - {NG}).pop() if len(cnt) == 2 else None
    if NT is None:
        ck.incomplete(R, 'tombstone counter not recognised'); return
    def has(f, fld, delta, near=None):
        return [x for k, d, x in _counter_updates(f).get(fld, []) if k == 'delta' and d == delta]
    # insert
    f = ro['insert']; ck.saw(f)
    st = [x for x in slot_stores(f) if _kind(f, x) == 'glyph'][0]
    if has(f, NG, 1):
        ck.ok(R, 'insert: n_glyphs++')
    else:
        ck.violation(R, f.name, 'n_glyphs++ on insertion', 'a glyph is stored into the table without counting it', st.loc())
    dec = has(f, NT, -1)
    okdec = False
    for x in dec:
        for br, succ in f.control_conditions(x.bb.id, transitive=False):
            cc = f.v(br.a[0]) if br.a else None
            if cc is not None and cc.op == 'icmp' and cc.pred in ('eq', 'ne') and any(o[0] == 'ce' for o in cc.a) and ('field', SLOT) in f.atoms(br.a[0]):
                if (cc.pred == 'eq') == (br.d['succ'][0] == succ):
                    okdec = True
    # the tombstone test must look at the slot's previous content: its load may not come after the glyph has been stored there
    if okdec:
        for x in dec:
            for br, succ in f.control_conditions(x.bb.id, transitive=False):
                cc = f.v(br.a[0]) if br.a else None
                if cc is not None and cc.op == 'icmp':
                    for o in cc.a:
                        y = f.v(f.strip_casts(o))
                        if y is not None and y.op == 'load' and f.dominates(st, y):
                            okdec = False
    if okdec:
        ck.ok(R, 'insert: n_tombstones-- iff the reused slot held a tombstone')
    else:
        ck.violation(R, f.name, 'n_tombstones-- on tombstone reuse', 'reusing a tombstone slot does not decrement n_tombstones exactly when the slot held a tombstone: the occupancy count drifts', st.loc())
    # remove
    f = ro['remove']; ck.saw(f)
    st = [x for x in slot_stores(f) if _kind(f, x) == 'tombstone'][0]
    for fld, d, what in ((NT, 1, 'n_tombstones++'), (NG, -1, 'n_glyphs--')):
        xs = [x for x in has(f, fld, d) if x.bb.id == st.bb.id]
        if xs:
            ck.ok(R, 'remove: ' + what)
        else:
            ck.violation(R, f.name, what + ' on removal', 'a slot is turned into a tombstone without %s' % what, st.loc())
    for x in slot_stores(f):
        if _kind(f, x) == 'null':
            xs = [y for y in has(f, NT, -1) if y.bb.id == x.bb.id]
            guarded = False
            for br, succ in f.control_conditions(x.bb.id, transitive=False):
                cc = f.v(br.a[0]) if br.a else None
                if cc is not None and cc.op == 'icmp' and cc.pred == 'eq' and any(o[0] == 'ce' for o in cc.a) and br.d['succ'][0] == succ:
                    guarded = True
            if xs and guarded:
                ck.ok(R, 'remove: tombstone reclaimed with n_tombstones--')
            else:
                ck.violation(R, f.name, 'tombstone reclamation', 'a slot is reset to empty without being a tombstone / without n_tombstones--', x.loc())
    # clear
    f = ro['clear']; ck.saw(f)
    ups = _counter_updates(f)
    def counted_down(fld):
        # while (counter > 0) { ...; counter--; } leaves the counter at 0 as well
        if not any(k == 'delta' and d == -1 for k, d, x in ups.get(fld, [])):
            return False
        for x in f.insts():
            if x.op == 'icmp' and x.a[1][0] == 'c' and int(x.a[1][1]) == 0 and x.pred in ('sgt', 'ne', 'ugt'):
                y = f.v(x.a[0])
                if y is not None and y.op == 'load' and f.last_field(f.path(y.a[0])) == fld:
                    return True
        return False
    for fld in (NG, NT):
        if any(k == 'set' and d == 0 for k, d, x in ups.get(fld, [])) or counted_down(fld):
            ck.ok(R, 'clear: %s = 0' % fld.split('.')[1])
        else:
            ck.violation(R, f.name, 'reset of ' + fld.split('.')[1], 'the table is emptied without resetting %s' % fld.split('.')[1], '%s:%d' % (f.unit.name, f.line))
    C = glyph_consts()
    loop_ok = False
    for x in f.insts():
        if x.op == 'icmp' and x.pred in ('slt', 'ult') and x.a[1][0] == 'c' and int(x.a[1][1]) == C['HASH_SIZE']:
            loop_ok = True
    for c in f.calls():
        if (c.callee or '').startswith('llvm.memset') and f.last_field(f.path(c.a[0])) == 'pixman_glyph_cache_t.glyphs' and c.a[1][0] == 'c' and int(c.a[1][1]) == 0 and c.a[2][0] == 'c' and int(c.a[2][1]) == C['HASH_SIZE'] * 8:
            loop_ok = True                # the whole table zeroed at once
    if loop_ok:
        ck.ok(R, 'clear: visits all HASH_SIZE slots')
    else:
        ck.violation(R, f.name, 'loop bound', 'the clearing loop does not run over all HASH_SIZE slots', '%s:%d' % (f.unit.name, f.line))
    # every removal is followed by the release of the same glyph
    rel = None
    for g in u.functions.values():
        if any(c.callee == 'pixman_image_unref' and g.last_field(g.path(c.a[0])) is None and g.fields_of(g.path(c.a[0])) == ['glyph_t.image'] for c in g.calls()) and any(c.callee == 'free' for c in g.calls()):
            rel = g
    if rel is None:
        ck.incomplete(R, 'glyph release function (unref image + free) not found'); return
    for g in u.functions.values():
        for c in g.calls(ro['remove'].name):
            ck.saw(g)
            tgt = [d for d in g.calls(rel.name) if g.strip_casts(d.a[0]) == g.strip_casts(c.a[1]) and g.dominates(c, d)]
            if tgt and not g.reach_avoiding(c, lambda y: y is tgt[0], lambda y: y.op == 'ret'):
                ck.ok(R, '%s: removed glyph is released' % g.name)
            else:
                ck.violation(R, g.name, 'release after removal', '%s removes a glyph from the table without releasing it on every path (leak of the glyph and its image)' % g.name, c.loc())


def r3_index_bounds(ck, P):
    R = ck.rule('C17-R3', 'every index into glyphs[] is masked with HASH_MASK or is a loop variable bounded by HASH_SIZE; HASH_SIZE is a power of two with HASH_MASK == HASH_SIZE-1 and room for the high-water mark', floor=8)
    C = glyph_consts()
    hs, hm = C['HASH_SIZE'], C['HASH_MASK']
    def chk(c, what, detail):
        if c:
            ck.ok(R, what)
        else:
            ck.violation(R, 'glyph cache constants', what, detail, 'pixman-glyph.c')
    chk(hs & (hs - 1) == 0 and hs > 0, 'HASH_SIZE is a power of two', 'HASH_SIZE = %d is not a power of two: masking does not cover the table' % hs)
    chk(hm == hs - 1, 'HASH_MASK == HASH_SIZE - 1', 'HASH_MASK = %d but HASH_SIZE = %d' % (hm, hs))
    chk(C['N_GLYPHS_LOW_WATER'] < C['N_GLYPHS_HIGH_WATER'], 'LOW_WATER < HIGH_WATER', 'eviction thresholds are inverted')
    chk(hs >= 2 * C['N_GLYPHS_HIGH_WATER'], 'HASH_SIZE >= 2 * HIGH_WATER', 'the table (%d) cannot hold the high-water mark (%d) at load 1/2' % (hs, C['N_GLYPHS_HIGH_WATER']))
    st = P.struct('pixman_glyph_cache_t')
    ent = [f for f in st['fields'] if f[0] == 'glyphs']
    chk(bool(ent) and ('[%d]' % hs) in ent[0][3], 'glyphs[] has HASH_SIZE entries', 'glyphs[] is declared as %s' % (ent[0][3] if ent else '?'))
    u = P.units['pixman-glyph.c']
    for f in u.functions.values():
        for x in f.insts():
            if x.op != 'getelementptr':
                continue
            steps = x.d['path']
            cand = []
            for i, stp in enumerate(steps):
                if stp[0] == 'f' and '%s.%s' % (stp[1], stp[2]) == SLOT and i + 1 < len(steps) and steps[i + 1][0] == 'x':
                    cand.append(steps[i + 1][1])
            b = f.v(f.strip_casts(x.a[0]))
            if b is not None and b.op == 'getelementptr' and b.d['path'] and b.d['path'][-1][0] == 'f' and '%s.%s' % (b.d['path'][-1][1], b.d['path'][-1][2]) == SLOT:
                xs = [stp for stp in steps if stp[0] == 'x']
                if xs:
                    cand.append(xs[0][1])
            for idx in cand:
                if True:
                    ck.saw(f)
                    if idx[0] == 'c':
                        ok = 0 <= int(idx[1]) < hs
                    else:
                        y = f.v(f.strip_casts(idx))
                        ok = False
                        if y is not None and y.op == 'and' and any(o[0] == 'c' and int(o[1]) == hm for o in y.a):
                            ok = True
                        elif y is not None and y.op == 'phi':
                            # loop variable: compared slt/ult HASH_SIZE by the loop guard
                            for u2 in f.users(y):
                                if u2.op == 'icmp' and u2.pred in ('slt', 'ult') and u2.a[1][0] == 'c' and int(u2.a[1][1]) <= hs:
                                    ok = True
                    if ok:
                        ck.ok(R, '%s: index into glyphs[] at %s bounded' % (f.name, x.loc()))
                    else:
                        ck.violation(R, f.name, 'index into glyphs[]', '%s indexes glyphs[] with a value that is neither masked with HASH_MASK nor bounded by HASH_SIZE' % f.name, x.loc())


def r4_insert_protocol(ck, P):
    R = ck.rule('C17-R4', 'insertion copies the image into one the cache owns, requires a frozen cache; destruction requires an unfrozen one', floor=3)
    ins = P.fn('pixman_glyph_cache_insert'); ck.saw(ins)
    u, ro = roles(P)
    # image stored in the glyph is the result of a constructor in this activation, not the caller's image
    okcopy = False
    for x in ins.insts():
        if x.op == 'store' and ins.last_field(ins.path(x.a[1])) == 'glyph_t.image':
            rs = common.roots(ins, x.a[0])
            if all(r[0] == 'call' and r[1].startswith('pixman_image_create') for r in rs):
                okcopy = True
            else:
                ck.violation(R, ins.name, 'glyph image', 'the cache stores an image it did not create (the caller can change or destroy it afterwards)', x.loc())
    comp = [c for c in ins.calls() if c.callee in ('pixman_image_composite32', 'pixman_image_composite')]
    if okcopy and comp:
        ck.ok(R, 'insert copies the glyph image (create_bits + composite)')
    elif okcopy:
        ck.violation(R, ins.name, 'glyph copy', 'the glyph image is created but the caller\'s pixels are never copied into it', '%s:%d' % (ins.unit.name, ins.line))
    def frozen_guard(f, callee, pred_ok):
        for c in f.calls(callee):
            for br, succ in f.guard_edges(c.bb.id):
                if br.a and ('field', 'pixman_glyph_cache_t.freeze_count') in f.atoms(br.a[0]):
                    return True
        return False
    if frozen_guard(ins, ro['insert'].name, None):
        ck.ok(R, 'insert requires freeze_count > 0')
    else:
        ck.violation(R, ins.name, 'freeze guard', 'insertion does not require a frozen cache: a concurrent thaw can evict the glyph being returned', '%s:%d' % (ins.unit.name, ins.line))
    des = P.fn('pixman_glyph_cache_destroy'); ck.saw(des)
    if frozen_guard(des, ro['clear'].name, None):
        ck.ok(R, 'destroy requires freeze_count == 0')
    else:
        ck.violation(R, des.name, 'freeze guard', 'the cache can be destroyed while frozen', '%s:%d' % (des.unit.name, des.line))


def r5_component_alpha_siblings(ck, P):
    """sibling agreement: where the glyph code decides that a format carries per-channel alpha"""
    R = ck.rule('C17-R5', 'every place in the glyph code that switches component alpha on for an image decides so with the same predicate on the image format (structurally equal guards): the mask built by pixman_composite_glyphs and the glyph images cached by insert agree on which formats are component-alpha', floor=2)
    u = P.units.get('pixman-glyph.c')
    sites = []
    for f in u.functions.values():
        for c in f.calls():
            if c.callee == 'pixman_image_set_component_alpha' and len(c.a) >= 2 and c.a[1][0] == 'c' and int(c.a[1][1]) != 0:
                sites.append((f, c))
    if len(sites) < 2:
        ck.incomplete(R, 'expected at least two places that switch component alpha on in pixman-glyph.c, found %d' % len(sites)); return

    def sig(f, o, d=0):
        if o[0] == 'c':
            return str(int(o[1]))
        if o[0] == 'a':
            return 'F'
        if o[0] != 'v' or d > 12:
            return '?'
        x = f.by_id[o[1]]
        if x.op == 'load':
            return 'F'
        if x.op in ('zext', 'sext', 'trunc', 'freeze'):
            return sig(f, x.a[0], d + 1)
        if x.op == 'phi':
            return 'phi(' + ','.join(sorted(sig(f, a, d + 1) for a in x.a)) + ')'
        if x.op == 'call':
            return '(call %s %s)' % (x.callee, ' '.join(sig(f, a, d + 1) for a in x.a))
        parts = [sig(f, a, d + 1) for a in x.a]
        if x.op in ('and', 'or', 'add', 'mul', 'xor'):
            parts.sort()
        return '(%s%s %s)' % (x.op, (' ' + x.d['p']) if x.op == 'icmp' else '', ' '.join(parts))

    sigs = []
    for f, c in sites:
        ck.saw(f)
        g = set()
        for t, s_ in f.guard_edges(c.bb.id):
            if t.op != 'br' or not t.a:
                continue
            cc, pred, ops = f.cond(t.a[0])
            if cc is None or cc.op != 'icmp':
                continue
            sg = '%s %s' % (pred, ' '.join(sorted(sig(f, o) for o in ops)))
            import re as _re
            if 'F' not in sg or not ('(and' in sg or '(lshr' in sg or _re.search(r'\(call \w+ F\)', sg)):
                continue                       # not a test of bit fields of the format code (directly or through a predicate helper of the format alone)
            taken_true = t.d['succ'][0] == s_
            g.add(('' if taken_true else 'not ') + sg)
        sigs.append(frozenset(g))
    ref = sigs[0]
    for (f, c), g in zip(sites, sigs):
        if g == ref and g:
            ck.ok(R, '%s: component alpha under %s' % (f.name, sorted(g)))
        elif not g:
            ck.violation(R, f.name, 'component-alpha predicate', '%s switches component alpha on without testing the format at all' % f.name, c.loc())
        else:
            ck.violation(R, f.name, 'component-alpha predicate', '%s decides component alpha with %s, but %s uses %s: the two disagree on some formats (e.g. an sRGB or other format type one predicate knows and the other does not), so glyphs and the mask they are accumulated into are combined differently' % (f.name, sorted(g), sites[0][0].name, sorted(ref)), c.loc())


def r6_arguments_kept_whole(ck, P):
    """T-WID: what the cache records about a glyph (origin, keys) is stored in fields as wide as the arguments of the insertion call."""
    R = ck.rule('C17-R6', 'pixman_glyph_cache_insert stores each of its integer arguments into the cache entry without narrowing it (no trunc between the parameter and the store): an origin outside the narrower range would otherwise come back displaced by a multiple of its modulus', floor=2)
    u, ro = roles(P)
    f = ro['insert']
    # the exported entry point that reaches the slot store
    cands = [g for g in u.functions.values() if g.exported and (g is f or any(c.callee == f.name for c in g.calls()))] or [f]
    n = 0
    for g in cands:
        ck.saw(g)
        for x in g.insts():
            if x.op != 'store':
                continue
            fld = g.last_field(g.path(x.a[1]))
            if not fld or not fld.startswith('glyph_t.'):
                continue
            v = g.v(x.a[0]); narrowed = None; src = x.a[0]
            while v is not None and v.op in ('trunc', 'sext', 'zext'):
                if v.op == 'trunc':
                    narrowed = v
                src = v.a[0]; v = g.v(src)
            if src[0] != 'a' or g.params[src[1]][1].endswith('*'):
                continue
            n += 1
            where = '%s: %s <- parameter %s' % (g.name, fld, g.params[src[1]][0] or src[1])
            if narrowed is not None:
                ck.violation(R, g.name, 'field %s' % fld, '%s stores its argument %s (%s) into %s through a truncation to %s: values outside that range are recorded modulo 2^%s, so the glyph is later drawn (and measured) at a different origin than the one it was inserted with' % (g.name, g.params[src[1]][0] or src[1], g.params[src[1]][1], fld, narrowed.ty, narrowed.ty[1:]), x.loc())
            else:
                ck.ok(R, where)
    if n == 0:
        ck.incomplete(R, 'no store of an integer argument into a glyph_t field found in the insertion path')


def _slot_index(f, load):
    """(base value operand, constant offset) of the index of a glyphs[] slot access: glyphs[(X + c) & HASH_MASK]"""
    y = f.v(load.a[0])
    if y is None or y.op != 'getelementptr':
        return None
    idx = [st[1] for st in y.d.get('path', []) if st and st[0] in ('p', 'x') and isinstance(st[1], list) and st[1][0] == 'v']
    if not idx:
        return None
    o = idx[-1]; z = f.v(o)
    while z is not None and z.op in ('zext', 'sext', 'trunc'):
        o = z.a[0]; z = f.v(o)
    if z is None or z.op != 'and':
        return None
    inner = [a for a in z.a if a[0] != 'c']
    if len(inner) != 1:
        return None
    w = f.v(inner[0])
    if w is not None and w.op in ('add', 'sub') and w.a[1][0] == 'c':
        c = int(w.a[1][1]); c = c if w.op == 'add' else -c
        if c >= 2 ** 31:
            c -= 2 ** 32
        return (tuple(w.a[0]), c)
    return (tuple(inner[0]), 0)


def r7_neighbour_in_probe_direction(ck, P):
    """sibling agreement between the probing loops and the removal: a tombstone may be turned back into an empty slot when the slot that
    FOLLOWS it in probe order is empty; probing advances by +1, so that slot is idx + 1."""
    R = ck.rule('C17-R7', 'the emptiness test that licenses reclaiming tombstones in the removal routine looks at the slot one probe step after the removed entry (probe loops advance the index by +1, so glyphs[(idx + 1) & HASH_MASK]): looking the other way cuts the probe chain of a colliding entry that follows', floor=1)
    u, ro = roles(P)
    ins, rem = ro['insert'], ro['remove']
    # probe step: the constant the insertion loop adds to its index
    step = None
    for x in ins.insts():
        if x.op == 'add' and x.a[1][0] == 'c' and any(u_.op == 'phi' for u_ in ins.users(x)):
            y = ins.v(x.a[0])
            if y is not None and y.op == 'phi':
                step = int(x.a[1][1])
    if step is None:
        ck.incomplete(R, 'probe step of the insertion loop not recognised'); return
    ck.saw(rem)
    n = 0
    for x in rem.insts():
        if x.op != 'icmp' or x.d['p'] not in ('eq', 'ne') or not any(a[0] == 'n' for a in x.a):
            continue
        o = [a for a in x.a if a[0] != 'n'][0]
        ld = rem.v(o)
        if ld is None or ld.op != 'load':
            continue
        si = _slot_index(rem, ld)
        if si is None:
            continue
        n += 1
        if si[1] == step:
            ck.ok(R, '%s: empty-slot test at %s looks at index %+d (probe step %+d)' % (rem.name, x.loc(), si[1], step))
        else:
            ck.violation(R, rem.name, 'empty-slot test at %s' % x.loc(), '%s decides whether tombstones can be reclaimed from the slot at index %+d relative to the removed entry, but probing advances by %+d: an entry that collides with the removed one and sits right after it is cut off from its home slot - lookups miss it, it can be inserted twice and can no longer be removed' % (rem.name, si[1], step), x.loc())
    if n == 0:
        ck.incomplete(R, '%s: no empty-slot test found' % rem.name)


def r8_thaw_thresholds(ck, P):
    """T-TAB against the macro definitions: the table is dumped only above the high-water mark."""
    R = ck.rule('C17-R8', 'in the thaw routine, every comparison with a constant that guards the call of the table-clearing routine compares with N_GLYPHS_HIGH_WATER, and the eviction loop runs while n_glyphs > N_GLYPHS_LOW_WATER: entries are dropped only above the high-water mark', floor=3)
    u, ro = roles(P)
    C = glyph_consts(); hi, lo = int(C['N_GLYPHS_HIGH_WATER']), int(C['N_GLYPHS_LOW_WATER'])
    clr, rem = ro['clear'], ro['remove']
    cnt = occupancy_counters(P)
    ng = [c for c in cnt if any(k == 'delta' and d > 0 for k, d, x in _counter_updates(ro['insert']).get(c, []))]
    NG = ng[0] if len(ng) == 1 else None
    def strict_bound(f, cc, t, s):
        """K such that the guarded side is entered exactly when the tested quantity is > K (None when the test has another shape)"""
        ks = [(i_, int(a[1])) for i_, a in enumerate(cc.a) if a[0] == 'c']
        if len(ks) != 1:
            return None
        pos, k = ks[0]; pr = cc.d['p']
        if pos == 0:
            pr = {'slt': 'sgt', 'sgt': 'slt', 'sle': 'sge', 'sge': 'sle'}.get(pr, pr)
        if t.d['succ'][0] != s:
            pr = {'slt': 'sge', 'sge': 'slt', 'sgt': 'sle', 'sle': 'sgt'}.get(pr, pr)
        return {'sgt': k, 'sge': k - 1}.get(pr)
    n = 0
    for f in u.functions.values():
        cs = [c for c in f.calls() if c.callee == clr.name]
        rs = [c for c in f.calls() if c.callee == rem.name]
        if not cs or not rs:
            continue
        ck.saw(f)
        for c in cs:
            for t, s in f.guard_edges(c.bb.id):
                cc = f.v(t.a[0]) if t.a else None
                if cc is None or cc.op != 'icmp':
                    continue
                ks = [int(a[1]) for a in cc.a if a[0] == 'c']
                if not ks or ks[0] == 0:
                    continue
                kb = strict_bound(f, cc, t, s)
                ks = [kb if kb is not None else ks[0]]
                n += 1
                if ks[0] == hi:
                    ck.ok(R, '%s: %s guarded by a comparison with %d at %s' % (f.name, clr.name, hi, cc.loc()))
                else:
                    ck.violation(R, f.name, 'guard of %s at %s' % (clr.name, cc.loc()), '%s dumps the whole table when a count exceeds %d; the high-water mark is %d (%d is %s): live entries - the most recently used ones included - are dropped from a cache that is below its high-water mark' % (f.name, ks[0], hi, ks[0], 'the low-water mark' if ks[0] == lo else 'neither mark'), cc.loc())
        for c in rs:
            for t, s in f.guard_edges(c.bb.id):
                cc = f.v(t.a[0]) if t.a else None
                if cc is None or cc.op != 'icmp':
                    continue
                ks = [int(a[1]) for a in cc.a if a[0] == 'c']
                if not ks or ks[0] == 0:
                    continue
                y = f.v([a for a in cc.a if a[0] != 'c'][0])
                lf = f.last_field(f.path(y.a[0])) if y is not None and y.op == 'load' else None
                kb = strict_bound(f, cc, t, s)
                ks = [kb if kb is not None else ks[0]]
                n += 1
                want = lo if lf == NG else hi
                if ks[0] == want:
                    ck.ok(R, '%s: eviction guarded by a comparison with %d at %s' % (f.name, want, cc.loc()))
                else:
                    ck.violation(R, f.name, 'guard of the eviction at %s' % cc.loc(), '%s evicts under a comparison with %d where %d is required' % (f.name, ks[0], want), cc.loc())
    if n == 0:
        ck.incomplete(R, 'no threshold comparison found in the thaw routine')


def r9_copy_in_source_format_keeps_palette(ck, P, rid='C17-R9'):
    """T-ORD: an image created in the format of another image in order to receive a copy of it is given that image's palette before the
    copy is composited into it - the pixels of an indexed format are stored (and later read) through bits.indexed."""
    R = ck.rule(rid, 'wherever the library creates an image in the format loaded from another image (pixman_image_create_bits* (I->bits.format, ...)) and then composites into it, the constructor is one that clears the storage (the copy writes only inside the composite region) and the path from the creation to the composite passes through pixman_image_set_indexed (new, I->bits.indexed): for c8 / g8 / c4 / g4 / g1 the store routines look colours up in bits.indexed, which is NULL in a freshly created image', floor=1)
    n = 0
    # the public constructors of bits images, and whether they hand out cleared storage (the flag they pass to the internal creator)
    ctors = {}
    for g in P.functions():
        if g.exported and g.name.startswith('pixman_image_create_bits'):
            clear = None
            for c in g.calls():
                h = P.resolve(g, c.callee) if c.callee else None
                if h is not None and not h.exported and c.a and c.a[-1][0] == 'c':
                    clear = int(c.a[-1][1]) != 0
            ctors[g.name] = clear
    for f in P.functions():
        for c in [c for c in f.calls() if c.callee in ctors]:
            y = f.v(f.strip_casts(c.a[0])) if c.a and c.a[0][0] == 'v' else None
            if y is None or y.op != 'load' or f.last_field(f.path(y.a[0])) != 'bits_image.format':
                continue
            src_root = f.root(f.path(y.a[0]))
            # where the new image lives: the SSA value, or the field it is stored into
            homes = {('v', c.i)}
            for x in f.users(c):
                if x.op == 'store' and list(x.a[0]) == ['v', c.i]:
                    homes.add(('mem', f.path(x.a[1])))
            def is_new(o):
                if list(o) == ['v', c.i]:
                    return True
                z = f.v(f.strip_casts(o))
                return z is not None and z.op == 'load' and ('mem', f.path(z.a[0])) in homes
            comps = [d for d in f.calls() if d.callee in ('pixman_image_composite32', 'pixman_image_composite') and len(d.a) > 3 and is_new(d.a[3])]
            if not comps:
                continue
            def sets_palette(x):
                if x.op != 'call' or x.callee != 'pixman_image_set_indexed' or len(x.a) < 2 or not is_new(x.a[0]):
                    return False
                z = f.v(f.strip_casts(x.a[1]))
                return z is not None and z.op == 'load' and f.last_field(f.path(z.a[0])) == 'bits_image.indexed' and f.root(f.path(z.a[0])) == src_root
            for d in comps:
                n += 1; ck.saw(f)
                where = '%s: copy composited at %s into the image created at %s' % (f.name, d.loc(), c.loc())
                if ctors.get(c.callee) is not True:
                    ck.violation(R, f.name, 'copy target not cleared', '%s creates the image that receives the copy with %s, which does not clear the storage; the copy is a composite and writes only inside the composite region (a source with a client clip and source clipping leaves the rest untouched), so the copy holds whatever the allocator returned there' % (f.name, c.callee), c.loc())
                    continue
                # a path from the creation to the composite that sets no palette; the guard `if (I->bits.indexed)` may skip the call when
                # there is no palette to carry over
                def barrier(x):
                    return sets_palette(x)
                hit = f.reach_avoiding(c, barrier, lambda x: x is d)
                if hit is not None:
                    # is every palette-less path one on which the source has no palette (guarded by I->bits.indexed == NULL)?
                    setters = [x for x in f.insts() if sets_palette(x)]
                    guarded = False
                    for sx in setters:
                        for t, s_ in f.guard_edges(sx.bb.id):
                            cc, p, ops = f.cond(t.a[0]) if t.a else (None, None, None)
                            if cc is None:
                                continue
                            zs = [f.v(f.strip_casts(o)) for o in ops]
                            if any(z is not None and z.op == 'load' and f.last_field(f.path(z.a[0])) == 'bits_image.indexed' and f.root(f.path(z.a[0])) == src_root for z in zs):
                                other = [q for q in t.d['succ'] if q != s_]
                                # the skipping edge must rejoin before the composite: accept when the setter's block dominates nothing but itself
                                guarded = True
                    if guarded:
                        ck.ok(R, where, 'palette carried over whenever the source has one'); continue
                    ck.violation(R, f.name, 'copy into an image of the source\'s format', '%s creates an image in the format of another image (%s) and composites into it at %s without handing it that image\'s palette first: for an indexed format the store routines dereference the NULL bits.indexed of the new image' % (f.name, c.loc(), d.loc()), d.loc())
                else:
                    ck.ok(R, where, 'palette carried over')
    if n == 0:
        raise AnalysisBroken('%s: no image created in the format of another image and then composited into found (pixman_glyph_cache_insert does)' % rid)


def r10_tail_taken_only_from_nonempty_list(ck, P, rid='C17-R10'):
    """T-GRD: the tail of the MRU list is a glyph only while the list is not empty - which the cache knows from its live-glyph count.
    Every use of mru.tail as a glyph is therefore guarded, at that very iteration, by a signed comparison that proves n_glyphs > 0
    (n_glyphs > constant >= 0).  A count computed once before the loop (n_glyphs - LOW_WATER in an unsigned) proves nothing when the
    table was mostly tombstones: the loop then runs through the list head itself."""
    R = ck.rule(rid, 'every load of the MRU list\'s tail in pixman-glyph.c that is turned into a glyph (pointer arithmetic on the loaded link) is guarded on every path by a signed comparison n_glyphs > c with a constant c >= 0, evaluated on the way to that load (the loop condition itself): after clear_table, or with a table that is mostly tombstones, n_glyphs is at or below the low-water mark, and a count of evictions computed in advance as an unsigned difference wraps - every live glyph is evicted and then the list head is taken for a glyph, which remove_glyph never finds', floor=1)
    u = P.units.get('pixman-glyph.c')
    if u is None:
        raise AnalysisBroken('%s: pixman-glyph.c not compiled' % rid)
    n = 0
    for fn, f in sorted(u.functions.items()):
        for x in f.insts():
            if x.op != 'load' or f.last_field(f.path(x.a[0])) not in ('pixman_list.tail', 'pixman_list_t.tail'):
                continue
            # turned into a glyph: the loaded link is the base of a getelementptr with a negative / non-zero constant offset, or cast
            us = f.users(x)
            if not any(q.op in ('getelementptr', 'bitcast', 'ptrtoint') for q in us):
                continue
            n += 1; ck.saw(f)
            ok = False
            for t, s in f.guard_edges(x.bb.id):
                if t.op != 'br' or not t.a:
                    continue
                c, p, ops = f.cond(t.a[0])
                if c is None or c.op != 'icmp' or len(ops) != 2:
                    continue
                eff = p if t.d['succ'][0] == s else f.INV.get(p, p)
                a0, a1 = ops
                if a0[0] == 'c':
                    a0, a1 = a1, a0; eff = {'slt': 'sgt', 'sgt': 'slt', 'sle': 'sge', 'sge': 'sle'}.get(eff, eff)
                y = f.v(f.strip_casts(a0)) if a0[0] == 'v' else None
                if y is None or y.op != 'load' or f.last_field(f.path(y.a[0])) != 'pixman_glyph_cache_t.n_glyphs' or a1[0] != 'c':
                    continue
                k = int(a1[1])
                if (eff == 'sgt' and k >= 0) or (eff == 'sge' and k >= 1):
                    ok = True
            where = '%s: tail of the MRU list taken at %s' % (fn, x.loc())
            if ok:
                ck.ok(R, where, 'under n_glyphs > c >= 0')
            else:
                ck.violation(R, fn, 'MRU tail taken without a live-glyph test', '%s takes the tail of the MRU list for a glyph at %s on a path where the live-glyph count has not just been compared (signed) with a non-negative constant: with an empty list the tail is the list head inside the cache structure, remove_glyph searches the table for it for ever, and everything before it was evicted although the cache was at or below its low-water mark' % (fn, x.loc()), x.loc())
    if n == 0:
        raise AnalysisBroken('%s: no use of the MRU tail as a glyph found' % rid)
