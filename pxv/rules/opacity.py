"""C09-R2 / C09-R3: opacity flags are introduced only under their conditions; the clearing disjunction is complete; mask elision."""
from collections import defaultdict
from ..build import AnalysisBroken
from .. import consts
from . import common


def _sites(P, io, so):
    out = []
    for f in P.functions():
        for x in f.insts():
            hit = None
            if x.op == 'or':
                for o in x.a:
                    if o[0] == 'c' and o[2] == 32 and int(o[1]) > 0 and int(o[1]) & (io | so):
                        hit = int(o[1])
            elif x.op == 'store' and x.a[0][0] == 'c' and x.a[0][2] == 32 and int(x.a[0][1]) > 0 and int(x.a[0][1]) & (io | so) and (f.last_field(f.path(x.a[1])) or '').endswith('flags'):
                hit = int(x.a[0][1])
            elif x.op == 'phi' and (x.dv or '').endswith('flags'):
                for o, bb in zip(x.a, x.d['bb']):
                    if o[0] == 'c' and o[2] == 32 and int(o[1]) > 0 and int(o[1]) & (io | so):
                        out.append((f, x, int(o[1]), bb))
            if hit is not None:
                out.append((f, x, hit, x.bb.id))
    return out


def _guard_atoms(f, block):
    ats = set()
    for br, succ in f.guard_edges(block):
        if br.a:
            ats |= f.atoms(br.a[0])
    return ats


def r2_opacity_flags(ck, P):
    R = ck.rule('C09-R2', 'FAST_PATH_IS_OPAQUE / SAMPLES_OPAQUE are introduced only at sites guarded by the conditions that make every contributing sample opaque, and the clearing disjunction (alpha map, convolution filters, component alpha) follows every set', floor=12)
    C = consts.fast_path_flags()
    T = consts.get(['PIXMAN_TYPE_GRAY', 'PIXMAN_TYPE_COLOR'], includes=('pixman-private.h',))
    io, so = C['FAST_PATH_IS_OPAQUE'], C['FAST_PATH_SAMPLES_OPAQUE']
    filt = P.enum('pixman_filter_t')
    V = common.validate_closure(P)
    info_fn = [f for f in V if any(True for x in common.stores_field(f, 'image_common.flags'))]
    if len(info_fn) != 1:
        raise AnalysisBroken('the function computing image_common.flags was not identified uniquely')
    info = info_fn[0]; ck.saw(info)
    sites = _sites(P, io, so)
    if len(sites) < 8:
        ck.incomplete(R, 'only %d sites introduce an opacity flag' % len(sites))
    set_blocks = []
    for f, x, bits, blk in sites:
        ats = _guard_atoms(f, blk)
        fields = {a[1] for a in ats if a[0] == 'field'}
        cst = {a[1] for a in ats if a[0] == 'const'}
        where = '%s at %s' % (f.name, x.loc())
        need = None
        if f is info:
            set_blocks.append(blk)
            if bits & so:
                need = {'bits_image.format'}
                okc = T['PIXMAN_TYPE_GRAY'] in cst and T['PIXMAN_TYPE_COLOR'] in cst
                if need <= fields and okc:
                    ck.ok(R, where + ': SAMPLES_OPAQUE under format has no alpha and is not indexed')
                else:
                    ck.violation(R, f.name, 'SAMPLES_OPAQUE site', 'SAMPLES_OPAQUE is set without requiring an alpha-less, non-indexed format (GRAY and COLOR palettes can hold translucent entries)', x.loc())
                continue
            if 'pixman_color.alpha' in fields or any(q.endswith('color.alpha') for q in fields) and 'solid_fill.color' in {a[1] for a in ats if a[0] in ('via', 'field')}:
                if 0xffff in cst:
                    ck.ok(R, where + ': solid colour with alpha == 0xffff')
                else:
                    ck.violation(R, f.name, 'IS_OPAQUE for solid', 'a solid image is marked opaque without comparing its alpha with 0xffff', x.loc())
                continue
            if 'bits_image.format' in fields:
                if 'image_common.repeat' in fields and T['PIXMAN_TYPE_GRAY'] in cst and T['PIXMAN_TYPE_COLOR'] in cst:
                    ck.ok(R, where + ': BITS IS_OPAQUE under alpha-less format and repeat != NONE')
                else:
                    ck.violation(R, f.name, 'IS_OPAQUE for bits', 'a bits image is marked opaque without requiring a repeat mode: samples outside a non-repeating image are transparent', x.loc())
                continue
            # gradients: repeat != NONE, then a loop over all stops that clears on alpha != 0xffff
            if 'image_common.repeat' in fields:
                loop_ok = False; clear = None
                for y in f.insts():
                    if y.op == 'and' and any(o[0] == 'c' and o[2] == 32 and not (int(o[1]) & io) and bin((~int(o[1])) & 0xffffffff).count('1') <= 2 for o in y.a):
                        ca = set()
                        for br, succ in f.control_conditions(y.bb.id, transitive=False):
                            if br.a:
                                ca |= f.atoms(br.a[0])
                        if ('field', 'pixman_color.alpha') in ca and ('const', 0xffff) in ca and ('field', 'gradient.stops') in {(a[0].replace('via', 'field'), a[1]) for a in ca}:
                            clear = y
                if clear is not None:
                    # the loop guard compares the counter with n_stops
                    for br, succ in f.control_conditions(clear.bb.id):
                        if br.a and ('field', 'gradient.n_stops') in f.atoms(br.a[0]):
                            # exactly `i < n_stops` with i = 0, 1, 2, ...: the bound is the loaded count itself, the counter starts at 0 and steps by 1
                            c = f.v(br.a[0])
                            if c is None or c.op != 'icmp':
                                continue
                            a0, a1 = f.strip_casts(c.a[0]), f.strip_casts(c.a[1])
                            pred = c.d['p']
                            if pred in ('sgt', 'ugt'):
                                a0, a1 = a1, a0; pred = 'slt'
                            bound = f.v(a1); ctr = f.v(a0)
                            if pred in ('slt', 'ult') and bound is not None and bound.op == 'load' and f.last_field(f.path(bound.a[0])) == 'gradient.n_stops' \
                                    and ctr is not None and ctr.op == 'phi' and any(o[0] == 'c' and int(o[1]) == 0 for o in ctr.a) \
                                    and any(o[0] == 'v' and f.v(o) is not None and f.v(o).op == 'add' and any(q[0] == 'c' and int(q[1]) == 1 for q in f.v(o).a) and any(q == ['v', ctr.i] for q in f.v(o).a) for o in ctr.a):
                                loop_ok = True
                radial_ok = False
                for b in f.blocks:
                    t = b.term
                    if t.op == 'br' and t.a and ('field', 'radial_gradient.a') in f.atoms(t.a[0]):
                        # exact predicate: the opacity code is reached from the radial case only when a < 0 (one circle strictly inside
                        # the other); with a == 0 half the plane has no admissible t and is painted transparent
                        cc = f.v(t.a[0])
                        if cc is not None and cc.op in ('icmp', 'fcmp') and len(cc.a) == 2 and cc.a[1][0] in ('c', 'fc') and float(cc.a[1][1]) in (0.0, -1.0):
                            k_ = float(cc.a[1][1]); pr_ = cc.d['p']
                            if cc.op == 'fcmp':
                                pr_ = {'oge': 'sge', 'uge': 'sge', 'ogt': 'sgt', 'ugt': 'sgt', 'olt': 'slt', 'ult': 'slt', 'ole': 'sle', 'ule': 'sle', 'oeq': 'eq', 'ueq': 'eq', 'one': 'ne', 'une': 'ne'}.get(pr_, pr_)
                            for s_ in t.d['succ']:
                                if x.bb.id == s_ or x.bb.id in f.reachable_blocks(s_, avoid={b.id}):
                                    taken = t.d['succ'][0] == s_
                                    # truth of the comparison at a == 0 and at a == -1 on the edge that leads to the flag
                                    def holds(a_):
                                        v_ = {'slt': a_ < k_, 'sle': a_ <= k_, 'sgt': a_ > k_, 'sge': a_ >= k_, 'eq': a_ == k_, 'ne': a_ != k_}.get(pr_)
                                        return None if v_ is None else (v_ == taken)
                                    if holds(0) is False and holds(-1) is True and holds(1) is False:
                                        radial_ok = True
                if loop_ok and radial_ok:
                    ck.ok(R, where + ': gradient IS_OPAQUE under repeat != NONE, all stops opaque, radial a < 0')
                else:
                    ck.violation(R, f.name, 'IS_OPAQUE for gradients', 'a gradient is marked opaque without %s' % ('checking the alpha of every stop (loop over n_stops)' if not loop_ok else 'requiring that one circle of a radial gradient contains the other (a < 0)'), x.loc())
                continue
            ck.violation(R, f.name, 'opacity flag site', 'an opacity flag is set in the flag computation under conditions the rule does not recognise as sufficient (guards read %s)' % sorted(fields), x.loc())
            continue
        # sites outside the flag computation
        ck.saw(f)
        loads_flags = {a[1] for a in ats if a[0] == 'field' and a[1].endswith('flags')}
        if x.op == 'or':
            # promotion: (flags & M) == M with M containing SAMPLES_OPAQUE and a filter + matching cover bit, tested on the same flags word that is set
            tgt = None
            for u_ in f.users(x):
                if u_.op == 'store':
                    tgt = f.last_field(f.path(u_.a[1]))
            ne = C['FAST_PATH_SAMPLES_OPAQUE'] | C['FAST_PATH_NEAREST_FILTER'] | C['FAST_PATH_SAMPLES_COVER_CLIP_NEAREST']
            bi = C['FAST_PATH_SAMPLES_OPAQUE'] | C['FAST_PATH_BILINEAR_FILTER'] | C['FAST_PATH_SAMPLES_COVER_CLIP_BILINEAR']
            cds = set()
            for br, succ in f.control_conditions(x.bb.id, transitive=False):
                if br.a:
                    cds |= f.atoms(br.a[0])
            masks = {a[1] for a in cds if a[0] == 'const'}
            same = tgt is not None and ('field', tgt) in cds
            if ne in masks and bi in masks and same:
                ck.ok(R, where + ': promotion to IS_OPAQUE under SAMPLES_OPAQUE + filter + matching COVER_CLIP of the same image')
            else:
                ck.violation(R, f.name, 'IS_OPAQUE promotion', 'an image is promoted to opaque without testing SAMPLES_OPAQUE together with its filter and the matching COVER_CLIP bit%s' % ('' if same else ' on its own flags word'), x.loc())
            continue
        # constant mask flags: only where the mask is absent or has just been found opaque
        cds = _guard_atoms(f, blk)
        for br, succ in f.control_conditions(blk):
            if br.a:
                cds |= f.atoms(br.a[0])
        nullmask = any(a[0] == 'arg' and 'pixman_image' in f.params[a[1]][1] for a in cds) or any(a[0] == 'field' and a[1].endswith('mask_image') for a in cds)
        if not nullmask:
            # the same block declares the mask absent: info.mask_image = NULL
            for y in f.blocks[blk].insts:
                if y.op == 'store' and y.a[0][0] == 'n' and (f.last_field(f.path(y.a[1])) or '').endswith('mask_image'):
                    nullmask = True
        if nullmask:
            ck.ok(R, where + ': constant opaque mask flags only for an absent/elided mask')
        else:
            ck.violation(R, f.name, 'constant IS_OPAQUE', 'a flags word is set to the constant IS_OPAQUE outside a test of the mask image', x.loc())
    # the clearing statement in the flag computation
    clear = None
    for y in info.insts():
        if y.op == 'and' and any(o[0] == 'c' and o[2] == 32 and not (int(o[1]) & (io | so)) and (~int(o[1])) & 0xffffffff == (io | so) for o in y.a):
            clear = y
    if clear is None:
        ck.violation(R, info.name, 'clearing of opacity flags', 'the flag computation no longer clears IS_OPAQUE|SAMPLES_OPAQUE for images whose alpha comes from elsewhere', '%s:%d' % (info.unit.name, info.line)); return
    cds = set()
    for br, succ in info.control_conditions(clear.bb.id, transitive=False):
        if br.a:
            cds |= info.atoms(br.a[0])
    need = {('field', 'image_common.alpha_map'): 'alpha_map', ('field', 'image_common.component_alpha'): 'component_alpha',
            ('const', filt['PIXMAN_FILTER_CONVOLUTION']): 'filter == CONVOLUTION', ('const', filt['PIXMAN_FILTER_SEPARABLE_CONVOLUTION']): 'filter == SEPARABLE_CONVOLUTION'}
    miss = [nm for k, nm in need.items() if k not in cds] + ([] if ('field', 'image_common.filter') in cds else ['filter'])
    if miss:
        ck.violation(R, info.name, 'clearing disjunction', 'opacity is not withdrawn for images with %s: such an image can have translucent samples yet is treated as opaque' % ', '.join(miss), clear.loc())
    else:
        ck.ok(R, 'clearing disjunction covers alpha_map, both convolution filters and component_alpha')
    # it follows every set: the clearing decision post-dominates every set site
    first_cond = min((br.bb.id for br, succ in info.control_conditions(clear.bb.id, transitive=False)), default=None)
    for b in set(set_blocks):
        ok = first_cond is not None and all(first_cond in info.reachable_blocks(b) for _ in [0]) and not _reaches_store_avoiding(info, b, first_cond)
        if ok:
            ck.ok(R, 'set site in block %d is followed by the clearing decision' % b)
        else:
            ck.violation(R, info.name, 'order of set and clear', 'an opacity flag set in block %d can reach the final store of the flags without passing the clearing decision' % b, clear.loc())


def _reaches_store_avoiding(f, start, avoid):
    final = [x.bb.id for x in common.stores_field(f, 'image_common.flags')]
    seen = set(); work = [start]
    while work:
        b = work.pop()
        if b in seen or b == avoid:
            continue
        seen.add(b)
        if b in final:
            return True
        work.extend(f.blocks[b].succ)
    return False


def r3_mask_elision(ck, P):
    R = ck.rule('C09-R3', 'the mask is elided only when the mask itself is opaque, the substituted flags are exactly IS_OPAQUE|NO_ALPHA_MAP, and the operator is optimised on the conjunction of source and mask opacity', floor=3)
    C = consts.fast_path_flags()
    io = C['FAST_PATH_IS_OPAQUE']
    f = P.fn('pixman_image_composite32'); ck.saw(f)
    img = [i for i, (n, t) in enumerate(f.params) if 'pixman_image' in t]
    mask_i = img[1]
    st = [x for x in f.insts() if x.op == 'store' and x.a[0][0] == 'c' and f.last_field(f.path(x.a[1])) == 'pixman_composite_info_t.mask_flags']
    if not st:
        ck.incomplete(R, 'constant mask_flags store not found'); return
    for x in st:
        v = int(x.a[0][1])
        if v == io | C['FAST_PATH_NO_ALPHA_MAP']:
            ck.ok(R, 'elided mask gets IS_OPAQUE|NO_ALPHA_MAP')
        else:
            ck.violation(R, f.name, 'flags of the elided mask', 'the elided mask is given flags %#x instead of exactly IS_OPAQUE|NO_ALPHA_MAP' % v, x.loc())
        # reached only when mask == NULL or mask.flags & IS_OPAQUE
        ok = True
        cds = f.control_conditions(x.bb.id, transitive=False)
        ats = set()
        for br, succ in cds:
            if br.a:
                ats |= f.atoms(br.a[0])
        if ('arg', mask_i) in ats and ('field', 'image_common.flags') in ats and ('const', io) in ats:
            # no other image's flags may enter the decision
            roots = {a[1] for a in ats if a[0] == 'argmem'}
            if roots <= {mask_i}:
                ck.ok(R, 'mask elided on mask == NULL or mask IS_OPAQUE only')
            else:
                ck.violation(R, f.name, 'elision condition', 'the mask is elided depending on another image\'s state', x.loc())
        else:
            ck.violation(R, f.name, 'elision condition', 'the mask is elided without testing that it is absent or IS_OPAQUE', x.loc())
    # optimize_operator takes the conjunction of source and mask opacity
    opt = None
    for c in f.calls():
        g = P.resolve(f, c.callee)
        if g is not None and g.internal and len(g.params) == 4 and g.type.startswith('i32'):
            opt = (g, c)
    if opt is None:
        ck.incomplete(R, 'operator optimisation call not found'); return
    g, c = opt; ck.saw(g)
    # inside: (src_flags & mask_flags) & IS_OPAQUE
    conj = False
    for x in g.insts():
        if x.op == 'and':
            ats = g.atoms(['v', x.i])
            if ('arg', 1) in ats and ('arg', 2) in ats:
                conj = True
    if conj:
        ck.ok(R, 'operator optimisation uses src_flags & mask_flags')
    else:
        ck.violation(R, g.name, 'source/mask conjunction', 'the operator is strength-reduced for an opaque source without requiring the mask to be opaque too', '%s:%d' % (g.unit.name, g.line))


def r6_outside_is_transparent(ck, P, rid='C09-R6'):
    """a sample outside a non-repeating image is transparent black, also for formats without alpha"""
    R = ck.rule(rid, 'where a fetcher substitutes the constant 0 for a sample outside a non-repeating image (a phi of 0 and fetched pixels), that 0 reaches the filter arithmetic unchanged: the alpha-forcing mask of alpha-less formats is or-ed into fetched pixels before the merge, never into the merged value', floor=4)
    n = 0
    for f in P.functions():
        if f.unit.name not in ('pixman-fast-path.c', 'pixman-bits-image.c'):
            continue

        def from_fetch(o, d=0):
            if o[0] != 'v' or d > 4:
                return False
            y = f.by_id[o[1]]
            if y.op == 'call' and (y.callee is None or (isinstance(y.callee, str) and any(k in y.callee for k in ('convert_pixel', 'fetch', 'get_pixel')))):
                return True
            if y.op in ('or', 'phi'):
                return any(from_fetch(a, d + 1) for a in y.a)
            return False

        for x in f.insts():
            if x.op != 'phi' or x.ty != 'i32' or not any(a[0] == 'c' and int(a[1]) == 0 for a in x.a) or not any(from_fetch(a) for a in x.a):
                continue
            n += 1; ck.saw(f)
            # follow the merged value through further phis; an `or` with something that is not a constant re-introduces bits into the 0
            bad = None; seen = set(); work = [x]
            while work and bad is None:
                y = work.pop()
                if y.i in seen:
                    continue
                seen.add(y.i)
                for z in f.users(y):
                    if z.op == 'phi':
                        work.append(z)
                    elif z.op in ('or', 'add'):
                        other = [o for o in z.a if o != ['v', y.i]]
                        if other and other[0][0] == 'c':
                            if int(other[0][1]) != 0:
                                bad = z                      # 0 | constant: the outside sample is no longer 0
                        elif other and not from_fetch(other[0]):
                            bad = z
            where = '%s: %s = phi (0, fetched pixels)' % (f.name, x.dv or 'value %d' % x.i)
            if bad is None:
                ck.ok(R, where)
            else:
                ck.violation(R, f.name, 'bits or-ed into the merged sample', '%s combines the merged sample (0 when outside a non-repeating image) with further bits at %s: for alpha-less formats the outside becomes opaque black instead of transparent, so an opaque picture presented as x8r8g8b8 composites differently from the same picture as a8r8g8b8 with alpha 255' % (f.name, bad.loc()), bad.loc())
    if n == 0:
        ck.incomplete(R, 'no fetcher substitutes 0 for outside samples')


def r9_solid_substitution_excludes_kernels(ck, P, rid='C09-R9'):
    """T-GRD: a bits image is presented as the solid pseudo-format only when every sample of it equals its one pixel.  Under a filter whose
    fetcher multiplies by caller-supplied coefficients (the kinds whose fetcher walks filter_params) a sample is the pixel times the sum of
    the kernel, so the substitution is excluded for those kinds."""
    from . import filt
    from .. import consts
    R = ck.rule(rid, 'in the flag computation, the path on which a BITS image receives the solid pseudo-format as its extended format code is guarded, for every filter kind whose pixel fetcher reads filter_params (convolution, separable convolution), by a test that image_common.filter is not that kind: a repeated single pixel under a kernel that does not sum to one is not that pixel', floor=2)
    C = consts.fast_path_flags()
    SOLID = C['PIXMAN_solid']
    kinds = filt.param_reading_filter_kinds(P)
    if not kinds:
        raise AnalysisBroken('%s: no filter kind with a parameter-reading fetcher found' % rid)
    from . import common
    f = common.find_validate(P)
    # the function that stores extended_format_code
    g = None
    for h in P.closure([f]):
        if any(x.op == 'store' and h.last_field(h.path(x.a[1])) == 'image_common.extended_format_code' for x in h.insts()):
            g = h
    if g is None:
        raise AnalysisBroken('%s: the function storing image_common.extended_format_code was not found' % rid)
    ck.saw(g)
    inv = {v: k for k, v in P.enum('pixman_filter_t').items()}
    # edges on which the constant PIXMAN_solid enters a phi, from a block that is guarded by tests on bits_image.width / height (the BITS case)
    sites = []
    for x in g.insts():
        if x.op != 'phi':
            continue
        for a, bb in zip(x.a, x.d['bb']):
            if a[0] == 'c' and int(a[1]) & 0xffffffff == SOLID & 0xffffffff:
                flds = set()
                for t, s_ in g.guard_edges(bb):
                    if t.a:
                        flds |= {q[1] for q in g.atoms(t.a[0]) if q[0] == 'field'}
                if 'bits_image.width' in flds or 'bits_image.height' in flds:
                    sites.append((x, bb))
    if not sites:
        raise AnalysisBroken('%s: the substitution of the solid pseudo-format for a 1x1 bits image was not found in %s' % (rid, g.name))
    for x, bb in sites:
        excluded = set()
        for t, s_ in g.guard_edges(bb):
            if not t.a:
                continue
            if t.op == 'switch':
                continue
            c, p, ops = g.cond(t.a[0])
            if c is None or c.op != 'icmp' or p not in ('eq', 'ne'):
                continue
            zs = [g.v(g.strip_casts(o)) for o in ops]
            if not any(z is not None and z.op == 'load' and g.last_field(g.path(z.a[0])) == 'image_common.filter' for z in zs):
                continue
            ks = [int(o[1]) for o in ops if o[0] == 'c']
            if ks and (p == 'ne') == (t.d['succ'][0] == s_):
                excluded.add(ks[0])
        for K, names in sorted(kinds.items()):
            where = '%s: solid pseudo-format for a 1x1 repeating image, filter kind %s' % (g.name, inv.get(K, K))
            if K in excluded:
                ck.ok(R, where, 'excluded')
            else:
                ck.violation(R, g.name, 'solid substitution under %s' % inv.get(K, K), '%s presents a 1x1 repeating bits image as a solid colour also when its filter is %s, whose fetcher (%s) multiplies every sample by the coefficients in filter_params: with a kernel that does not sum to one (an edge-detection kernel sums to 0) the general path gives pixel * sum where the solid fast paths use the pixel itself' % (g.name, inv.get(K, K), ', '.join(sorted(names))), x.loc())
