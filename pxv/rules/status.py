"""blt/fill primitives: fail before write, delegation returns the disjunction, status not dropped (C02-R5 = C19-R1)."""
from collections import defaultdict
from ..build import AnalysisBroken
from .. import consts
from . import common, tables


def slot_functions(P):
    """{slot: {unit name: Function}} for functions stored into imp->blt / imp->fill"""
    out = {'blt': {}, 'fill': {}}
    for f in P.functions():
        for slot in out:
            for x in common.stores_field(f, 'pixman_implementation_t.' + slot):
                if x.a[0][0] == 'f':
                    g = P.resolve(f, x.a[0][1])
                    if g is not None:
                        out[slot][f.unit.name] = g
    if not out['fill'] or not out['blt']:
        raise AnalysisBroken('no function is stored into an imp->fill / imp->blt slot')
    return out


def write_events(P, f, ptr_params):
    """instructions of f that may write through a pointer derived from the given pointer parameters"""
    from .threads import param_write_summaries
    W = param_write_summaries(P)
    ev = []
    for x in f.insts():
        if x.op == 'store':
            if any(r[0] == 'arg' and r[1] in ptr_params for r in common.roots(f, x.a[1])):
                ev.append(x)
        elif x.op == 'call':
            g = P.resolve(f, x.callee)
            for k, a in enumerate(x.a):
                rs = common.roots(f, a)
                if not any(r[0] == 'arg' and r[1] in ptr_params for r in rs):
                    continue
                if g is not None:
                    if k in W[g]:
                        ev.append(x)
                elif x.callee and x.callee.startswith('llvm.mem') and k == 0:
                    ev.append(x)
                elif x.callee is None or not x.callee.startswith('llvm.'):
                    ev.append(x)
    return ev


def false_return_points(f):
    """blocks from whose end the function returns constant 0: [(block id, ret inst)]"""
    out = []
    for r in f.rets():
        if not r.a:
            continue
        o = r.a[0]
        if o[0] == 'c' and o[1] == 0:
            out.append((r.bb.id, r, None))
        y = f.v(o)
        if y is not None and y.op == 'phi':
            for a, bb in zip(y.a, y.d['bb']):
                if a[0] == 'c' and a[1] == 0:
                    out.append((bb, r, y.bb.id))
    return out


def specialised_reach(f, spec):
    """blocks reachable from entry when parameters spec={argidx: K} are fixed (icmp/switch on those args folded)"""
    def val(o):
        if o[0] == 'c':
            return int(o[1])
        if o[0] == 'a' and o[1] in spec:
            return spec[o[1]]
        y = f.v(o)
        if y is not None and y.op in ('zext', 'sext', 'trunc'):
            return val(y.a[0])
        return None
    seen = set(); work = [0]
    while work:
        b = work.pop()
        if b in seen:
            continue
        seen.add(b)
        t = f.blocks[b].term
        nxt = list(f.blocks[b].succ)
        if t.op == 'br' and t.a:
            c = f.v(t.a[0])
            if c is not None and c.op == 'icmp':
                l, r = val(c.a[0]), val(c.a[1])
                if l is not None and r is not None:
                    res = {'eq': l == r, 'ne': l != r, 'slt': l < r, 'sgt': l > r, 'sle': l <= r, 'sge': l >= r, 'ult': l < r, 'ugt': l > r, 'ule': l <= r, 'uge': l >= r}.get(c.pred)
                    if res is not None:
                        nxt = [t.d['succ'][0] if res else t.d['succ'][1]]
        elif t.op == 'switch':
            v = val(t.a[0])
            if v is not None:
                nxt = [t.d['default']]
                for cv, bb in t.d['cases']:
                    if cv == v:
                        nxt = [bb]
        work.extend(nxt)
    return seen


DEPTHS = (1, 2, 4, 8, 16, 24, 32, 64, 96, 128)


def accept_set(P, f, bpp_params, ptr_params):
    """depths K for which a write is reachable when all bpp parameters equal K"""
    ev = write_events(P, f, ptr_params)
    out = set()
    for K in DEPTHS:
        reach = specialised_reach(f, {i: K for i in bpp_params})
        if any(x.bb.id in reach for x in ev):
            out.add(K)
    return out


def _bpp_params(f):
    return [i for i, (n, t) in enumerate(f.params) if 'bpp' in (n or '')]


def _ptr_params(f):
    return [i for i, (n, t) in enumerate(f.params) if t == 'i32*']


def r5_blt_fill(ck, P):
    RA = ck.rule('C02-R5a', 'every function stored into an imp->blt / imp->fill slot returns FALSE only on paths that have written nothing through its bits parameters', floor=5)
    RB = ck.rule('C02-R5b', 'the delegation functions return TRUE only on a TRUE from a slot call and FALSE only after the whole chain', floor=2)
    RC = ck.rule('C02-R5c', 'the status of pixman_fill / pixman_blt / slot primitives is used, or the caller is a composite routine whose table entries all have a depth its own implementation\'s primitive accepts', floor=10)
    slots = slot_functions(P)
    prim = set()
    for slot, d in slots.items():
        for un, f in d.items():
            prim.add(f); ck.saw(f)
            pp = _ptr_params(f)
            ev = write_events(P, f, pp)
            if not ev:
                ck.incomplete(RA, '%s: no write through a bits parameter recognised' % f.name); continue
            evb = {x.bb.id for x in ev}
            bad = None
            for bb, r, via in false_return_points(f):
                # is the returning block reachable from (or equal to, after) a write event?
                for x in ev:
                    if bb in f.reachable_blocks(x.bb.id) and (bb != x.bb.id or True):
                        if bb == x.bb.id and via is None and r.i < x.i:
                            continue
                        bad = (x, r); break
                if bad:
                    break
            if bad:
                ck.violation(RA, f.name, 'return FALSE after a write', '%s can return FALSE after having written destination words (write at %s)' % (f.name, bad[0].loc()), bad[1].loc())
            else:
                ck.ok(RA, f.name, '%d write events, none reaches a FALSE return; accepts depths %s' % (len(ev), sorted(accept_set(P, f, _bpp_params(f), pp))))
    # delegation functions: functions that call through the slot
    deleg = {}
    for f in P.functions():
        for c in f.calls():
            if c.callee is None and 'callee' in c.d:
                y = f.v(c.d['callee'])
                if y is not None and y.op == 'load':
                    lf = f.last_field(f.path(y.a[0]))
                    if lf in ('pixman_implementation_t.blt', 'pixman_implementation_t.fill'):
                        deleg.setdefault(f, []).append(c)
    for f, cs in deleg.items():
        ck.saw(f)
        r = f.rets()[0] if f.rets() else None
        y = f.v(r.a[0]) if r is not None and r.a else None
        if y is None or y.op != 'phi':
            ck.incomplete(RB, '%s: return value is not a merge of constants' % f.name); continue
        ok = True
        for a, bb in zip(y.a, y.d['bb']):
            dep_true = False
            for br, succ in f.control_conditions(bb) | ({(f.blocks[bb].term, y.bb.id)} if len(f.blocks[bb].succ) > 1 else set()):
                if br.op == 'br' and br.a:
                    c = f.v(br.a[0])
                    if c is not None and c.op == 'icmp' and any(('v', q.i) == tuple(o) or f.strip_casts(o) == ['v', q.i] for q in cs for o in c.a):
                        taken_true = br.d['succ'][0] == succ
                        if (c.pred == 'ne') == taken_true:
                            dep_true = True
            if a[0] == 'c' and a[1] != 0 and not dep_true:
                ck.violation(RB, f.name, 'return TRUE', '%s returns TRUE on a path that does not follow a TRUE result of the slot call' % f.name, r.loc()); ok = False
            if a[0] == 'c' and a[1] == 0 and dep_true:
                ck.violation(RB, f.name, 'return FALSE', '%s returns FALSE although a primitive reported success' % f.name, r.loc()); ok = False
            if a[0] != 'c':
                ck.incomplete(RB, '%s: non-constant return arm' % f.name); ok = False
        # loop continues down the chain: some load of .fallback feeds the loop
        if not any(x.op == 'load' and f.last_field(f.path(x.a[0])) == 'pixman_implementation_t.fallback' for x in f.insts()):
            ck.violation(RB, f.name, 'chain walk', '%s does not walk imp->fallback' % f.name, '%s:%d' % (f.unit.name, f.line)); ok = False
        if ok:
            ck.ok(RB, f.name, 'TRUE iff a slot call returned TRUE; FALSE after the chain')
    # status functions: primitives, delegation functions, and functions returning their result
    status = set(prim) | set(deleg)
    changed = True
    while changed:
        changed = False
        for f in P.functions():
            if f in status or f.dret != 'pixman_bool_t':
                continue
            for r in f.rets():
                y = f.v(r.a[0]) if r.a else None
                if y is not None and y.op == 'call':
                    g = P.resolve(f, y.callee)
                    if g in status:
                        status.add(f); changed = True
    C = consts.fast_path_flags()
    comp_entries = defaultdict(list)
    for u, g, t in tables.composite_tables(P):
        for e in t:
            fn = tables.fname(e['func'])
            if fn:
                comp_entries[(u.name, fn)].append(e)
    for f in P.functions():
        for c in f.calls():
            g = P.resolve(f, c.callee)
            if g is None or g not in status:
                continue
            ck.saw(f)
            site = 'call %s' % g.name
            if c.d.get('used'):
                ck.ok(RC, '%s: %s (result used)' % (f.name, site)); continue
            # depth argument
            ents = comp_entries.get((f.unit.name, f.name))
            reason = None
            if not ents:
                reason = 'result dropped and the caller is not a registered composite routine'
            else:
                own = {s: slots[s].get(f.unit.name) for s in slots}
                kind = 'blt' if len(_bpp_params(g)) == 2 else 'fill'
                target = g if g in prim else own[kind]
                if target is None:
                    reason = 'result dropped and the caller\'s implementation has no %s primitive of its own' % kind
                else:
                    acc = accept_set(P, target, _bpp_params(target), _ptr_params(target))
                    for bi in _bpp_params(g):
                        a = c.a[bi]
                        if a[0] == 'c':
                            if int(a[1]) not in acc:
                                reason = 'constant depth %d is not accepted by %s (accepts %s)' % (a[1], target.name, sorted(acc))
                            continue
                        ats = f.atoms(a)
                        if ('field', 'bits_image.format') not in ats:
                            reason = 'depth argument is not a constant nor derived from an image format'; continue
                        roles = [r for r in ('src', 'mask', 'dest') if ('via', 'pixman_composite_info_t.%s_image' % r) in ats]
                        if len(roles) != 1:
                            reason = 'depth argument mixes image roles %s' % roles; continue
                        for e in ents:
                            code = e[roles[0] + '_format']
                            if code in (C['PIXMAN_any'], C['PIXMAN_solid'], C['PIXMAN_null'], C['PIXMAN_pixbuf'], C['PIXMAN_rpixbuf']):
                                reason = 'a table entry registers the routine for a non-concrete %s format' % roles[0]; break
                            if tables.fmt_info(code)['bpp'] not in acc:
                                reason = 'registered for a %d-bpp %s, which %s rejects (accepts %s)' % (tables.fmt_info(code)['bpp'], roles[0], target.name, sorted(acc)); break
            if reason is None:
                ck.ok(RC, '%s: %s (discharged by depth)' % (f.name, site))
            else:
                ck.violation(RC, f.name, site, 'the FALSE result of %s is ignored: %s; when every implementation that handles the depth is disabled the caller reports success having drawn nothing' % (g.name, reason), c.loc())


def r19_4_depths(ck, P, accepted_formats):
    R = ck.rule('C19-R4', 'every depth of a format the direct-fill shortcut accepts is filled by the portable fill primitive; SIMD fills refuse other depths before writing', floor=4)
    slots = slot_functions(P)
    portable = slots['fill'].get('pixman-fast-path.c')
    if portable is None:
        raise AnalysisBroken('no fill primitive registered by pixman-fast-path.c')
    acc = accept_set(P, portable, _bpp_params(portable), _ptr_params(portable))
    for code in accepted_formats:
        bpp = tables.fmt_info(code)['bpp']
        if bpp in acc:
            ck.ok(R, 'format 0x%x (%d bpp) handled by %s' % (code, bpp, portable.name))
        else:
            ck.violation(R, portable.name, 'depth %d' % bpp, 'color_to_pixel accepts format 0x%x but %s refuses %d bpp (accepts %s): the direct fill silently does nothing on the portable chain' % (code, portable.name, bpp, sorted(acc)), portable.unit.name)


def r19_6_op_reduction(ck, P):
    """the only rewrites of the operator in front of the direct fill"""
    R = ck.rule('C19-R6', 'pixman_image_fill_boxes replaces the operator by SRC only for OVER with a colour whose alpha equals the all-ones value of its type, or for CLEAR together with an all-zero colour', floor=2)
    f = P.fn('pixman_image_fill_boxes', required=False)
    if f is None:
        ck.incomplete(R, 'pixman_image_fill_boxes not found'); return
    ck.saw(f)
    SRC = P.enum_const('PIXMAN_OP_SRC'); OVER = P.enum_const('PIXMAN_OP_OVER'); CLEAR = P.enum_const('PIXMAN_OP_CLEAR')
    op_arg = [i for i, (n, t) in enumerate(f.params) if n == 'op']
    if not op_arg:
        ck.incomplete(R, 'parameter op not found'); return
    op_arg = op_arg[0]

    def is_op(o, seen=()):
        if o[:2] == ['a', op_arg]:
            return True
        x = f.v(o)
        if x is not None and x.op == 'phi' and x.i not in seen:
            return any(is_op(a, seen + (x.i,)) for a in x.a)
        return False

    n = 0
    for x in f.insts():
        if x.op != 'phi' or not any(is_op(a) for a in x.a):
            continue
        for a, bb in zip(x.a, x.d['bb']):
            if a[0] != 'c':
                continue
            n += 1
            if int(a[1]) != SRC:
                ck.violation(R, f.name, 'operator rewritten to %d' % int(a[1]), 'pixman_image_fill_boxes rewrites the operator to %d; only the reduction to SRC is justified' % int(a[1]), x.loc()); continue
            conds = []
            for t, s_ in f.guard_edges(bb) | ({(f.blocks[bb].term, x.bb.id)} if f.blocks[bb].term.a else set()):
                if t.op != 'br' or not t.a:
                    continue
                c, pred, ops = f.cond(t.a[0])
                if c is None or c.op != 'icmp':
                    continue
                taken_true = t.d['succ'][0] == s_
                if pred == 'ne':
                    pred = 'eq'; taken_true = not taken_true
                if pred == 'eq' and taken_true:
                    conds.append(ops)
                elif pred in ('eq',):
                    pass
                else:
                    conds.append(('other', pred, ops, taken_true))
            eq_op = {int(o2[1]) for ops in conds if isinstance(ops, list) for o1, o2 in (ops, ops[::-1]) if is_op(o1) and o2[0] == 'c'}
            alpha_ok = False; alpha_seen = None
            for ops in conds:
                if isinstance(ops, tuple):
                    _, pred, oo, tt = ops
                    if any(('field', 'pixman_color.alpha') in f.atoms(o) for o in oo if o[0] == 'v'):
                        alpha_seen = 'alpha compared with %s (edge taken when %s)' % (pred, tt)
                    continue
                for o1, o2 in (ops, ops[::-1]):
                    if o1[0] == 'v' and ('field', 'pixman_color.alpha') in f.atoms(o1) and o2[0] == 'c':
                        ld = f.v(f.strip_casts(o1))
                        bits = int(ld.ty[1:]) if ld is not None and ld.op == 'load' and ld.ty.startswith('i') else None
                        alpha_seen = 'alpha == 0x%x' % int(o2[1])
                        if bits and int(o2[1]) == (1 << bits) - 1:
                            alpha_ok = True
            if OVER in eq_op and alpha_ok:
                ck.ok(R, 'OVER -> SRC under alpha == all-ones'); continue
            if CLEAR in eq_op:
                # the colour handed on from this block must be a local whose four channels are stored as zero here
                zero = [y for y in f.blocks[bb].insts if y.op == 'store' and y.a[0][0] == 'c' and int(y.a[0][1]) == 0 and f.last_field(f.path(y.a[1])) and f.last_field(f.path(y.a[1])).startswith('pixman_color.')]
                chans = {f.last_field(f.path(y.a[1])) for y in zero}
                if len(chans) == 4:
                    ck.ok(R, 'CLEAR -> SRC with an all-zero colour'); continue
                ck.violation(R, f.name, 'CLEAR reduced to SRC', 'CLEAR is rewritten to SRC but only %d of the 4 colour channels are set to zero' % len(chans), x.loc()); continue
            ck.violation(R, f.name, 'operator reduced to SRC', 'the operator is rewritten to SRC under a condition that is neither (op == OVER and alpha == all-ones) nor (op == CLEAR with a zero colour): %s; operators tested: %s' % (alpha_seen or 'no alpha test', sorted(eq_op)), x.loc())
    if n == 0:
        ck.incomplete(R, 'no operator rewrite found in pixman_image_fill_boxes')


def _ty_bytes(t):
    import re
    t = t.rstrip('*') if t.endswith('*') else t
    m = re.match(r'^i(\d+)$', t)
    if m:
        return int(m.group(1)) // 8
    if t == 'x86_mmx' or t == 'double':
        return 8
    if t == 'float':
        return 4
    m = re.match(r'^<(\d+) x i(\d+)>$', t)
    if m:
        return int(m.group(1)) * int(m.group(2)) // 8
    m = re.match(r'^<(\d+) x (float|double)>$', t)
    if m:
        return int(m.group(1)) * (4 if m.group(2) == 'float' else 8)
    return None


STORE_HELPERS = {'save_128_aligned': 16, 'save_128_unaligned': 16, 'save_128_write_combining': 16, '_mm_store_si128': 16, '_mm_storeu_si128': 16, '_mm_stream_si128': 16}


def _ptr_off(f, o, depth=0):
    """(base SSA operand, constant byte offset) of a pointer built by casts and constant GEPs"""
    off = 0
    while depth < 20:
        depth += 1
        x = f.v(o)
        if x is None:
            return o, off
        if x.op in ('bitcast',):
            o = x.a[0]; continue
        if x.op == 'getelementptr':
            k = 0; ok = True
            for st in x.d.get('path') or []:
                if st[0] == 'p' and st[1][0] == 'c':
                    k += int(st[1][1]) * st[2]
                elif st[0] == 'f':
                    k += st[3]
                else:
                    ok = False
            if not ok:
                return o, off
            off += k; o = x.a[0]; continue
        return o, off
    return o, off


def r_byte_budget(ck, P, rid, tail=False):
    """T-WID: the byte-counted row loops of the SIMD fill/blt primitives"""
    R = ck.rule(rid, 'in the fill/blt primitives every step that consumes k bytes of the row budget stores at most k bytes from the row cursor and is entered only under budget >= K with K >= k'
                + ('; the steps without an alignment condition go down to the smallest pixel size the primitive accepts, so no byte of the rectangle is left unwritten' if tail else ': nothing is written beyond the right edge of the rectangle'), floor=20)
    slots = slot_functions(P)
    for slot in ('fill', 'blt'):
        for un, f in sorted(slots[slot].items()):
            steps = []
            for b in f.blocks:
                subs = [x for x in b.insts if (x.op == 'sub' and x.a[1][0] == 'c' and x.a[0][0] == 'v') or (x.op == 'add' and x.a[1][0] == 'c' and int(x.a[1][1]) < 0 and x.a[0][0] == 'v')]
                geps = [x for x in b.insts if x.op == 'getelementptr' and x.ty in ('i8*',) and x.a[0][0] == 'v' and f.by_id[x.a[0][1]].op == 'phi']
                for sx in subs:
                    k = int(sx.a[1][1]) if sx.op == 'sub' else -int(sx.a[1][1])
                    Wv = sx.a[0]
                    if f.by_id[Wv[1]].op != 'phi' or k <= 0:
                        continue
                    adv = [g for g in geps if _ptr_off(f, ['v', g.i])[1] == k]
                    if not adv:
                        continue
                    steps.append((b, sx, k, Wv, adv))
            if not steps:
                continue            # pixel-indexed loops (the portable C primitives) have no byte budget
            ck.saw(f)
            unaligned = []
            for b, sx, k, Wv, adv in steps:
                cursors = {tuple(g.a[0]) for g in adv}
                extent = 0; asm = False
                for x in b.insts:
                    ptr = None; size = None
                    if x.op == 'store':
                        ptr = x.a[1]; pt = f.by_id[ptr[1]].ty if ptr[0] == 'v' else None
                        size = _ty_bytes(pt) if pt else None
                    elif x.op == 'call' and x.callee in STORE_HELPERS:
                        ptr = x.a[0]; size = STORE_HELPERS[x.callee]
                    elif x.op == 'call' and x.callee is None and x.d.get('callee') in (None, ['asm']):
                        asm = True; continue
                    elif x.op == 'call' and isinstance(x.callee, str) and x.callee.startswith('llvm.memcpy'):
                        ptr = x.a[0]; size = int(x.a[2][1]) if x.a[2][0] == 'c' else None
                    if ptr is None:
                        continue
                    base, off = _ptr_off(f, ptr)
                    if tuple(base) not in cursors:
                        continue
                    if size is None:
                        ck.incomplete(R, '%s: store of unknown width at %s' % (f.name, x.loc())); continue
                    extent = max(extent, off + size)
                K = None; aligned = False
                for t, s_ in f.guard_edges(b.id):
                    if t.op != 'br' or not t.a:
                        continue
                    conds = [t.a[0]]
                    c0 = f.v(t.a[0])
                    if c0 is not None and c0.op == 'phi' and c0.ty == 'i1':
                        conds = [a for a in c0.a if a[0] == 'v']
                    for co in conds:
                        c, pred, ops = f.cond(co)
                        if c is None or c.op != 'icmp':
                            continue
                        taken_true = t.d['succ'][0] == s_
                        if any(o[0] == 'v' and f.v(o) is not None and f.v(o).op == 'and' and any(a[0] == 'v' and f.v(a) is not None and f.v(a).op == 'ptrtoint' for a in f.v(o).a) for o in ops):
                            # an alignment condition only constrains the step when this edge is the one taken while the cursor is still unaligned
                            if (pred == 'ne') == taken_true and (co is t.a[0] or taken_true):
                                aligned = True
                            continue
                        if ops[0] == list(Wv) and ops[1][0] == 'c' and taken_true:
                            kk = int(ops[1][1])
                            if pred in ('sge', 'uge'):
                                K = max(K or 0, kk)
                            elif pred in ('sgt', 'ugt'):
                                K = max(K or 0, kk + 1)
                # a phi-of-conditions guard (`a && b` lowered to a phi) hides the budget test one block up
                if K is None:
                    for t, s_ in f.guard_edges(b.id):
                        c0 = f.v(t.a[0]) if t.a else None
                        if c0 is not None and c0.op == 'phi' and c0.ty == 'i1':
                            for t2, s2 in f.guard_edges(c0.bb.id) | {(f.blocks[bb].term, c0.bb.id) for bb in c0.d['bb'] if f.blocks[bb].term.a}:
                                c, pred, ops = f.cond(t2.a[0]) if t2.a else (None, None, None)
                                if c is not None and c.op == 'icmp' and ops[0] == list(Wv) and ops[1][0] == 'c' and pred in ('sge', 'uge', 'sgt', 'ugt'):
                                    # only usable if the false edge of that test forces the phi to false
                                    K = max(K or 0, int(ops[1][1]) + (1 if pred.endswith('gt') else 0))
                where = '%s step of %d bytes at %s' % (f.name, k, sx.loc())
                if K is None:
                    ck.violation(R, f.name, 'step of %d bytes without a budget test' % k, '%s consumes %d bytes of the row budget in a step that is not guarded by a test of the remaining byte count' % (f.name, k), sx.loc())
                elif K < k or extent > k:
                    ck.violation(R, f.name, 'step of %d bytes under budget >= %d' % (k, K), '%s enters a step that stores %s and consumes %d bytes when only %d byte(s) of the row are known to remain: it writes past the right edge of the rectangle' % (f.name, ('%d bytes' % extent) if extent else 'through inline assembly', k, K), sx.loc())
                else:
                    ck.ok(R, where, 'stores %s, guard budget >= %d%s' % (('%d bytes' % extent) if not asm else 'via inline assembly', K, ', alignment condition' if aligned else ''))
                if not aligned:
                    unaligned.append(k)
            if tail:
                acc = accept_set(P, f, _bpp_params(f), _ptr_params(f))
                unit = min(acc) // 8 if acc else None
                if unit is None or not unaligned:
                    ck.incomplete(R, '%s: accepted depths or unconditional steps not recognised' % f.name)
                elif min(unaligned) > unit:
                    ck.violation(R, f.name, 'smallest unconditional step', '%s accepts %d bpp (%d-byte pixels) but its smallest step without an alignment condition moves %d bytes: a row whose byte count is not a multiple of %d keeps its last byte(s) unwritten while TRUE is returned' % (f.name, min(acc), unit, min(unaligned), min(unaligned)), '%s:%d' % (f.unit.name, f.line))
                else:
                    ck.ok(R, '%s: smallest unconditional step %d bytes <= smallest accepted pixel %d bytes' % (f.name, min(unaligned), unit))


class _Bits:
    """bit provenance of integer expressions over one parameter: each bit is 0, 1, ('in', k) or None (unknown)"""

    def __init__(self, f, src_arg, reach):
        self.f = f; self.src = src_arg; self.reach = reach; self.memo = {}

    def width(self, ty):
        w = _ty_bytes(ty)
        return w * 8 if w else None

    def const(self, v, w):
        return [(v >> k) & 1 for k in range(w)]

    def ev(self, o, w=None, depth=0):
        f = self.f
        if depth > 60:
            return None
        if o[0] == 'c':
            return self.const(int(o[1]), w or (o[2] if len(o) > 2 else 32))
        if o[0] == 'a':
            if o[1] == self.src:
                return [('in', k) for k in range(32)]
            return None
        if o[0] != 'v':
            return None
        if o[1] in self.memo:
            return self.memo[o[1]]
        x = f.by_id[o[1]]
        self.memo[x.i] = None
        r = self._ev(x, depth)
        self.memo[x.i] = r
        return r

    def _ev(self, x, depth):
        f = self.f
        w = self.width(x.ty)
        op = x.op
        if op == 'phi':
            live = [a for a, bb in zip(x.a, x.d['bb']) if bb in self.reach]
            vals = [self.ev(a, w, depth + 1) for a in live]
            if not vals or any(v is None for v in vals):
                return None
            out = []
            for k in range(len(vals[0])):
                s = {tuple(v[k]) if isinstance(v[k], tuple) else v[k] for v in vals}
                out.append(vals[0][k] if len(s) == 1 else None)
            return out
        if op == 'load' and x.a[0][0] == 'v' and f.by_id[x.a[0][1]].op == 'alloca':
            # a local that is written exactly once (a vector temporary spilled for an asm operand)
            al = f.by_id[x.a[0][1]]
            ptrs = [al] + [y for y in f.users(al) if y.op == 'bitcast']
            sts = [y for p_ in ptrs for y in f.users(p_) if y.op == 'store' and y.a[1] == ['v', p_.i]]
            if len(sts) == 1 and f.dominates(sts[0], x):
                return self.ev(sts[0].a[0], w, depth + 1)
            return None
        if op in ('zext', 'trunc', 'bitcast', 'freeze'):
            v = self.ev(x.a[0], None, depth + 1)
            if v is None or w is None:
                return None
            return (v + [0] * w)[:w]
        if op in ('and', 'or', 'xor', 'shl', 'lshr', 'mul'):
            a = self.ev(x.a[0], w, depth + 1); b = self.ev(x.a[1], w, depth + 1)
            if a is None or b is None or w is None:
                return None
            a = (a + [0] * w)[:w]; b = (b + [0] * w)[:w]
            isc = lambda v: all(q in (0, 1) for q in v)
            num = lambda v: sum(q << k for k, q in enumerate(v))
            if op == 'and':
                return [0 if (p == 0 or q == 0) else q if p == 1 else p if q == 1 else p if p == q else None for p, q in zip(a, b)]
            if op == 'or':
                return [1 if (p == 1 or q == 1) else q if p == 0 else p if q == 0 else p if p == q else None for p, q in zip(a, b)]
            if op == 'xor':
                return [q if p == 0 else p if q == 0 else (1 - q) if (p == 1 and q in (0, 1)) else 0 if (p == q and p is not None and not isinstance(p, tuple)) else None for p, q in zip(a, b)]
            if op in ('shl', 'lshr'):
                if not isc(b):
                    return None
                n = num(b)
                if n >= w:
                    return [0] * w
                return ([0] * n + a)[:w] if op == 'shl' else (a[n:] + [0] * n)
            if op == 'mul':
                if isc(a):
                    a, b = b, a
                if not isc(b):
                    return None
                c = num(b)
                out = [0] * w
                for sh in range(w):
                    if (c >> sh) & 1:
                        cp = ([0] * sh + a)[:w]
                        for k in range(w):
                            if cp[k] == 0:
                                continue
                            if out[k] == 0:
                                out[k] = cp[k]
                            else:
                                # overlapping copies: a sum with possible carries - this bit and everything above it is unknown
                                for k2 in range(k, w):
                                    out[k2] = None
                                break
                return out
        if op == 'call' and x.callee in ('create_mask_2x32_128',):
            hi = self.ev(x.a[0], 32, depth + 1); lo = self.ev(x.a[1], 32, depth + 1)
            if hi is None or lo is None:
                return None
            return (lo + hi) * 2
        if op == 'call' and x.callee in ('_mm_set_epi32',):
            vs = [self.ev(a, 32, depth + 1) for a in x.a[:4]]
            if any(v is None for v in vs):
                return None
            return vs[3] + vs[2] + vs[1] + vs[0]
        if op == 'call' and x.callee in ('_mm_set1_epi32',):
            v = self.ev(x.a[0], 32, depth + 1)
            return v * 4 if v else None
        if op == 'call' and x.callee in ('to_m64', '_mm_cvtsi64_m64', '_mm_cvtsi64_si64'):
            return self.ev(x.a[0], 64, depth + 1)
        return None


def r_fill_word(ck, P, rid):
    """T-BIT: the value the byte-counted fill primitives store is the filler pixel replicated"""
    R = ck.rule(rid, 'for every depth K a SIMD fill primitive accepts, every store of at least K bits in its row loop writes the low K bits of the filler argument replicated (bit j = filler[j mod K]): high bits of the argument never leak into neighbouring pixels', floor=10)
    slots = slot_functions(P)
    for un, f in sorted(slots['fill'].items()):
        fa = [i for i, (pn, pt) in enumerate(f.params) if pn == 'filler']
        bp = _bpp_params(f)
        if not fa or not bp:
            continue
        steps = [x for x in f.insts() if x.op == 'sub' and x.dv == 'w'] + [x for x in f.insts() if x.op == 'add' and x.dv == 'w']
        if not steps:
            continue                       # pixel-indexed portable fills: each store is one pixel of its own type
        ck.saw(f)
        acc = accept_set(P, f, bp, _ptr_params(f))
        for K in sorted(acc):
            reach = specialised_reach(f, {bp[0]: K})
            B = _Bits(f, fa[0], reach)
            reported = set()
            for x in f.insts():
                if x.bb.id not in reach:
                    continue
                val = None
                if x.op == 'store' and x.a[0][0] in ('v', 'a'):
                    pt = f.by_id[x.a[1][1]].ty if x.a[1][0] == 'v' else ''
                    wbytes = _ty_bytes(pt)
                    base, off = _ptr_off(f, x.a[1])
                    if not wbytes or base[0] != 'v' or f.by_id[base[1]].op != 'phi' or not f.by_id[base[1]].ty.endswith('*'):
                        continue
                    # only stores through a row cursor that is rooted at the bits parameter
                    if not any(r[0] == 'arg' and r[1] in _ptr_params(f) for r in common.roots(f, x.a[1])):
                        continue
                    val = x.a[0]; wbits = wbytes * 8
                elif x.op == 'call' and x.callee in STORE_HELPERS:
                    if not any(r[0] == 'arg' and r[1] in _ptr_params(f) for r in common.roots(f, x.a[0])):
                        continue
                    val = x.a[1]; wbits = STORE_HELPERS[x.callee] * 8
                elif x.op == 'call' and x.callee is None and x.d.get('callee') in (None, ['asm']) and x.a and any(r[0] == 'arg' and r[1] in _ptr_params(f) for r in common.roots(f, x.a[0])):
                    # inline assembly storing vector registers at the row cursor: each 64-bit operand it is given must be the replicated filler
                    for o in x.a[1:]:
                        if o[0] != 'v' or _ty_bytes(f.by_id[o[1]].ty) != 8:
                            continue
                        bits = B.ev(o, 64)
                        if bits is None:
                            continue                # values produced by an earlier asm statement are copies the rule cannot see through
                        bits = (bits + [0] * 64)[:64]
                        where = '%s, %d bpp: 64-bit operand of the inline-assembly store at %s' % (f.name, K, x.loc())
                        bad = [j for j in range(64) if bits[j] != ('in', j % K)]
                        if bad and (64, K) not in reported:
                            reported.add((64, K))
                            ck.violation(R, f.name, '64-bit store for %d bpp' % K, '%s at %d bpp hands its inline-assembly block store a 64-bit value whose bit %d is not filler bit %d: the wide middle of a row is filled with a pixel that was not replicated to the depth, while the scalar head and tail use the replicated one' % (f.name, K, bad[0], bad[0] % K), x.loc())
                        elif not bad:
                            ck.ok(R, where)
                    continue
                if val is None or wbits < K:
                    continue
                bits = B.ev(val, wbits)
                where = '%s, %d bpp: %d-bit store at %s' % (f.name, K, wbits, x.loc())
                if bits is None:
                    ck.incomplete(R, '%s: the stored value is not an expression of the filler the rule can follow' % where); continue
                bits = (bits + [0] * wbits)[:wbits]
                bad = [j for j in range(wbits) if bits[j] != ('in', j % K)]
                if bad and (wbits, K) in reported:
                    continue
                if bad:
                    j = bad[0]
                    got = bits[j]
                    reported.add((wbits, K))
                    ck.violation(R, f.name, '%d-bit store for %d bpp' % (wbits, K), '%s at %d bpp stores a %d-bit value whose bit %d is %s, not filler bit %d: bits of the filler argument above the pixel (or a wrong replication) reach the destination' % (f.name, K, wbits, j, 'filler bit %d' % got[1] if isinstance(got, tuple) else 'unknown (two different bits combined)' if got is None else got, j % K), x.loc())
                else:
                    ck.ok(R, where)


def r19_9_delegated_rectangle(ck, P):
    """T-GRD: a fill/blt entry point that hands its rectangle on to a per-depth helper passes the coordinates through unchanged; where it
    rescales one (x >> k: k pixels per word), the low k bits it drops are known to be zero on that path — individually, for every
    coordinate that is rescaled."""
    R = ck.rule('C19-R9', 'wherever a function stored in imp->fill or imp->blt hands its rectangle on to a helper together with the bits pointer, each coordinate argument is either the caller\'s own parameter or that parameter shifted right by k under a guard that establishes, for this parameter by itself, that its low k bits are zero ((p | ...) & mask == 0 or p & mask == 0): a test on the sum of two coordinates does not establish it', floor=25)
    slots = slot_functions(P)
    seen = set()
    for slot in ('fill', 'blt'):
        for un, f in sorted(slots[slot].items()):
            if f in seen:
                continue
            seen.add(f)
            pp = set(_ptr_params(f))
            for c in f.calls():
                g = P.resolve(f, c.callee) if c.callee else None
                if g is None or g.unit is not f.unit:
                    continue
                if not any(any(r[0] == 'arg' and r[1] in pp for r in common.roots(f, a)) for a in c.a if a and a[0] in ('v', 'a')):
                    continue
                ck.saw(f)
                bad = None; n = 0
                for k_, a in enumerate(c.a):
                    x = f.v(a)
                    while x is not None and x.op in ('sext', 'zext', 'trunc'):
                        a = x.a[0]; x = f.v(a)
                    if x is None or x.op not in ('ashr', 'lshr', 'sdiv', 'udiv') or x.a[1][0] != 'c':
                        continue
                    src = x.a[0]; y = f.v(src)
                    while y is not None and y.op in ('sext', 'zext', 'trunc'):
                        src = y.a[0]; y = f.v(src)
                    if src[0] != 'a':
                        continue
                    kk = int(x.a[1][1]); lost = ((1 << kk) - 1) if x.op in ('ashr', 'lshr') else None
                    if lost is None:
                        lost = kk - 1 if kk & (kk - 1) == 0 else None
                    if not lost:
                        continue
                    n += 1
                    # guards on the way to the call
                    ok = False
                    def or_tree_has(o, d=0):
                        if d > 8:
                            return False
                        z = f.v(o)
                        if o == src:
                            return True
                        if z is None:
                            return False
                        if z.op in ('sext', 'zext', 'trunc'):
                            return or_tree_has(z.a[0], d + 1)
                        if z.op == 'or':
                            return or_tree_has(z.a[0], d + 1) or or_tree_has(z.a[1], d + 1)
                        return False
                    for t_, s in f.guard_edges(c.bb.id):
                        cc = f.v(t_.a[0]) if t_.a else None
                        if cc is None or cc.op != 'icmp' or cc.d['p'] not in ('eq', 'ne'):
                            continue
                        taken = t_.d['succ'][0] == s
                        if (cc.d['p'] == 'eq') != taken:
                            continue
                        zero = [o for o in cc.a if o[0] == 'c' and int(o[1]) == 0]
                        other = [o for o in cc.a if not (o[0] == 'c' and int(o[1]) == 0)]
                        if not zero or len(other) != 1:
                            continue
                        m = f.v(other[0])
                        if m is None or m.op != 'and':
                            continue
                        for e, mk in ((m.a[0], m.a[1]), (m.a[1], m.a[0])):
                            if mk[0] == 'c' and int(mk[1]) & lost == lost and or_tree_has(e):
                                ok = True
                    if not ok:
                        bad = (k_, src, kk)
                where = '%s -> %s at %s' % (f.name, g.name, c.loc())
                if bad:
                    k_, src, kk = bad
                    ck.violation(R, f.name, 'call of %s' % g.name, '%s passes %s >> %d to %s as argument %d but no guard on that path establishes that the low %d bit(s) of %s itself are zero: for the other values the rectangle handed on starts before / ends before the one requested, so pixels outside it are written and pixels inside it are not, while success is returned' % (f.name, f.params[src[1]][0] or 'parameter %d' % src[1], kk, g.name, k_, kk, f.params[src[1]][0] or 'the parameter'), c.loc())
                else:
                    ck.ok(R, where, '%d rescaled coordinate(s), each guarded' % n if n else 'coordinates handed on unchanged')


def r19_12_stride_pairs_with_its_buffer(ck, P):
    """sibling agreement inside blt: the start address of each buffer is bits + stride * y + x with the stride and the coordinates that
    belong to that buffer (src_* with src_*, dst_* / dest_* with dst_*)."""
    R = ck.rule('C19-R12', 'in every function stored in imp->blt, each product of a row stride with a y coordinate pairs the source stride with the source y and the destination stride with the destination y, and the product is added to the buffer of the same side: a start address computed with the other buffer\'s stride lands in the wrong rows whenever the two strides differ', floor=8)
    slots = slot_functions(P)
    def side(nm):
        nm = nm or ''
        return 's' if nm.startswith('src') else 'd' if nm.startswith(('dst', 'dest')) else None
    n = 0
    for un, f in sorted(slots['blt'].items()):
        pn = [p[0] for p in f.params]
        def param_of(o, d=0):
            y = f.v(o)
            if o[0] == 'a':
                return pn[o[1]]
            if y is None or d > 6:
                return None
            if y.op in ('sext', 'zext', 'trunc', 'mul', 'shl', 'sdiv', 'udiv', 'ashr', 'lshr') :
                # scaled strides (stride * 4 / 2 ...): keep following the non-constant operand
                nc = [a for a in y.a if a[0] != 'c']
                if len(nc) == 1:
                    return param_of(nc[0], d + 1)
                return None
            if y.op == 'phi':
                rs = {param_of(a, d + 1) for a in y.a}
                rs.discard(None)
                return rs.pop() if len(rs) == 1 else None
            return None
        for x in f.insts():
            if x.op != 'mul':
                continue
            a, b = param_of(x.a[0]), param_of(x.a[1])
            if not a or not b:
                continue
            st, yy = (a, b) if 'stride' in a else (b, a) if 'stride' in b else (None, None)
            if st is None or not yy.endswith('_y'):
                continue
            n += 1; ck.saw(f)
            where = '%s: %s * %s at %s' % (f.name, st, yy, x.loc())
            if side(st) != side(yy):
                ck.violation(R, f.name, 'row offset at %s' % x.loc(), '%s multiplies %s by %s: the row offset of one buffer is computed with the stride of the other, so for images of different strides the rectangle is read from / written to the wrong rows while TRUE is returned' % (f.name, st, yy), x.loc())
                continue
            # the buffer the offset is added to
            bad = None
            seen = set(); work = [x]
            while work:
                q = work.pop()
                for z in f.users(q):
                    if z.i in seen:
                        continue
                    seen.add(z.i)
                    if z.op == 'getelementptr':
                        r = f.root(f.path(z.a[0]))
                        base = pn[r[1]] if r[0] == 'arg' else None
                        if base and side(base) and side(base) != side(st):
                            bad = (z, base)
                    elif z.op in ('sext', 'zext', 'add', 'sub', 'mul', 'shl', 'trunc'):
                        work.append(z)
            if bad:
                z, base = bad
                ck.violation(R, f.name, 'row offset at %s' % z.loc(), '%s adds %s * %s to %s: the offset computed for one buffer is applied to the other' % (f.name, st, yy, base), z.loc())
            else:
                ck.ok(R, where)
    if n == 0:
        ck.incomplete(R, 'no stride * y product found in the blt functions')


def _bases(f, o, seen=None):
    """outermost bases (loads kept) a pointer may derive from, through phi and select"""
    seen = set() if seen is None else seen
    b = f.path(o)[0]
    if b[0] in ('phi', 'select'):
        if b[1] in seen:
            return set()
        seen.add(b[1])
        x = f.by_id[b[1]]
        out = set()
        for a in (x.a if x.op == 'phi' else x.a[1:]):
            out |= _bases(f, a, seen)
        return out
    return {b}


def _through_field(base, field):
    """does the (nested) access path behind a root go through a load of `field`?"""
    while base and base[0] == 'load':
        b, fl = base[1]
        if fl and fl[-1] == field:
            return True
        base = b
    return False


def r19_13_shortcut_needs_plain_destination(ck, P, rid='C19-R13'):
    """T-GRD: an exported drawing entry point that has the general route (it composites into its destination parameter) and, on another
    branch, a shortcut that writes the destination's storage without compositing, takes the shortcut only for a destination whose pixels
    are all in that storage: no alpha map; and, where the shortcut is handed the raw bits pointer, no read/write accessors either."""
    R = ck.rule(rid, 'in every exported function that composites into an image parameter D (pixman_image_composite32 / pixman_image_composite) and on another branch writes D directly (hands D->bits.bits to pixman_fill / pixman_blt, or D to a function that stores into image storage without compositing), the direct branch is guarded by D->common.alpha_map == NULL and D->bits.dither == PIXMAN_DITHER_NONE, and a raw-pointer shortcut also by D->bits.read_func == NULL and D->bits.write_func == NULL: an alpha map holds the destination\'s alpha channel, dithering happens only in the wide write-back, and accessors are the only way its pixels may be touched', floor=2)
    GEN = ('pixman_image_composite32', 'pixman_image_composite')
    RAW = ('pixman_fill', 'pixman_blt', '_pixman_implementation_fill', '_pixman_implementation_blt')
    # W: functions that store into an image's pixel storage themselves
    direct = set()
    for g in P.functions():
        for x in g.insts():
            if x.op == 'store':
                if any(_through_field(r, 'bits_image.bits') for r in _bases(g, x.a[1])):
                    direct.add(g); break
            elif x.op == 'call' and x.callee is None and 'callee' in x.d:
                if g.last_field(g.path(x.d['callee'])) == 'bits_image.write_func':
                    direct.add(g); break
    cg = P.callgraph()
    memo = {}
    def writes_directly(g):
        if g in memo:
            return memo[g]
        seen = set(); work = [g]; hit = False; general = False
        while work:
            h = work.pop()
            if h in seen:
                continue
            seen.add(h)
            if h.name in GEN:
                general = True; continue
            if h in direct:
                hit = True
            work.extend(cg.get(h, ()))
        memo[g] = hit and not general
        return memo[g]
    def null_facts(f, blockid, root):
        out = set()
        for t, s in f.guard_edges(blockid):
            if not t.a:
                continue
            x, p, ops = f.cond(t.a[0])
            if x is None:
                continue
            taken = t.d['succ'][0] == s
            if x.op == 'icmp' and p in ('eq', 'ne'):
                isnull = [o for o in ops if o[0] == 'n' or (o[0] == 'c' and int(o[1]) == 0)]
                other = [o for o in ops if o not in isnull]
                if not isnull or len(other) != 1 or (p == 'eq') != taken:
                    continue
                o = other[0]
            elif p in ('is', 'not') and (p == 'not') == taken:
                o = ops[0]
            else:
                continue
            y = f.v(o)
            while y is not None and y.op in ('ptrtoint', 'bitcast', 'zext', 'sext'):
                y = f.v(y.a[0])
            if y is not None and y.op == 'load' and f.root(f.path(y.a[0])) == root:
                out.add(f.last_field(f.path(y.a[0])))
        return out
    n = 0
    for f in P.functions():
        if not f.exported:
            continue
        dests = set()
        for c in f.calls():
            if c.callee in GEN:
                g = P.resolve(f, c.callee)
                for k, a in enumerate(c.a):
                    nm = g.params[k][0] if g and k < len(g.params) else ''
                    if nm and nm.startswith(('dest', 'dst')) and a[0] in ('a', 'v'):
                        dests.add(f.root(f.path(a)))
        dests = {r for r in dests if r[0] == 'arg'}
        if not dests:
            continue
        for c in f.calls():
            if c.callee in GEN or not c.callee:
                continue
            g = P.resolve(f, c.callee)
            if g is None:
                continue
            for a in c.a:
                if not a or a[0] not in ('a', 'v'):
                    continue
                pth = f.path(a); root = f.root(pth)
                if root not in dests:
                    continue
                y = f.v(a)
                raw = c.callee in RAW and y is not None and y.op == 'load' and f.last_field(f.path(y.a[0])) == 'bits_image.bits'
                whole = (a[0] == 'a' or not pth[1]) and writes_directly(g)
                if not raw and not whole:
                    continue
                n += 1; ck.saw(f)
                need = {'image_common.alpha_map', 'bits_image.dither'} | ({'bits_image.read_func', 'bits_image.write_func'} if raw else set())
                have = null_facts(f, c.bb.id, root)
                where = '%s: %s at %s' % (f.name, c.callee, c.loc())
                miss = sorted(need - have)
                if miss:
                    ck.violation(R, f.name, 'direct write through %s' % c.callee, '%s has the general route (it composites into %s) but on this branch hands %s to %s, which writes the image\'s own storage, without having established that %s is NULL: %s' % (f.name, f.params[root[1]][0], 'the raw bits pointer' if raw else 'the image', c.callee, ' / '.join(miss), 'an image with an alpha map keeps its alpha channel in the map, so the two routes give different pictures' if miss == ['image_common.alpha_map'] else 'a dithered image gets its noise only from the wide write-back of the compositing route' if miss == ['bits_image.dither'] else 'an image with accessors may be touched only through them, one with an alpha map keeps its alpha channel in the map, and a dithered one is dithered only by the compositing route'), c.loc())
                else:
                    ck.ok(R, where, 'guarded by NULL tests of %s' % ', '.join(sorted(need)))
                break
    if n == 0:
        raise AnalysisBroken('%s: no exported function with both a compositing route and a direct-write shortcut found' % rid)


def r_same_storage_needs_same_stride(ck, P, rid='C02-R22'):
    """belief rule: code that acts on 'these two images are the same pixels' (their bits pointers compare equal) relies on every row
    coinciding, not only the first: the row strides are compared on the same path."""
    R = ck.rule(rid, 'wherever the library compares the bits pointers of two different images for equality and acts on the outcome (pixbuf detection: colour and alpha of one buffer), every block that runs only when they are equal also runs only when the two rowstrides are equal: two images over one buffer with different strides share their first row only', floor=1)
    n = 0; reported = set()
    def two_image_loads(f, x, field):
        if x is None or x.op != 'icmp' or x.d['p'] not in ('eq', 'ne'):
            return None
        ys = [f.v(a) for a in x.a]
        if any(y is None or y.op != 'load' or f.last_field(f.path(y.a[0])) != field for y in ys):
            return None
        rs = [f.root(f.path(y.a[0])) for y in ys]
        return frozenset(rs) if rs[0] != rs[1] else None
    for f in P.functions():
        tests = {}
        for b in f.blocks:
            t = b.term
            if t.op != 'br' or not t.a:
                continue
            x, p, ops = f.cond(t.a[0])
            for fld in ('bits_image.bits', 'bits_image.rowstride'):
                pr = two_image_loads(f, x, fld)
                if pr and p in ('eq', 'ne'):
                    tests[t.i] = (fld, pr, t.d['succ'][0] if p == 'eq' else t.d['succ'][1], x)
        ptr_tests = {k: v for k, v in tests.items() if v[0] == 'bits_image.bits'}
        if not ptr_tests:
            continue
        for b in f.blocks:
            ge = f.guard_edges(b.id)
            for t, s in ge:
                if t.i not in ptr_tests or ptr_tests[t.i][2] != s:
                    continue
                acts = b.term.op != 'br' or not b.term.a or any(q.op in ('store', 'call') for q in b.insts)
                if not acts:
                    continue
                pr = ptr_tests[t.i][1]; x = ptr_tests[t.i][3]
                n += 1; ck.saw(f)
                ok = any(t2.i in tests and tests[t2.i][0] == 'bits_image.rowstride' and tests[t2.i][1] == pr and tests[t2.i][2] == s2 for t2, s2 in ge)
                where = '%s: block at %s under the pointer test at %s' % (f.name, b.term.loc(), x.loc())
                if ok:
                    ck.ok(R, where)
                elif (f.name, t.i) not in reported:
                    reported.add((f.name, t.i))
                    ck.violation(R, f.name, 'same-buffer test at %s' % x.loc(), '%s treats two images as the same pixels because their bits pointers are equal (%s) and acts on it at %s, but no test on that path establishes that their rowstrides are equal: with different strides only the first row coincides, and the code that takes both colour and alpha from one image reads the alpha of the wrong pixels for every other row' % (f.name, x.loc(), b.term.loc()), x.loc())
    if n == 0:
        raise AnalysisBroken('%s: no comparison of two images\' bits pointers found (pixbuf detection)' % rid)


def r_wide_only_properties_reach_the_flags(ck, P, rid='C02-R24'):
    """T-AGR between the general path and the flag computation: an image field other than the flags word that makes general_composite_rect
    leave the narrow pipeline (bits.dither: dithering happens in the wide write-back) must be visible to the fast-path selection, which
    looks at flags only - the flag computation clears a flag every destination fast path requires when that field is set."""
    from .. import consts
    R = ck.rule(rid, 'every field of a bits image, other than the flags word, that general_composite_rect tests before it chooses the narrow pipeline (bits.dither) is also tested by the function that computes image_common.flags, and on the path where it is set a flag of FAST_PATH_STD_DEST_FLAGS is cleared: otherwise every whole-operation fast path is still selected for such a destination and draws without what only the wide pipeline does', floor=1)
    C = consts.fast_path_flags()
    STD = C['FAST_PATH_STD_DEST_FLAGS']
    IT = P.enum('iter_flags_t')
    g = P.fn('general_composite_rect', required=False)
    if g is None:
        raise AnalysisBroken('%s: general_composite_rect not found' % rid)
    fields = set()
    for x in g.insts():
        if x.op != 'phi':
            continue
        cs = {int(a[1]) for a in x.a if a[0] == 'c'}
        if not ({IT['ITER_NARROW'], IT['ITER_WIDE']} <= cs):
            continue
        for a, bb in zip(x.a, x.d['bb']):
            if a[0] == 'c' and int(a[1]) == IT['ITER_NARROW']:
                for t, s_ in g.guard_edges(bb):
                    if t.a:
                        fields |= {q[1] for q in g.atoms(t.a[0]) if q[0] == 'field' and q[1].startswith('bits_image.') and q[1] != 'bits_image.common'}
    fields -= {'bits_image.type', 'bits_image.format'}
    if not fields:
        raise AnalysisBroken('%s: no non-flag field tested by general_composite_rect for the choice of the narrow pipeline' % rid)
    f = None
    for h in P.functions():
        if any(x.op == 'store' and h.last_field(h.path(x.a[1])) == 'image_common.flags' for x in h.insts()) and any(x.op == 'store' and h.last_field(h.path(x.a[1])) == 'image_common.extended_format_code' for x in h.insts()):
            f = h
    if f is None:
        raise AnalysisBroken('%s: the function that computes image_common.flags was not found' % rid)
    ck.saw(f); ck.saw(g)
    for fld in sorted(fields):
        ok = False
        for x in f.insts():
            if x.op != 'and' or not any(a[0] == 'c' for a in x.a):
                continue
            mask = [int(a[1]) for a in x.a if a[0] == 'c'][0] & 0xffffffff
            cleared = ~mask & 0xffffffff
            if not (cleared & STD) or bin(cleared).count('1') > 4:          # flags &= ~(a few flag bits), not a field mask
                continue
            for t, s_ in f.guard_edges(x.bb.id):
                if not t.a:
                    continue
                c, p, ops = f.cond(t.a[0])
                if c is None:
                    continue
                zs = [f.v(f.strip_casts(o)) for o in ops]
                if not any(z is not None and z.op == 'load' and f.last_field(f.path(z.a[0])) == fld for z in zs):
                    continue
                if p in ('eq', 'ne') and any(o[0] == 'c' and int(o[1]) == 0 for o in ops):
                    if (p == 'ne') == (t.d['succ'][0] == s_):
                        ok = True
                elif p in ('is', 'not') and (p == 'is') == (t.d['succ'][0] == s_):
                    ok = True
        where = '%s: %s (tested by general_composite_rect)' % (f.name, fld)
        if ok:
            ck.ok(R, where, 'a FAST_PATH_STD_DEST_FLAGS bit is cleared when it is set')
        else:
            ck.violation(R, f.name, 'flags ignore %s' % fld, 'general_composite_rect leaves the narrow pipeline when %s is set, but %s clears no flag of FAST_PATH_STD_DEST_FLAGS on a path guarded by that field: the fast-path tables look at the flags only, so a whole-operation fast path is chosen for such a destination and the result differs from the general path (a dithered destination is drawn without dithering)' % (fld, f.name), '%s:%d' % (f.unit.name, f.line))


def r19_14_direct_fill_passes_the_image_bounds(ck, P, rid='C19-R14'):
    """T-ORD (must-pass-through): a function that hands an image's raw bits pointer to pixman_fill / pixman_blt fills rectangles taken from
    a region; every path to that call goes through the intersection of the region with the image's own rectangle (0, 0, width, height) -
    whether or not there is a clip: a clip need not lie inside the image."""
    R = ck.rule(rid, 'in every exported function that hands D->bits.bits to pixman_fill / pixman_blt, each path from the entry to that call passes through a call that intersects the region being filled with the rectangle (0, 0, D->bits.width, D->bits.height): the image bounds hold on the clipped path as well as on the unclipped one, since a client clip may reach beyond the image', floor=1)
    RAW = ('pixman_fill', 'pixman_blt', '_pixman_implementation_fill', '_pixman_implementation_blt')
    n = 0
    for f in P.functions():
        if not f.exported:
            continue
        for c in f.calls():
            if c.callee not in RAW:
                continue
            bits = None
            for a in c.a:
                y = f.v(a) if a and a[0] == 'v' else None
                if y is not None and y.op == 'load' and f.last_field(f.path(y.a[0])) == 'bits_image.bits':
                    bits = f.root(f.path(y.a[0]))
            if bits is None or bits[0] != 'arg':
                continue
            n += 1; ck.saw(f)
            def bounds_call(x):
                if x.op != 'call' or not x.callee or not x.callee.endswith('intersect_rect'):
                    return False
                flds = set()
                for a in x.a:
                    y = f.v(f.strip_casts(a)) if a and a[0] == 'v' else None
                    if y is not None and y.op == 'load' and f.root(f.path(y.a[0])) == bits:
                        flds.add(f.last_field(f.path(y.a[0])))
                return {'bits_image.width', 'bits_image.height'} <= flds
            first = f.blocks[0].insts[0]
            hit = f.reach_avoiding(first, bounds_call, lambda x: x is c)
            where = '%s: %s at %s' % (f.name, c.callee, c.loc())
            if hit is None:
                ck.ok(R, where, 'the region is intersected with the image rectangle on every path')
            else:
                ck.violation(R, f.name, 'direct fill without the image bounds', '%s can reach %s (%s) along a path that does not intersect the fill region with the rectangle of the image (0, 0, width, height): with a clip that reaches beyond the image (pixman_image_set_clip_region does not trim it) and a box that does too, rows and columns outside the image are written' % (f.name, c.callee, c.loc()), c.loc())
    if n == 0:
        raise AnalysisBroken('%s: no exported function handing an image\'s bits to pixman_fill / pixman_blt found' % rid)


def r_same_storage_needs_same_offsets(ck, P, rid='C09-R13'):
    """belief rule, second clause of C02-R22: 'source and mask are one buffer holding colour and alpha' is acted upon (the formats are
    renamed to the pixbuf pseudo-formats, whose fast paths take alpha from the *source* pixel) only where both are read at the same
    position: the x offsets and the y offsets of the two images are compared on the same path."""
    R = ck.rule(rid, 'every block that runs only when the bits pointers of two different images are equal, and that stores or calls, also runs only when the request reads both at the same offsets: two equality tests between integer parameters of the function, one for the x and one for the y offsets (src_x == mask_x, src_y == mask_y): otherwise the pixbuf fast paths take the alpha of source pixel (x, y) - the undefined byte of an x8b8g8r8 view - where the mask pixel at its own offset was asked for', floor=1)
    n = 0; reported = set()
    for f in P.functions():
        ptr_tests = {}
        for b in f.blocks:
            t = b.term
            if t.op != 'br' or not t.a:
                continue
            x, p, ops = f.cond(t.a[0])
            if x is None or x.op != 'icmp' or p not in ('eq', 'ne'):
                continue
            ys = [f.v(a) if a[0] == 'v' else None for a in x.a]
            if any(y is None or y.op != 'load' or f.last_field(f.path(y.a[0])) != 'bits_image.bits' for y in ys):
                continue
            if f.root(f.path(ys[0].a[0])) == f.root(f.path(ys[1].a[0])):
                continue
            ptr_tests[t.i] = (t.d['succ'][0] if p == 'eq' else t.d['succ'][1], x)
        if not ptr_tests:
            continue
        for b in f.blocks:
            ge = f.guard_edges(b.id)
            for t, s in ge:
                if t.i not in ptr_tests or ptr_tests[t.i][0] != s:
                    continue
                if not (b.term.op != 'br' or not b.term.a or any(q.op in ('store', 'call') for q in b.insts)):
                    continue
                x = ptr_tests[t.i][1]
                n += 1; ck.saw(f)
                axes = set()
                for t2, s2 in ge:
                    if t2.op != 'br' or not t2.a:
                        continue
                    c, p, ops = f.cond(t2.a[0])
                    if c is None or c.op != 'icmp' or p not in ('eq', 'ne') or len(ops) != 2:
                        continue
                    if (p == 'eq') != (t2.d['succ'][0] == s2):
                        continue
                    o0, o1 = f.strip_casts(ops[0]), f.strip_casts(ops[1])
                    if o0[0] == 'a' and o1[0] == 'a' and o0[1] != o1[1]:
                        n0, n1 = f.params[o0[1]][0] or '', f.params[o1[1]][0] or ''
                        for ax in ('x', 'y'):
                            if n0.endswith('_' + ax) and n1.endswith('_' + ax):
                                axes.add(ax)
                where = '%s: block at %s under the pointer test at %s' % (f.name, b.term.loc(), x.loc())
                if axes == {'x', 'y'}:
                    ck.ok(R, where, 'x and y offsets compared')
                elif (f.name, t.i) not in reported:
                    reported.add((f.name, t.i))
                    ck.violation(R, f.name, 'same-buffer test at %s without equal offsets' % x.loc(), '%s acts on "both images are the same buffer" (%s) at %s without having compared the %s offsets of the two images: read at different positions, the mask pixel is not the source pixel, and the pixbuf fast paths, which take colour and alpha from the source pixel, composite with the wrong alpha' % (f.name, x.loc(), b.term.loc(), ' and '.join(sorted({'x', 'y'} - axes))), x.loc())
    if n == 0:
        raise AnalysisBroken('%s: no comparison of two images\' bits pointers found (pixbuf detection)' % rid)


def r_box32_coordinates_not_narrowed(ck, P, rid='C19-R16'):
    """T-WID across a call: rectangles given as pixman_box32_t are 32-bit; the 16-bit entry points of the library (pixman_image_composite,
    the region16 API) are for callers that have 16-bit data.  Inside the library a coordinate loaded from a 32-bit box is never
    truncated to 16 bits, except by the one function whose purpose is the conversion (it stores into pixman_box16_t)."""
    R = ck.rule(rid, 'no value computed from the fields of a pixman_box32_t is truncated to 16 bits (as an argument of a 16-bit entry point or otherwise), except in the function that converts a 32-bit region into a 16-bit one: pixman_image_fill_boxes hands its boxes to the compositor at full width - through pixman_image_composite a box {0, 0, 65536, 65536} would draw nothing and {5, -20000, 50, 50000} would end above the image, while the direct-fill shortcut honours them', floor=1)
    n = 0; users32 = 0
    for f in P.functions():
        conv = any(x.op == 'store' and (f.last_field(f.path(x.a[1])) or '').startswith('pixman_box16.') for x in f.insts())
        for x in f.insts():
            if x.op == 'load' and (f.last_field(f.path(x.a[0])) or '').startswith('pixman_box32.'):
                users32 += 1
            if x.op != 'trunc' or x.ty not in ('i16', 'i8'):
                continue
            if not any(a[0] == 'field' and a[1].startswith('pixman_box32.') for a in f.atoms(x.a[0])):
                continue
            n += 1; ck.saw(f)
            where = '%s: truncation at %s' % (f.name, x.loc())
            if conv:
                ck.ok(R, where, 'the 32-to-16-bit region conversion')
            else:
                ck.violation(R, f.name, 'box32 coordinate truncated to %s' % x.ty, '%s truncates a value computed from a pixman_box32_t field to %s (%s): coordinates and extents beyond the 16-bit range are taken modulo 65536, the box is drawn elsewhere or not at all, and the result no longer equals compositing the solid colour over the box' % (f.name, x.ty, x.loc()), x.loc())
    if users32 < 50:
        raise AnalysisBroken('%s: only %d loads of pixman_box32_t fields seen' % (rid, users32))
    if n == 0:
        raise AnalysisBroken('%s: the 32-to-16-bit conversion (positive example) was not seen' % rid)


def r_dst_operator_never_dispatched(ck, P, rid='C02-R31'):
    """T-GRD: the operator DST (keep the destination) is implemented by a no-op routine of one implementation; when that routine is
    disabled (PIXMAN_DISABLE=wholeops) a lookup of DST falls through to the general path, which fetches the destination and stores it
    back - not the identity for an indexed or otherwise lossy format.  The entry point therefore never looks DST up."""
    R = ck.rule(rid, 'in pixman_image_composite32 the lookup of a composite routine is reached only when the (optimised) operator has been compared with PIXMAN_OP_DST and found different: under PIXMAN_DISABLE=wholeops DST onto a c8 destination with a non-invertible palette otherwise goes through fetch and store of the general path and changes the indices (0001 0004 0007 ... becomes 0000 0000 0000 ...), while every other configuration leaves the destination alone', floor=1)
    DST = P.enum('pixman_op_t').get('PIXMAN_OP_DST')
    if DST is None:
        raise AnalysisBroken('%s: PIXMAN_OP_DST not found' % rid)
    n = 0
    for f in common.public_api(P):
        for c in f.calls():
            if not (isinstance(c.callee, str) and c.callee == '_pixman_implementation_lookup_composite'):
                continue
            V = f.strip_casts(c.a[1])
            y = f.v(V) if V[0] == 'v' else None
            # the operator looked up: the optimiser's result, directly or through the field of the local request structure it was stored in
            vpath = f.path(y.a[0]) if y is not None and y.op == 'load' else None
            if y is None or not (y.op == 'call' or (vpath is not None and vpath[0][0] == 'alloca')):
                continue
            def same(o):
                o = f.strip_casts(o)
                if list(o) == list(V):
                    return True
                q = f.v(o) if o[0] == 'v' else None
                return vpath is not None and q is not None and q.op == 'load' and f.path(q.a[0]) == vpath
            n += 1; ck.saw(f)
            ok = False
            for t, s in f.guard_edges(c.bb.id):
                if t.op != 'br' or not t.a:
                    continue
                cc, p, ops = f.cond(t.a[0])
                if cc is None or cc.op != 'icmp' or p not in ('eq', 'ne') or len(ops) != 2:
                    continue
                eff = p if t.d['succ'][0] == s else f.INV.get(p, p)
                if eff == 'ne' and any(same(o) for o in ops) and any(o[0] == 'c' and int(o[1]) == DST for o in ops):
                    ok = True
            where = '%s: lookup at %s' % (f.name, c.loc())
            if ok:
                ck.ok(R, where, 'never for DST')
            else:
                ck.violation(R, f.name, 'DST looked up like any operator', '%s looks a composite routine up for whatever operator the optimiser returned (%s), DST included: with the whole-operation no-op routine disabled the general path fetches the destination and stores it back, which is not the identity for indexed (and other lossy) destination formats - the destination differs from what every other implementation leaves' % (f.name, c.loc()), c.loc())
    if n == 0:
        raise AnalysisBroken('%s: no lookup of an optimised operator found' % rid)


def r_rectangles_taken_after_the_last_intersection(ck, P, rid='C03-R18'):
    """T-ORD: pixman_region32_rectangles hands out a pointer into the region (its extents for a single rectangle, its data block otherwise)
    together with a count.  Any later operation on the region may free that block or change the count: the list is taken after the last
    intersection, never before one."""
    R = ck.rule(rid, 'in every exported drawing function that intersects a local region and then walks its rectangles, no path leads from the call that takes the rectangle list (pixman_region32_rectangles on that region) to a later intersection of the same region: a list taken before the clip was applied is the unclipped one - for several boxes a freed array, for one box with a multi-rectangle clip the bounding box, gaps included', floor=1)
    n = 0
    for f in common.public_api(P):
        for c in f.calls():
            if not (isinstance(c.callee, str) and c.callee in ('pixman_region32_rectangles', 'pixman_region_rectangles')):
                continue
            reg = f.root(f.path(c.a[0]))
            if reg[0] != 'alloca':
                continue
            def later_intersection(q):
                return q.op == 'call' and isinstance(q.callee, str) and 'intersect' in q.callee and q.a and f.root(f.path(q.a[0])) == reg
            if not any(later_intersection(q) for q in f.insts()):
                continue
            n += 1; ck.saw(f)
            hit = f.reach_avoiding(c, lambda q: False, later_intersection)
            where = '%s: rectangle list taken at %s' % (f.name, c.loc())
            if hit is None:
                ck.ok(R, where, 'after the last intersection')
            else:
                ck.violation(R, f.name, 'rectangle list taken before an intersection', '%s takes the rectangle list of its local region (%s) and intersects the region afterwards (%s): the list that is then walked is the one from before the intersection - pixels outside the destination clip are filled, or a freed array is read' % (f.name, c.loc(), hit.loc()), c.loc())
    if n == 0:
        raise AnalysisBroken('%s: no exported function takes the rectangles of a local region it intersects' % rid)


def r_fill_returns_true_only_after_drawing(ck, P, rid='C19-R18'):
    """Must-pass-through: pixman_image_fill_boxes answers TRUE for 'the boxes have been drawn as compositing the colour would draw them'.
    Every path to that answer has set up one of the two ways of drawing - the region of the direct fill or the solid image of the general
    route.  A shortcut that decides 'this colour changes nothing' from the colour packed to 8 bits per channel returns without either,
    although destinations with wider channels do change."""
    R = ck.rule(rid, 'in pixman_image_fill_boxes every path to a return of a non-zero value passes the construction of the fill region (pixman_region32_init_rects) or of the solid image (pixman_image_create_solid_fill): no verdict "nothing to draw" is reached from the operator and the colour alone', floor=1)
    fs = [f for f in P.functions() if f.name == 'pixman_image_fill_boxes']
    if not fs:
        raise AnalysisBroken('%s: pixman_image_fill_boxes not found' % rid)
    n = 0
    for f in fs:
        setup = {c.bb.id for c in f.calls() if isinstance(c.callee, str) and c.callee in ('pixman_region32_init_rects', 'pixman_image_create_solid_fill')}
        if not setup:
            raise AnalysisBroken('%s: neither way of drawing found in pixman_image_fill_boxes' % rid)
        rets = f.rets()
        rv = f.v(rets[0].a[0]) if len(rets) == 1 and rets[0].a and rets[0].a[0][0] == 'v' else None
        if rv is None or rv.op != 'phi':
            raise AnalysisBroken('%s: unexpected return shape of pixman_image_fill_boxes' % rid)
        for a, bb in zip(rv.a, rv.d['bb']):
            if a[0] == 'c' and int(a[1]) == 0:
                continue
            n += 1; ck.saw(f)
            # "no boxes at all" is a legitimate reason to report success without drawing: such a return is guarded by a comparison of
            # the box count with a constant
            nb = [i for i, (nm, ty) in enumerate(f.params) if ty == 'i32' and 'box' in (nm or '')]
            edges_ = set(f.guard_edges(bb))
            tt = f.blocks[bb].term
            if tt.op == 'br' and tt.a and len(set(tt.d['succ'])) == 2:
                edges_.add((tt, rv.bb.id))
            if any(t2.a and any(list(f.strip_casts(o)) == ['a', k] for k in nb for o in (f.cond(t2.a[0])[2] or [])) and any(o[0] == 'c' and int(o[1]) in (0, 1) for o in (f.cond(t2.a[0])[2] or [])) for t2, s2 in edges_):
                ck.ok(R, '%s: non-zero return from block %d (no boxes)' % (f.name, bb)); continue
            # is bb reachable from the entry without passing a setup block?
            seen = set(); work = [0]; hit = False
            while work:
                b = work.pop()
                if b in seen or b in setup:
                    continue
                seen.add(b)
                if b == bb:
                    hit = True; break
                work.extend(f.blocks[b].succ)
            where = '%s: non-zero return from block %d' % (f.name, bb)
            if not hit:
                ck.ok(R, where, 'after one of the drawing routes was set up')
            else:
                ck.violation(R, f.name, 'success without drawing', '%s can return success from the block ending at %s without having built either the fill region or the solid image: whatever test leads there decides that nothing needs drawing before any drawing route has seen the request, e.g. from the colour rounded to 8 bits per channel, which is not zero for a 10-bit or float destination' % (f.name, f.blocks[bb].term.loc()), f.blocks[bb].term.loc())
    if n == 0:
        raise AnalysisBroken('%s: no success return found in pixman_image_fill_boxes' % rid)


def r_fill_rows_are_separate(ck, P, rid='C03-R20'):
    """T-DEP: the C fill routines write `width` pixels in each of `height` rows that lie `stride` apart; what is between the end of a row
    and the start of the next (padding, or other pixels of a wider bitmap) is not theirs.  The number of pixels written in one run is the
    width parameter: never a product with the height or the stride."""
    R = ck.rule(rid, 'in the C fill routines (pixman_fill8 / 16 / 32 and the 1-bpp line filler) no multiplication has the height parameter as a factor: the rows are filled one by one, `width` pixels each; a run of stride * height pixels "because the rows are contiguous" overwrites the padding at the end of every row whenever the stride rounds the width up (an odd width at 16 bpp)', floor=3)
    n = 0
    for f in P.functions():
        if f.unit.name != 'pixman-fast-path.c' or not f.name.startswith('pixman_fill'):
            continue
        hs = [i for i, (nm, ty) in enumerate(f.params) if nm == 'height']
        if not hs:
            continue
        n += 1; ck.saw(f)
        bad = None
        for x in f.insts():
            if x.op in ('mul', 'shl') and any(('arg', hs[0]) in common.value_arg_roots(f, a) for a in x.a if a and a[0] in ('v', 'a')):
                bad = x
        if bad is None:
            ck.ok(R, '%s: height only counts rows' % f.name)
        else:
            ck.violation(R, f.name, 'height multiplied into a run length', '%s multiplies by its height parameter (%s): it fills several rows as one run, so whatever lies between the end of one row and the start of the next - the row padding, or the neighbouring pixels when `bits` is a window into a wider bitmap - is overwritten' % (f.name, bad.loc()), bad.loc())
    if n == 0:
        raise AnalysisBroken('%s: no C fill routine with a height parameter found' % rid)
