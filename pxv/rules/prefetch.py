"""C04-R10 — T-IND: a word fetched through a loop-carried cursor is consumed in the iteration that fetched it."""
from . import common
from .factors import _loops_of

_PASS = ('phi', 'zext', 'sext', 'trunc', 'bitcast', 'and', 'or', 'xor', 'shl', 'lshr', 'select')


def r10_no_unconsumed_fetch(ck, P):
    R = ck.rule('C04-R10', 'in every loop of the pixel code, a value loaded through a loop-carried cursor (a pointer phi of the loop header) is used by the iteration that loaded it: a load whose value only flows into the next iteration (through the header phis) makes the loop read one element more than it consumes - past the end of the row when the span ends on that element - unless the load is guarded, inside the body, by a test of the count that remains after this iteration', floor=900)
    nloops = 0
    for un, u in sorted(P.units.items()):
        if 'region' in un:
            continue                       # band walks legitimately carry the next box across iterations under their own end test
        L = _loops_of(u)
        for fn, loops in sorted(L.items()):
            f = u.functions.get(fn)
            if f is None:
                continue
            cursors = {p['v'] for lp in loops for p in lp['phis'] if p['ty'].endswith('*')}
            for lp in loops:
                blocks = set(lp['blocks']); hdr = lp['header']
                hphis = {x.i for x in f.blocks[hdr].insts if x.op == 'phi'}
                # the count that remains after this iteration: the value a stepping integer phi receives over the back edge
                remaining = set()
                for p in lp['phis']:
                    if p['ty'].endswith('*') or not isinstance(p.get('step'), int) or p['step'] == 0:
                        continue
                    ph = f.by_id[p['v']]
                    remaining |= {a[1] for a, bb in zip(ph.a, ph.d['bb']) if bb in blocks and a[0] == 'v'}
                nloops += 1
                bad = None
                for b in sorted(blocks):
                    for x in f.blocks[b].insts:
                        if x.op != 'load' or x.ty.endswith('*'):
                            continue
                        r = f.root(f.path(x.a[0]))
                        if r[0] != 'phi' or r[1] not in cursors:
                            continue
                        seen = set(); work = [x]; consumed = False; carried = False
                        while work and not consumed:
                            y = work.pop()
                            for z in f.users(y):
                                if z.i in seen:
                                    continue
                                seen.add(z.i)
                                if z.i in hphis:
                                    carried = True
                                elif z.op == 'phi' and z.bb.id in blocks:
                                    work.append(z)
                                elif z.op in _PASS and z.bb.id in blocks and z.op in ('zext', 'sext', 'trunc', 'bitcast'):
                                    work.append(z)
                                else:
                                    consumed = True; break
                        if carried and not consumed:
                            # accepted when the fetch is guarded by a test of the loop's own counter
                            guarded = False
                            for t_, s in f.guard_edges(x.bb.id):
                                if t_.bb.id not in blocks or t_.bb.id == hdr or not t_.a:
                                    continue
                                cc = f.v(t_.a[0])
                                if cc is not None and cc.op == 'icmp' and any(a[0] == 'v' and a[1] in remaining for a in cc.a):
                                    guarded = True
                            if not guarded:
                                bad = x
                if bad is not None:
                    ck.saw(f)
                    ck.violation(R, fn, 'fetch for the next iteration at %s' % bad.loc(), '%s loads a %s through a cursor carried round the loop at block %d and uses the value only in the following iteration: when the span ends exactly on the previous element the loop still performs this load, one element beyond what it consumes (beyond the row, and on the last row beyond the image storage)' % (fn, bad.ty, hdr), bad.loc())
                else:
                    ck.ok(R, '%s/%s loop at block %d' % (un, fn, hdr))


def r11_tail_access_needs_remaining_count(ck, P, rid='C04-R11'):
    """T-GRD: after a budget loop (while (count >= K) { *cursor++ ...; count -= K; }) the element the cursor is left on is touched only
    under a test that depends on the count: with nothing left, that element is the first one beyond the span."""
    R = ck.rule(rid, 'after a loop that consumes a remaining count against a constant (while (w >= K) / while (w--)) and advances a cursor it accesses, every access to the element the cursor is left on is guarded by a condition computed from that count: an unconditional tail access touches the word after the span whenever the span ends exactly on a loop step', floor=13)
    for un, u in sorted(P.units.items()):
        if 'region' in un:
            continue
        L = _loops_of(u)
        for fn, loops in sorted(L.items()):
            f = u.functions.get(fn)
            if f is None:
                continue
            for lp in loops:
                blocks = set(lp['blocks']); hdr = lp['header']
                curs = [p['v'] for p in lp['phis'] if p['ty'].endswith('*')]
                cnts = [p['v'] for p in lp['phis'] if not p['ty'].endswith('*') and isinstance(p.get('step'), int) and p['step'] != 0]
                def is_budget(c):
                    for b in blocks:
                        t = f.blocks[b].term
                        if t.op != 'br' or not t.a or all(s_ in blocks for s_ in t.d['succ']):
                            continue
                        cc = f.v(t.a[0])
                        if cc is not None and cc.op == 'icmp' and any(a == ['v', c] for a in cc.a) and any(a[0] == 'c' for a in cc.a):
                            return True
                    return False
                cnts = [c for c in cnts if is_budget(c)]
                if not curs or not cnts:
                    continue
                croots = set()
                for c in cnts:
                    croots |= common.value_arg_roots(f, ['v', c])
                for c in curs:
                    def through(x):
                        return f.root(f.path(x.a[0] if x.op == 'load' else x.a[1])) == ('phi', c)
                    if not any(x.op in ('load', 'store') and through(x) for b in blocks for x in f.blocks[b].insts):
                        continue
                    for x in f.insts():
                        if x.bb.id in blocks or x.op not in ('load', 'store'):
                            continue
                        pth = f.path(x.a[0] if x.op == 'load' else x.a[1])
                        if f.root(pth) != ('phi', c) or pth[1]:
                            continue
                        ck.saw(f)
                        g = False
                        for t, s in f.guard_edges(x.bb.id):
                            if t.bb.id in blocks or not t.a or f.dominates_block(t.bb.id, hdr):
                                continue
                            if common.value_arg_roots(f, t.a[0]) & croots:
                                # a direct test of the count must fail for a count of 0 (nothing left)
                                cc = f.v(t.a[0]); direct = None
                                if cc is not None and cc.op == 'icmp' and cc.a[1][0] == 'c':
                                    y = f.v(cc.a[0]); o_ = cc.a[0]
                                    while y is not None and y.op in ('sext', 'zext', 'trunc'):
                                        o_ = y.a[0]; y = f.v(o_)
                                    if o_[0] == 'v' and o_[1] in cnts:
                                        k_ = int(cc.a[1][1])
                                        truth = {'sgt': 0 > k_, 'sge': 0 >= k_, 'slt': 0 < k_, 'sle': 0 <= k_, 'eq': 0 == k_, 'ne': 0 != k_, 'ugt': 0 > k_, 'uge': 0 >= k_, 'ult': 0 < k_, 'ule': 0 <= k_}.get(cc.d['p'])
                                        if truth is not None:
                                            direct = (truth == (t.d['succ'][0] == s))     # the access side is taken with nothing left
                                if direct:
                                    continue
                                g = True
                        where = '%s/%s: %s at %s after the loop at block %d' % (un, fn, x.op, x.loc(), hdr)
                        if g:
                            ck.ok(R, where)
                        else:
                            ck.violation(R, fn, 'tail %s at %s' % (x.op, x.loc()), '%s %ss the element its cursor %s is left on after the loop at block %d without any test of the remaining count (%s): when the span ends exactly on a loop step nothing is left, and this access touches the first word beyond the span - beyond the row, and on the last row beyond the image' % (fn, x.op, f.by_id[c].dv or '', hdr, ', '.join(sorted(f.by_id[k].dv or '?' for k in cnts))), x.loc())
