"""C04-R10 — T-IND: a word fetched through a loop-carried cursor is consumed in the iteration that fetched it."""
from . import common
from .factors import _loops_of

_PASS = ('phi', 'zext', 'sext', 'trunc', 'bitcast', 'and', 'or', 'xor', 'shl', 'lshr', 'select')


def r10_no_unconsumed_fetch(ck, P):
    R = ck.rule('C04-R10', 'in every loop of the pixel code, a value loaded through a loop-carried cursor (a pointer phi of the loop header) is used by the iteration that loaded it: a load whose value only flows into the next iteration (through the header phis) makes the loop read one element more than it consumes - past the end of the row when the span ends on that element - unless the load is guarded, inside the body, by a test of the count that remains after this iteration', floor=900)
    nloops = 0
    for un, u in sorted(P.units.items()):
        if 'region' in un:
            continue                       # band walks legitimately carry the next box across iterations under their own end test
        L = _loops_of(u)
        for fn, loops in sorted(L.items()):
            f = u.functions.get(fn)
            if f is None:
                continue
            cursors = {p['v'] for lp in loops for p in lp['phis'] if p['ty'].endswith('*')}
            for lp in loops:
                blocks = set(lp['blocks']); hdr = lp['header']
                hphis = {x.i for x in f.blocks[hdr].insts if x.op == 'phi'}
                # the count that remains after this iteration: the value a stepping integer phi receives over the back edge
                remaining = set()
                for p in lp['phis']:
                    if p['ty'].endswith('*') or not isinstance(p.get('step'), int) or p['step'] == 0:
                        continue
                    ph = f.by_id[p['v']]
                    remaining |= {a[1] for a, bb in zip(ph.a, ph.d['bb']) if bb in blocks and a[0] == 'v'}
                nloops += 1
                bad = None
                for b in sorted(blocks):
                    for x in f.blocks[b].insts:
                        if x.op != 'load' or x.ty.endswith('*'):
                            continue
                        r = f.root(f.path(x.a[0]))
                        if r[0] != 'phi' or r[1] not in cursors:
                            continue
                        seen = set(); work = [x]; consumed = False; carried = False
                        while work and not consumed:
                            y = work.pop()
                            for z in f.users(y):
                                if z.i in seen:
                                    continue
                                seen.add(z.i)
                                if z.i in hphis:
                                    carried = True
                                elif z.op == 'phi' and z.bb.id in blocks:
                                    work.append(z)
                                elif z.op in _PASS and z.bb.id in blocks and z.op in ('zext', 'sext', 'trunc', 'bitcast'):
                                    work.append(z)
                                else:
                                    consumed = True; break
                        if carried and not consumed:
                            # accepted when the fetch is guarded by a test of the loop's own counter
                            guarded = False
                            for t_, s in f.guard_edges(x.bb.id):
                                if t_.bb.id not in blocks or t_.bb.id == hdr or not t_.a:
                                    continue
                                cc = f.v(t_.a[0])
                                if cc is not None and cc.op == 'icmp' and any(a[0] == 'v' and a[1] in remaining for a in cc.a):
                                    guarded = True
                            if not guarded:
                                bad = x
                if bad is not None:
                    ck.saw(f)
                    ck.violation(R, fn, 'fetch for the next iteration at %s' % bad.loc(), '%s loads a %s through a cursor carried round the loop at block %d and uses the value only in the following iteration: when the span ends exactly on the previous element the loop still performs this load, one element beyond what it consumes (beyond the row, and on the last row beyond the image storage)' % (fn, bad.ty, hdr), bad.loc())
                else:
                    ck.ok(R, '%s/%s loop at block %d' % (un, fn, hdr))
