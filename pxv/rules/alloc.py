"""Allocation-failure rules (C15): T-NUL, T-ERR, T-OWN."""
import os, re
from collections import defaultdict
from ..build import AnalysisBroken
from . import common
from .image import returns_fresh, ALLOCATORS
from .threads import param_write_summaries
from .status import specialised_reach

EXTERNAL_ALLOC = {'malloc', 'calloc', 'realloc'}
RELEASE = {'free', 'pixman_image_unref', 'pixman_region32_fini', 'pixman_region_fini', 'realloc'}


def api_scope(P):
    """functions reachable from the exported API (the load-time constructor chain is outside the property's quantifier)"""
    if getattr(P, '_apis', None) is None:
        from .threads import ctor_only
        ctors, co = ctor_only(P)
        P._apis = {f for f in common.closure(P, common.public_api(P)) if f not in co}
    return P._apis


def may_return_null(P):
    """functions whose result may be NULL because an allocation failed (fixpoint through unchecked returns)"""
    if getattr(P, '_mrn', None) is not None:
        return P._mrn
    S = set()
    changed = True
    def callee_maynull(f, name):
        if name in EXTERNAL_ALLOC:
            return True
        g = P.resolve(f, name)
        return g in S
    while changed:
        changed = False
        for f in P.functions():
            if f in S or not f.type.split(' ')[0].endswith('*'):
                continue
            for r in f.rets():
                if not r.a:
                    continue
                for rt in common.roots(f, r.a[0]):
                    if rt[0] == 'call' and f.path(r.a[0])[0][0] != 'load' and callee_maynull(f, rt[1]):
                        S.add(f); changed = True
                    elif rt[0] == 'null' and any(callee_maynull(f, c.callee) for c in f.calls() if c.callee):
                        S.add(f); changed = True
    P._mrn = S
    return S


def deref_params(P):
    """{Function: set(param idx)} parameters the function (or a callee) dereferences"""
    if getattr(P, '_dp', None) is not None:
        return P._dp
    D = defaultdict(set)
    for f in P.functions():
        for x in f.insts():
            if x.op in ('load', 'store'):
                addr = x.a[0] if x.op == 'load' else x.a[1]
                p = f.path(addr)
                b = p[0]
                if b[0] == 'arg':
                    # dereference not under a null test of that parameter
                    guarded = False
                    for br, succ in f.guard_edges(x.bb.id):
                        if br.a:
                            c, pred, ops = f.cond(br.a[0])
                            if c is not None and ops and any(o[0] == 'n' for o in ops) and any(f.strip_casts(o) == ['a', b[1]] for o in ops):
                                guarded = True
                            if c is not None and pred in ('is', 'not') and ops and f.strip_casts(ops[0]) == ['a', b[1]]:
                                guarded = True
                    if not guarded:
                        D[f].add(b[1])
    changed = True
    while changed:
        changed = False
        for f in P.functions():
            for c in f.calls():
                g = P.resolve(f, c.callee)
                for k, a in enumerate(c.a):
                    o = f.strip_casts(a)
                    if o[0] != 'a' or o[1] in D[f]:
                        continue
                    hit = False
                    if g is not None and k in D[g]:
                        hit = True
                    if g is None and (c.callee or '').startswith(('llvm.memcpy', 'llvm.memset', 'llvm.memmove')) and k < 2:
                        hit = True
                    if hit:
                        guarded = False
                        for br, succ in f.guard_edges(c.bb.id):
                            if br.a:
                                cc, pred, ops = f.cond(br.a[0])
                                if cc is not None and ops and any(f.strip_casts(q) == ['a', o[1]] for q in ops):
                                    guarded = True
                        if not guarded:
                            D[f].add(o[1]); changed = True
    P._dp = D
    return D


def _aliases(f, c, maybe_null_only=False):
    """SSA values that hold the result of call c: the call itself, casts, phis/selects merging it, and reloads of a location it was stored to"""
    al = {c.i}
    stores = []
    changed = True
    while changed:
        changed = False
        for x in f.insts():
            if x.i in al:
                continue
            if x.op in ('bitcast', 'select'):
                ops = x.a if x.op != 'select' else x.a[1:]
                if any(o[0] == 'v' and o[1] in al for o in ops):
                    al.add(x.i); changed = True
            elif x.op == 'phi':
                # the value flows into the phi only along edges not already on the non-null side of its test
                for o, bb in zip(x.a, x.d['bb']):
                    if o[0] == 'v' and o[1] in al and not (maybe_null_only and _null_guard(f, al, bb)):
                        al.add(x.i); changed = True; break
            elif x.op == 'store' and x.a[0][0] == 'v' and x.a[0][1] in al:
                if x not in stores:
                    stores.append(x); changed = True
            elif x.op == 'load':
                p = f.path(x.a[0])
                for s in stores:
                    if f.path(s.a[1]) == p and (f.dominates(s, x) or (maybe_null_only and s.bb.id != x.bb.id and x.bb.id in f.reachable_blocks(s.bb.id))):
                        al.add(x.i); changed = True
    return al, stores


def _null_guard(f, al, block):
    """is `block` entered only on the non-null side of a null test of one of the aliases?"""
    for br, succ in f.guard_edges(block):
        if not br.a:
            continue
        c, pred, ops = f.cond(br.a[0])
        if c is None:
            continue
        taken_true = br.d['succ'][0] == succ
        if pred in ('eq', 'ne') and len(ops) == 2 and any(o[0] == 'n' for o in ops):
            v = [f.strip_casts(o) for o in ops if o[0] != 'n']
            if v and v[0][0] == 'v' and v[0][1] in al:
                if (pred == 'ne') == taken_true:
                    return True
        if pred in ('is', 'not') and ops:
            v = f.strip_casts(ops[0])
            if v[0] == 'v' and v[1] in al and (pred == 'is') == taken_true:
                return True
    return False


def nullness(P, f, c, D):
    """forward may-be-NULL dataflow for the result of call c in f.  State = set of SSA ids and ('path', access path) items that may
    hold the unchecked result.  Returns the first instruction that dereferences such an item, with a description, or None."""
    def base_item(o, st):
        # the tracked item a pointer operand derives from (through casts/GEPs), or None
        for _ in range(12):
            x = f.v(o)
            if x is None:
                return None
            if x.i in st:
                return x.i
            if x.op in ('bitcast', 'getelementptr'):
                o = x.a[0]; continue
            return None
        return None

    def transfer(blk, st, report):
        st = set(st)
        for x in blk.insts:
            if x is c:
                st.add(c.i); continue
            if x.op == 'phi':
                continue
            if x.op in ('bitcast',) and x.a[0][0] == 'v' and x.a[0][1] in st:
                st.add(x.i)
            elif x.op == 'select' and any(o[0] == 'v' and o[1] in st for o in x.a[1:]):
                st.add(x.i)
            elif x.op == 'load':
                it = base_item(x.a[0], st)
                if it is not None and report is not None:
                    report.append((x, 'loads through')); 
                p = f.path(x.a[0])
                if ('path', p) in st:
                    st.add(x.i)
            elif x.op == 'store':
                it = base_item(x.a[1], st)
                if it is not None and report is not None:
                    report.append((x, 'stores through'))
                p = f.path(x.a[1])
                if x.a[0][0] == 'v' and x.a[0][1] in st:
                    st.add(('path', p))
                elif ('path', p) in st:
                    st.discard(('path', p))
            elif x.op == 'call':
                h = P.resolve(f, x.callee)
                for k, a in enumerate(x.a):
                    if a[0] != 'v':
                        continue
                    it = base_item(a, st)
                    if it is None:
                        continue
                    if h is not None and k in D[h] and report is not None:
                        report.append((x, 'passes to %s, which dereferences it,' % h.name))
                    elif h is None and (x.callee or '').startswith(('llvm.memcpy', 'llvm.memset', 'llvm.memmove')) and k < 2 and report is not None:
                        report.append((x, 'copies to/from'))
        return st

    def edge(blk, succ, st):
        """refine the state along the edge blk -> succ"""
        t = blk.term
        if t.op != 'br' or not t.a:
            return st
        cnd, pred, ops = f.cond(t.a[0])
        if cnd is None:
            return st
        taken_true = t.d['succ'][0] == succ and not (len(t.d['succ']) > 1 and t.d['succ'][0] == t.d['succ'][1])
        tested = None; nonnull = None
        if pred in ('eq', 'ne') and len(ops) == 2 and any(o[0] == 'n' for o in ops):
            v = [f.strip_casts(o) for o in ops if o[0] != 'n']
            if v and v[0][0] == 'v':
                tested = v[0][1]; nonnull = (pred == 'ne') == taken_true
        elif pred in ('is', 'not') and ops:
            v = f.strip_casts(ops[0])
            if v[0] == 'v':
                tested = v[1]; nonnull = (pred == 'is') == taken_true
        if tested is None or not nonnull or tested not in st:
            return st
        st = set(st); st.discard(tested)
        x = f.by_id.get(tested)
        if x is not None and x.op == 'load':
            p = f.path(x.a[0])
            st.discard(('path', p))
            for y in list(st):
                if isinstance(y, int) and f.by_id[y].op == 'load' and f.path(f.by_id[y].a[0]) == p:
                    st.discard(y)
        else:
            # the tested SSA value was stored somewhere: that location is non-null too
            for y in list(st):
                if isinstance(y, tuple):
                    for s_ in f.insts():
                        if s_.op == 'store' and s_.a[0] == ['v', tested] and f.path(s_.a[1]) == y[1]:
                            st.discard(y)
            # casts / phis of the tested value
            for y in list(st):
                if isinstance(y, int) and f.by_id[y].op in ('bitcast',) and f.by_id[y].a[0] == ['v', tested]:
                    st.discard(y)
        return st

    IN = {b.id: set() for b in f.blocks}; OUT = {}
    work = [c.bb.id]; it = 0
    while work and it < 4000:
        it += 1
        b = work.pop()
        blk = f.blocks[b]
        st = set(IN[b])
        out = transfer(blk, st, None)
        if OUT.get(b) == out:
            continue
        OUT[b] = out
        for s_ in set(blk.succ):
            e = edge(blk, s_, out)
            # phis of the successor
            add = set(e)
            for x in f.blocks[s_].insts:
                if x.op != 'phi':
                    break
                for o, bb in zip(x.a, x.d['bb']):
                    if bb == b and o[0] == 'v' and o[1] in e:
                        add.add(x.i)
            if not add <= IN[s_]:
                IN[s_] |= add; work.append(s_)
            elif s_ not in OUT:
                work.append(s_)
    rep = []
    for b in f.blocks:
        if b.id in OUT or b.id == c.bb.id:
            transfer(b, IN[b.id], rep)
            if rep:
                return rep[0]
    return None


def r1_null_deref(ck, P):
    R = ck.rule('C15-R1', 'the result of every allocation (or of a function that may pass an allocation failure on as NULL) is not dereferenced on any path on which it has not been tested non-NULL (may-be-NULL dataflow through locals, phis and fields)', floor=30)
    MRN = may_return_null(P)
    D = deref_params(P)
    ck.note('may-return-NULL functions: %s' % sorted(g.name for g in MRN))
    scope = api_scope(P)
    for f in P.functions():
        if f not in scope:
            continue
        for c in f.calls():
            g = P.resolve(f, c.callee)
            if not (c.callee in EXTERNAL_ALLOC or g in MRN):
                continue
            if c.ty == 'void' or not c.ty.endswith('*'):
                continue
            ck.saw(f)
            bad = nullness(P, f, c, D)
            what = '%s: %s at %s' % (f.name, c.callee, c.loc())
            if bad is None:
                ck.ok(R, what)
            else:
                ck.violation(R, f.name, 'result of %s' % c.callee, '%s %s the result of %s on a path where it has not been tested against NULL: an allocation failure crashes here' % (f.name, bad[1], c.callee), bad[0].loc())


def _base_in(f, o, al):
    """does pointer operand o derive (through casts / GEPs, not loads) from a value in al?"""
    for _ in range(12):
        x = f.v(o)
        if x is None:
            return False
        if x.i in al:
            return True
        if x.op in ('bitcast', 'getelementptr'):
            o = x.a[0]; continue
        return False
    return False


# --------------------------------------------------------------------------------------- T-ERR
def fallible(P):
    """bool-returning functions with a FALSE return reachable after an allocation failure or a fallible callee's failure"""
    if getattr(P, '_fal', None) is not None:
        return P._fal
    MRN = may_return_null(P)
    F = set()
    changed = True
    while changed:
        changed = False
        for f in P.functions():
            if f in F or f.dret != 'pixman_bool_t':
                continue
            ev = failure_events(P, f, MRN, F)
            if ev and _returns_zero(f):
                F.add(f); changed = True
    P._fal = F
    return F


def failure_events(P, f, MRN, F):
    out = []
    for c in f.calls():
        g = P.resolve(f, c.callee)
        if c.callee in EXTERNAL_ALLOC or g in MRN or g in F:
            out.append(c)
    return out


def _returns_zero(f):
    for r in f.rets():
        if not r.a:
            continue
        seen = set(); work = [r.a[0]]
        while work:
            o = work.pop()
            if o[0] == 'c':
                if int(o[1]) == 0:
                    return True
                continue
            y = f.v(o)
            if y is None or y.i in seen:
                continue
            seen.add(y.i)
            if y.op == 'phi':
                work.extend(y.a)
            elif y.op == 'call':
                return True
            elif y.op in ('zext', 'sext', 'trunc'):
                work.append(y.a[0])
            else:
                return True
    return False


def r2_status_used(ck, P):
    R = ck.rule('C15-R2', 'the status of every library function that can fail through an allocation is tested, returned or stored at each call site (or the failing paths are unreachable for the constant arguments passed)', floor=40)
    F = fallible(P); MRN = may_return_null(P)
    ck.note('fallible status functions: %d' % len(F))
    for f in P.functions():
        for c in f.calls():
            g = P.resolve(f, c.callee)
            if g is None or g not in F:
                continue
            ck.saw(f)
            if c.d.get('used'):
                ck.ok(R, '%s: %s result used' % (f.name, g.name)); continue
            # specialise the callee on constant / provably non-null arguments
            spec = {}
            for k, a in enumerate(c.a):
                if a[0] == 'c':
                    spec[k] = int(a[1])
                elif a[0] == 'n':
                    spec[k] = 0
                else:
                    r = f.root(f.path(a))
                    if r[0] in ('alloca', 'global') and f.path(a)[0][0] != 'load':
                        spec[k] = 1 << 40       # a non-null address
            reach = _spec_reach_ptr(g, spec)
            ev = [e for e in failure_events(P, g, MRN, F) if e.bb.id in reach]
            if not ev:
                ck.ok(R, '%s: %s cannot fail for these arguments' % (f.name, g.name))
            else:
                ck.violation(R, f.name, 'ignored result of ' + g.name, '%s ignores the result of %s, which reports an allocation failure (%s at %s): the failure is not propagated to the caller' % (f.name, g.name, ev[0].callee, ev[0].loc()), c.loc())


def _spec_reach_ptr(g, spec):
    """specialised_reach extended with null tests of pointer parameters"""
    def val(o):
        if o[0] == 'c':
            return int(o[1])
        if o[0] == 'n':
            return 0
        if o[0] == 'a' and o[1] in spec:
            return spec[o[1]]
        y = g.v(o)
        if y is not None and y.op in ('zext', 'sext', 'trunc', 'bitcast', 'ptrtoint'):
            return val(y.a[0])
        return None
    seen = set(); work = [0]
    while work:
        b = work.pop()
        if b in seen:
            continue
        seen.add(b)
        t = g.blocks[b].term
        nxt = list(g.blocks[b].succ)
        if t.op == 'br' and t.a:
            c, pred, ops = g.cond(t.a[0])
            if c is not None and c.op == 'icmp' and len(ops) == 2:
                l, r = val(ops[0]), val(ops[1])
                if l is not None and r is not None:
                    res = {'eq': l == r, 'ne': l != r, 'slt': l < r, 'sgt': l > r, 'sle': l <= r, 'sge': l >= r, 'ult': l < r, 'ugt': l > r, 'ule': l <= r, 'uge': l >= r}.get(pred)
                    if res is not None:
                        nxt = [t.d['succ'][0] if res else t.d['succ'][1]]
        elif t.op == 'switch':
            v = val(t.a[0])
            if v is not None:
                nxt = [t.d['default']]
                for cv, bb in t.d['cases']:
                    if cv == v:
                        nxt = [bb]
        work.extend(nxt)
    return seen


# --------------------------------------------------------------------------------------- T-OWN
def r3_local_ownership(ck, P):
    R = ck.rule('C15-R3', 'a locally owned allocation (result of an allocator/constructor that does not escape) is released on every path to return, the NULL side of its test excepted', floor=10)
    W = param_write_summaries(P)
    scope = api_scope(P)
    for f in P.functions():
        if f not in scope:
            continue
        for c in f.calls():
            if not c.ty.endswith('*'):
                continue
            rt = ('call', c.callee, c.i)
            if not (c.callee in EXTERNAL_ALLOC or (c.callee and returns_fresh(P, f, rt))):
                continue
            al, stores = _aliases(f, c)
            # escape: returned, stored into non-local memory, passed to a callee that keeps it
            esc = False
            for x in f.insts():
                if x.op == 'ret' and x.a and x.a[0][0] == 'v' and _base_in(f, x.a[0], al):
                    esc = True
                elif x.op == 'store' and x.a[0][0] == 'v' and _base_in(f, x.a[0], al):
                    r = f.root(f.path(x.a[1]))
                    if r[0] != 'alloca' or f.path(x.a[1])[0][0] == 'load':
                        esc = True
                    elif r[0] == 'alloca':
                        # stored into a local aggregate whose address is handed to a callee (iter->data, info struct)
                        aid = r[1]
                        for y in f.insts():
                            if y.op == 'call' and any(f.root(f.path(a)) == ('alloca', aid) and a[0] == 'v' and f.by_id[a[1]].op != 'load' for a in y.a):
                                if f.by_id[aid].d.get('at', '').startswith(('%struct', '[')):
                                    esc = True
                elif x.op == 'call' and x is not c and x.callee not in RELEASE:
                    g = P.resolve(f, x.callee)
                    for k, a in enumerate(x.a):
                        if a[0] == 'v' and a[1] in al:
                            if g is None and not (x.callee or '').startswith('llvm.'):
                                esc = True
                            elif g is not None and _keeps(P, g, k):
                                esc = True
            if esc:
                continue
            ck.saw(f)
            def released(x):
                if x.op == 'call' and x.callee in RELEASE and x.a and x.a[0][0] == 'v' and _base_in(f, x.a[0], al):
                    return True
                return False
            # walk from the call; the null side of a null test releases the obligation
            seen = set(); leak = None
            start = c.bb
            idx = start.insts.index(c)
            blocked = any(released(x) for x in start.insts[idx + 1:])
            work = [] if blocked else list(_succ_nonnull(f, start, al))
            if not blocked and start.term.op == 'ret':
                leak = start.term
            while work and leak is None:
                b = work.pop()
                if b in seen:
                    continue
                seen.add(b)
                blk = f.blocks[b]
                if any(released(x) for x in blk.insts):
                    continue
                if blk.term.op == 'ret':
                    leak = blk.term; break
                if blk.term.op == 'unreachable':
                    continue
                work.extend(_succ_nonnull(f, blk, al))
            what = '%s: %s at %s' % (f.name, c.callee, c.loc())
            if leak is None:
                ck.ok(R, what)
            else:
                ck.violation(R, f.name, 'allocation by %s' % c.callee, '%s can return without releasing the object it obtained from %s (%s): a leak on that path' % (f.name, c.callee, c.loc()), leak.loc())


def _succ_nonnull(f, blk, al):
    t = blk.term
    nxt = list(blk.succ)
    if t.op == 'br' and t.a:
        c, pred, ops = f.cond(t.a[0])
        if c is not None and pred in ('eq', 'ne') and len(ops) == 2 and any(o[0] == 'n' for o in ops):
            v = [f.strip_casts(o) for o in ops if o[0] != 'n']
            if v and v[0][0] == 'v' and v[0][1] in al:
                nxt = [t.d['succ'][0] if pred == 'ne' else t.d['succ'][1]]
        elif c is not None and pred in ('is', 'not') and ops:
            v = f.strip_casts(ops[0])
            if v[0] == 'v' and v[1] in al:
                nxt = [t.d['succ'][0] if pred == 'is' else t.d['succ'][1]]
        if c is not None and pred in ('eq', 'ne') and len(ops) == 2 and not any(o[0] == 'n' for o in ops):
            # `if (p != stack_buffer) free (p)`: on the equal side the merged pointer is the stack object, not the allocation
            vs = [f.strip_casts(o) for o in ops]
            for i in (0, 1):
                if vs[i][0] == 'v' and vs[i][1] in al and f.root(f.path(vs[1 - i]))[0] == 'alloca' and f.path(vs[1 - i])[0][0] != 'load':
                    nxt = [t.d['succ'][0] if pred == 'ne' else t.d['succ'][1]]
    return nxt


def _keeps(P, g, k):
    """does callee g store its parameter k somewhere that outlives the call (escape)?"""
    for x in g.insts():
        if x.op == 'store':
            o = g.strip_casts(x.a[0])
            if any(r == ('arg', k) for r in common.roots(g, x.a[0])) and g.path(x.a[0])[0][0] != 'load':
                r = g.root(g.path(x.a[1]))
                if r[0] != 'alloca':
                    return True
        elif x.op == 'ret' and x.a and any(r == ('arg', k) for r in common.roots(g, x.a[0])) and g.path(x.a[0])[0][0] != 'load':
            return True
        elif x.op == 'call':
            h = P.resolve(g, x.callee)
            if h is not None and h is not g:
                for j, a in enumerate(x.a):
                    if g.strip_casts(a) == ['a', k] and _keeps_shallow(h, j):
                        return True
    return False


def _keeps_shallow(h, j):
    for x in h.insts():
        if x.op == 'store' and h.strip_casts(x.a[0]) == ['a', j] and h.root(h.path(x.a[1]))[0] != 'alloca':
            return True
    return False


def r7_result_tested(ck, P, rid='C15-R7', only_units=None, floor=40):
    """T-ERR: no allocation failure is swallowed at the call site"""
    R = ck.rule(rid, 'the pointer result of every allocation, and of every function that passes an allocation failure on as NULL, is compared with NULL, returned to the caller, or stored into a location whose value is compared with NULL in the same function: a failure is never silently carried on' + (' (functions of %s)' % ', '.join(sorted(only_units)) if only_units else ''), floor=floor)
    MRN = set(may_return_null(P))
    F = fallible(P)
    # pointer-returning functions that answer NULL when a fallible status callee failed (bitmap_addrect)
    for g in P.functions():
        if g in MRN or not g.type.split(' ')[0].endswith('*'):
            continue
        if any(P.resolve(g, c.callee) in F for c in g.calls() if isinstance(c.callee, str)):
            for t in g.rets():
                if t.a and (t.a[0][0] == 'n' or (t.a[0][0] == 'v' and g.v(t.a[0]) is not None and g.v(t.a[0]).op == 'phi' and any(a[0] == 'n' for a in g.v(t.a[0]).a))):
                    MRN.add(g)
    scope = api_scope(P)
    for f in P.functions():
        if f not in scope or (only_units and f.unit.name not in only_units):
            continue
        tested_paths = set()
        for x in f.insts():
            if x.op == 'icmp' and any(o[0] == 'n' for o in x.a):
                for o in x.a:
                    y = f.v(f.strip_casts(o)) if o[0] == 'v' else None
                    if y is not None and y.op == 'load':
                        tested_paths.add(f.pstr(f.path(y.a[0])))
        for c in f.calls():
            g = P.resolve(f, c.callee) if isinstance(c.callee, str) else None
            if not (c.callee in EXTERNAL_ALLOC or g in MRN):
                continue
            if not c.ty.endswith('*'):
                continue
            ck.saw(f)

            def tested(x, seen):
                for y in f.users(x):
                    if y.op == 'icmp' and any(o[0] == 'n' for o in y.a):
                        return True
                    if y.op == 'ret':
                        return True
                    if y.op == 'store' and f.strip_casts(y.a[0]) == f.strip_casts(['v', x.i]) and f.pstr(f.path(y.a[1])) in tested_paths:
                        return True
                    if y.op in ('phi', 'bitcast', 'select') and y.i not in seen:
                        seen.add(y.i)
                        if tested(y, seen):
                            return True
                return False

            what = '%s: result of %s at %s' % (f.name, c.callee, c.loc())
            # aliases of the result through casts and phis; a hand-over to another call before any NULL test on them swallows the failure
            A = {c.i}; work = [c]
            while work:
                x_ = work.pop()
                for y in f.users(x_):
                    if y.op in ('phi', 'bitcast', 'select') and y.i not in A:
                        A.add(y.i); work.append(y)
            inA = lambda o: o[0] == 'v' and o[1] in A
            barrier = lambda y: (y.op == 'icmp' and any(o[0] == 'n' for o in y.a) and any(inA(o) for o in y.a)) or (y.op == 'store' and inA(y.a[0]))
            target = lambda y: y.op == 'call' and y.i != c.i and isinstance(y.callee, str) and not y.callee.startswith('llvm.') and y.callee != 'free' and any(inA(o) for o in y.a)
            esc = f.reach_avoiding(c, barrier, target) if tested(c, {c.i}) else None
            if esc is not None:
                ck.violation(R, f.name, 'result of %s handed on untested' % c.callee, '%s can reach the call of %s at %s with the result of %s not yet compared with NULL on that path: a failed allocation is carried into the next step and its failure is lost' % (f.name, esc.callee, esc.loc(), c.callee), c.loc())
            elif tested(c, {c.i}):
                ck.ok(R, what)
            else:
                ck.violation(R, f.name, 'unchecked result of %s' % c.callee, '%s never compares the result of %s with NULL (nor returns it): when the allocation fails the function carries on and the failure is lost or later overwritten' % (f.name, c.callee), c.loc())


def r9_failure_is_atomic(ck, P, rid='C15-R9'):
    """T-ORD: a setter that reports an allocation failure has not touched the object yet"""
    R = ck.rule(rid, 'in every exported setter of an image, no field of the image is stored on a path that leads to the fallible allocation whose failure makes the call return FALSE: a refused call leaves the image exactly as it was (filter kind and parameter block, transform, ... stay consistent)', floor=1)
    MRN = may_return_null(P)
    n = 0
    for f in common.public_api(P):
        if not f.params or 'pixman_image' not in f.params[0][1]:
            continue
        allocs = [c for c in f.calls() if (c.callee in EXTERNAL_ALLOC or (isinstance(c.callee, str) and P.resolve(f, c.callee) in MRN)) and c.ty.endswith('*')]
        if not allocs:
            continue
        for c in allocs:
            # does the failure of c lead to `return FALSE`?
            fail_ret = False
            A = {c.i}; work = [c]
            while work:
                x_ = work.pop()
                for y in f.users(x_):
                    if y.op in ('phi', 'bitcast', 'select') and y.i not in A:
                        A.add(y.i); work.append(y)
            for y in f.insts():
                if y.op == 'icmp' and any(o[0] == 'n' for o in y.a) and any(o[0] == 'v' and o[1] in A for o in y.a):
                    for br in f.users(y):
                        if br.op != 'br':
                            continue
                        null_side = br.d['succ'][0] if y.d['p'] == 'eq' else br.d['succ'][1]
                        for b_ in f.reachable_blocks(null_side):
                            t = f.blocks[b_].term
                            if t.op == 'ret' and t.a:
                                v = t.a[0]
                                if v[0] == 'c' and int(v[1]) == 0:
                                    fail_ret = True
                                ph = f.v(v)
                                if ph is not None and ph.op == 'phi' and any(a[0] == 'c' and int(a[1]) == 0 for a in ph.a):
                                    fail_ret = True
            if not fail_ret:
                continue
            n += 1; ck.saw(f)
            bad = None
            for s_ in f.insts():
                if s_.op != 'store':
                    continue
                p = f.path(s_.a[1])
                if f.root(p) != ('arg', 0) or not f.last_field(p) or p[0][0] == 'load':
                    continue
                if (f.last_field(p) or '').endswith(('.dirty',)):
                    continue
                if s_.a[0][0] == 'v' and s_.a[0][1] in A:
                    continue
                # the store can be followed by the allocation
                if f.reach_avoiding(s_, lambda y: False, lambda y: y is c) is not None:
                    bad = s_; break
            where = '%s: allocation %s at %s' % (f.name, c.callee, c.loc())
            if bad is None:
                ck.ok(R, where, 'no field of the image is stored before it')
            else:
                ck.violation(R, f.name, 'image modified before a fallible allocation', '%s stores %s (%s) before the allocation at %s whose failure makes it return FALSE: after a refused call the image is half updated - e.g. the filter kind already switched while the parameter block is still the old one - and is no longer safe to draw with' % (f.name, f.last_field(f.path(bad.a[1])), bad.loc(), c.loc()), bad.loc())
    if n == 0:
        ck.incomplete(R, 'no exported image setter with a fallible allocation found')


def r10_cleanup_count_is_fresh(ck, P):
    """T-MPT: a cleanup loop releases elements [0, N) of an array of owned blocks.  Where an element of the same array has already
    been released earlier, the N handed to the cleanup must have been computed after that release on every path — otherwise the
    cleanup releases the element a second time."""
    from .factors import _loops_of
    R = ck.rule('C15-R10', 'every element count handed to a cleanup loop (for i < N: free (array[i].field)) is computed after any earlier release of an element of the same array on every path that reaches the cleanup: no path carries a count that still includes an element already released', floor=2)
    for u in P.units.values():
        if not any(c.callee == 'free' for g in u.functions.values() for c in g.calls()):
            continue
        L = None
        for fn, f in u.functions.items():
            frees = [c for c in f.calls('free')]
            if len(frees) < 2:
                continue
            if L is None:
                L = _loops_of(u)
            for lp in L.get(fn, []):
                blocks = set(lp['blocks'])
                ivs = [f.by_id[p['v']] for p in lp['phis'] if p.get('step') == 1 and not p['ty'].endswith('*')]
                if not ivs:
                    continue
                inner = [c for c in frees if c.bb.id in blocks]
                if not inner:
                    continue
                def fields(c):
                    out = []
                    def walk(t):
                        if isinstance(t, str):
                            if '.' in t:
                                out.append(t)
                        elif isinstance(t, tuple):
                            for q in t:
                                walk(q)
                    walk(f.path(c.a[0]))
                    return tuple(out)
                def indexed_by(c, iv, d=0):
                    seen = set(); work = [c.a[0]]
                    while work and len(seen) < 60:
                        o = work.pop()
                        if o[0] != 'v' or o[1] in seen:
                            continue
                        if o[1] == iv.i:
                            return True
                        seen.add(o[1])
                        x = f.by_id[o[1]]
                        if x.op in ('call', 'phi'):
                            continue
                        work.extend(a for a in x.a if a)
                        work.extend(st[1] for st in x.d.get('path', []) if st and st[0] == 'p' and isinstance(st[1], list))
                    return False
                hdr = f.blocks[lp['header']]
                for iv in ivs:
                    cl = [c for c in inner if fields(c) and indexed_by(c, iv)]
                    if not cl:
                        continue
                    # the bound: the other side of the header's comparison with the induction variable
                    N = None; bound_cmp = None
                    for x in hdr.insts:
                        if x.op == 'icmp' and any(a == ['v', iv.i] for a in x.a):
                            o = [a for a in x.a if a != ['v', iv.i]][0]
                            N = f.v(o); bound_cmp = x
                    if N is None or N.op != 'phi' or N.bb.id in blocks:
                        continue
                    ck.saw(f)
                    key = fields(cl[0])
                    elem = [c for c in frees if c.bb.id not in blocks and fields(c) == key]
                    bad = None
                    for V, p in zip(N.a, N.d['bb']):
                        v = f.v(V)
                        if v is None:
                            continue
                        for F in elem:
                            if F.bb.id == v.bb.id:
                                stale = v.i < F.i and p in f.reachable_blocks(F.bb.id, avoid=())
                            else:
                                stale = p == F.bb.id or p in f.reachable_blocks(F.bb.id, avoid={v.bb.id})
                            if stale:
                                bad = (F, p, v); break
                        if bad:
                            break
                    where = '%s/%s: cleanup loop at block %d over %s, count %s from %d edges, %d earlier element releases' % (u.name, fn, lp['header'], '/'.join(key), N.dv or 'N', len(N.a), len(elem))
                    # the loop covers [0, N): with i <= N it also releases element N, which is not (or no longer) owned
                    pr = bound_cmp.d['p']
                    if bound_cmp.a[0] != ['v', iv.i]:
                        pr = {'slt': 'sgt', 'sgt': 'slt', 'sle': 'sge', 'sge': 'sle', 'ult': 'ugt', 'ugt': 'ult', 'ule': 'uge', 'uge': 'ule'}.get(pr, pr)
                    stay_true = hdr.term.op == 'br' and hdr.term.d['succ'][0] in blocks
                    inclusive = (pr in ('sle', 'ule')) if stay_true else (pr in ('sgt', 'ugt'))
                    if inclusive:
                        ck.violation(R, fn, 'cleanup loop bound (%s)' % u.name, 'the cleanup loop runs while i <= %s, i.e. over elements [0, %s]: element %s is one past the elements this function owns - in the merge step it is a region that has just been released (double free), earlier an uninitialised slot (free of a garbage pointer)' % (N.dv or 'N', N.dv or 'N', N.dv or 'N'), bound_cmp.loc())
                        continue
                    if bad:
                        F, p, v = bad
                        ck.violation(R, fn, 'cleanup count %s (%s)' % (N.dv or 'N', u.name), 'the cleanup loop releases %s of elements [0, %s) but along the edge from block %d the count was computed before the release at %s: an element released there is still inside the range and is released a second time (and its freed header is read first)' % (key[-1].split('.')[-1], N.dv or 'N', p, F.loc()), F.loc())
                    else:
                        ck.ok(R, where)


def r11_broken_operand_not_dropped(ck, P):
    """T-MPT (must-dataflow over the CFG): a region operation returns without having looked at one of its input regions only when
    that input cannot be the broken region.  The broken region is how an earlier allocation failure is reported; a shortcut that
    answers from the other operand alone turns that failure into a success."""
    R = ck.rule('C15-R11', 'in every exported region operation with two input regions, each path to a return has, for each input, either handed it to a callee, or established that it is not the broken region (data == NULL, data != pixman_broken_data, or numRects != 0), or established that it is the result itself / the other input; or it reports failure through pixman_break', floor=6)
    from .region import units as _units
    for u in _units(P):
        for fn, f in sorted(u.functions.items()):
            if not f.exported:
                continue
            regs = [i for i, (n_, t) in enumerate(f.params) if 'pixman_region' in t and t.endswith('*') and 'data' not in t]
            if len(regs) < 3:
                continue
            ck.saw(f)
            inputs = regs[1:]
            def pidx(o):
                return o[1] if o[0] == 'a' and o[1] in regs else None
            def is_broken(o):
                if o[0] == 'g':
                    return 'broken' in o[1]
                y = f.v(o)
                return y is not None and y.op == 'load' and y.a[0][0] == 'g' and 'broken' in y.a[0][1]
            def edge_facts(t, s):
                """facts established by taking edge t -> s"""
                ok = set(); al = set()
                cc = f.v(t.a[0]) if t.op == 'br' and t.a else None
                if cc is None or cc.op != 'icmp' or cc.d['p'] not in ('eq', 'ne'):
                    return ok, al
                is_eq = (cc.d['p'] == 'eq') == (t.d['succ'][0] == s)
                a, b = cc.a
                pa, pb = pidx(a), pidx(b)
                if pa is not None and pb is not None:
                    if is_eq:
                        al.add(frozenset((pa, pb)))
                    return ok, al
                for x_, y_ in ((a, b), (b, a)):
                    x = f.v(x_)
                    if x is None or x.op != 'load':
                        continue
                    p = f.path(x.a[0])
                    r_ = f.root(p)
                    # R->data compared with NULL / with the broken sentinel
                    if p[0][0] == 'arg' and p[0][1] in regs and len(p[1]) == 1 and str(p[1][0]).endswith('.data'):
                        if y_[0] == 'n' and is_eq:
                            ok.add(p[0][1])
                        if is_broken(y_) and not is_eq:
                            ok.add(p[0][1])
                    # R->data->numRects compared with 0
                    if p[0][0] == 'load' and y_[0] == 'c' and int(y_[1]) == 0 and not is_eq and p[1] and str(p[1][-1]).endswith('.numRects'):
                        inner = p[0][1]
                        if inner[0][0] == 'arg' and inner[0][1] in regs:
                            ok.add(inner[0][1])
                return ok, al
            def block_out(b, st):
                ok = set(st[0]); al = set(st[1])
                for x in f.blocks[b].insts:
                    if x.op == 'call' and x.callee:
                        if x.callee == 'pixman_break':
                            ok |= set(regs)
                        for a in x.a:
                            k = pidx(a)
                            if k is not None and not x.callee.startswith('llvm.'):
                                ok.add(k)
                    elif x.op == 'store' and is_broken(x.a[0]):
                        ok |= set(regs)            # the result is made the broken region: the failure is reported
                return ok, al
            # path-sensitive: explore (block, facts) states; the functions are loop-free apart from MIN/MAX diamonds
            retb = {r_.bb.id: r_ for r_ in f.rets()}
            seen = set(); work = [(0, frozenset(), frozenset(), (0,))]; bad = None; nstates = 0
            while work and bad is None and nstates < 50000:
                b, ok0, al0, pth_ = work.pop()
                if (b, ok0, al0) in seen:
                    continue
                seen.add((b, ok0, al0)); nstates += 1
                ok, al = block_out(b, (ok0, al0))
                if b in retb:
                    for k in inputs:
                        good = k in ok or any(k in pr and ((set(pr) - {k}) & (ok | {regs[0]})) for pr in al)
                        if not good:
                            bad = (k, retb[b])
                            if os.environ.get('PXV_DEBUG_R11'):
                                print('DEBUG-R11', fn, k, pth_, sorted(ok), [sorted(p_) for p_ in al])
                    continue
                t = f.blocks[b].term
                for s_ in f.blocks[b].succ:
                    eo, ea = edge_facts(t, s_)
                    work.append((s_, frozenset(ok | eo), frozenset(al | ea), pth_ + (s_,)))
            if nstates >= 50000:
                ck.incomplete(R, '%s: too many path states' % fn); continue
            if bad:
                k, r_ = bad
                ck.violation(R, fn, 'input %s' % (f.params[k][0] or k), '%s can return without having examined its input %s on some path: that region is neither handed to a callee, nor tested for data == NULL / the broken sentinel / numRects, nor known to be the result itself; if it is the broken region left by an earlier allocation failure the operation answers from the other operand and reports success' % (fn, f.params[k][0] or 'parameter %d' % k), r_.loc())
            else:
                ck.ok(R, '%s: inputs %s examined on every path to a return' % (fn, [f.params[k][0] for k in inputs]))


def r12_region_storage_released_before_overwrite(ck, P, rid='C20-R9'):
    """typestate, one call level: outside the region implementation a region's data pointer is overwritten only when the region cannot own
    storage at that point - it has been finalised on every path to the store, or it is a region that the function (or, for a parameter,
    every caller) has just initialised and handed to nobody else."""
    R = ck.rule(rid, 'every store to the data field of a pixman_region16 / pixman_region32 outside the region implementation files is preceded on every path by a call that finalises that region, or concerns a region that is a local object initialised by the region module with no other use in between - in the function itself or, when the region is a parameter, at each of its call sites: overwriting the pointer of a region that still owns its rectangle array leaks the array', floor=1)
    n = 0
    callers = P.callers()
    def region_arg_calls(f, root):
        return [c for c in f.calls() if any(a[0] in ('v', 'a') and f.root(f.path(a)) == root and not f.path(a)[1][1:] for a in c.a)]
    def fresh_at(f, root, site):
        """root is an alloca of f whose last use before `site` on every path is a call of a region init function"""
        if root[0] != 'alloca':
            return False
        cs = [c for c in region_arg_calls(f, root) if c is not site]
        inits = [c for c in cs if c.callee and re.search(r'_init(_rect|_with_extents)?$', c.callee) and f.dominates(c, site)]
        for i in inits:
            others = [c for c in cs if c is not i]
            if f.reach_avoiding(i, lambda x: x is site, lambda x: any(x is o for o in others)) is None:
                return True
        return False
    for u in P.units.values():
        if re.search(r'pixman-region', u.name):
            continue
        for fn, f in sorted(u.functions.items()):
            for x in f.insts():
                if x.op != 'store':
                    continue
                lf = f.last_field(f.path(x.a[1])) or ''
                if lf not in ('pixman_region32.data', 'pixman_region16.data'):
                    continue
                n += 1; ck.saw(f)
                pth = f.path(x.a[1]); root = f.root(pth); base_fields = pth[1][:-1]
                where = '%s/%s: store to %s at %s' % (u.name, fn, lf, x.loc())
                # finalised on every path from the entry?
                def is_fini(c):
                    return c.op == 'call' and c.callee and c.callee.endswith('_fini') and any(a[0] in ('v', 'a') and f.root(f.path(a)) == root and tuple(f.path(a)[1]) == tuple(base_fields) for a in c.a)
                entry_first = f.blocks[0].insts[0]
                unfinalised = f.reach_avoiding(entry_first, is_fini, lambda y: y is x) is not None or entry_first is x
                if not unfinalised:
                    ck.ok(R, where, 'finalised on every path'); continue
                if not base_fields and fresh_at(f, root, x):
                    ck.ok(R, where, 'a local region initialised just before'); continue
                ok = False
                if root[0] == 'arg' and not base_fields and not f.exported:
                    sites = [(h, c) for h in callers.get(f, ()) for c in h.calls(f.name)]
                    ok = bool(sites)
                    for h, c in sites:
                        a = c.a[root[1]] if root[1] < len(c.a) else None
                        hp = h.path(a) if a is not None else None
                        if hp is None or hp[1] or not fresh_at(h, h.root(hp), c):
                            ok = False
                    if ok:
                        ck.ok(R, where, 'every caller passes a region it has just initialised'); continue
                ck.violation(R, fn, 'store to %s' % lf, '%s overwrites the data pointer of a region at %s although the region has not been finalised on every path to that store and is not known to be freshly initialised (not a local region, and not every caller passes one): if it still owns a rectangle array, the array is leaked and can never be released by the owner of the region' % (fn, x.loc()), x.loc())
    if n == 0:
        raise AnalysisBroken('%s: no store to a region data field outside the region implementation found (the composite-region function stores one)' % rid)


def r13_allocation_size_in_wide_type(ck, P, rid='C15-R13'):
    """T-WID: a size handed to the allocator is a size_t; the overflow guards of the library test the size_t product.  A product of two
    variable ints that is formed in 32 bits and widened afterwards has wrapped before the allocator sees it, so an image of 4 GiB and
    more gets a tiny block while the guard - which tested the 64-bit product - passed."""
    R = ck.rule(rid, 'no size argument of malloc / calloc / realloc (through 64-bit additions and multiplications by constants) is a 32-bit product of two non-constant factors widened afterwards: (size_t)(height * stride) wraps for buffers of 4 GiB and more, the allocation succeeds with the wrapped size and the image is returned with its full geometry on top of it', floor=20)
    def guarded_by_division(f, z):
        # the idiom of pixman_malloc_ab: a factor was compared with LIMIT / other factor on the way to the product
        for t, s_ in f.guard_edges(z.bb.id):
            if t.op != 'br' or not t.a:
                continue
            c, p, ops = f.cond(t.a[0])
            if c is None or c.op != 'icmp':
                continue
            for o in ops:
                q = f.v(f.strip_casts(o)) if o[0] == 'v' else None
                if q is not None and q.op in ('udiv', 'sdiv') and q.a[0][0] == 'c' and any(list(f.strip_casts(q.a[1])) == list(f.strip_casts(a)) for a in z.a):
                    return True
        return False

    def narrow_product(f, o, d=0):
        y = f.v(o) if o[0] == 'v' else None
        if y is None or d > 8:
            return None
        if y.op in ('sext', 'zext') and y.ty == 'i64':
            z = f.v(y.a[0])
            if z is not None and z.op == 'mul' and z.ty == 'i32' and not any(a[0] == 'c' for a in z.a) and not guarded_by_division(f, z):
                return z
            return None
        if y.op in ('add', 'sub', 'mul', 'shl') and y.ty == 'i64':
            for a in y.a:
                r = narrow_product(f, a, d + 1)
                if r is not None:
                    return r
        if y.op == 'phi':
            for a in y.a:
                r = narrow_product(f, a, d + 1)
                if r is not None:
                    return r
        return None
    n = 0
    for f in P.functions():
        for c in f.calls():
            if c.callee not in ('malloc', 'calloc', 'realloc'):
                continue
            for a in c.a:
                y = f.v(a) if a[0] == 'v' else None
                if a[0] == 'c' or (y is not None and y.ty == 'i64') or (a[0] == 'a' and f.params[a[1]][1] == 'i64'):
                    n += 1; ck.saw(f)
                    z = narrow_product(f, a) if a[0] == 'v' else None
                    where = '%s: size argument of %s at %s' % (f.name, c.callee, c.loc())
                    if z is None:
                        ck.ok(R, where)
                    else:
                        ck.violation(R, f.name, 'size argument of %s' % c.callee, '%s hands %s a size whose product was formed in 32 bits (%s) and widened afterwards: it wraps for 4 GiB and more, the overflow guard (which tests the 64-bit product) passes, the allocator is asked for the wrapped size and the object is built on a block that is too small' % (f.name, c.callee, z.loc()), z.loc())
    if n == 0:
        raise AnalysisBroken('%s: no allocation call found' % rid)


def r14_parked_storage_released_on_every_exit(ck, P, rid='C15-R14'):
    """Must-pass-through: when the result of a region operation is one of its operands, pixman_op parks the operand's rectangle array in a
    local (old_data) and gives the result a fresh one.  From that point on every way out of the function - success, and each failure -
    passes the release of the parked array (or the test that finds it NULL)."""
    R = ck.rule(rid, 'in the band-merging worker of the region operators (both widths), every path from the load that parks an operand\'s data in the local old_data to a return passes a free of that local or the NULL test that guards it: a bare `return FALSE` from a failed growth of the result (the RECTALLOC form, which is right inside the helpers it was written for) leaves the function without going through the cleanup, and the operand\'s rectangle array is leaked while the result is correctly broken', floor=2)
    n = 0
    for f in P.functions():
        vals = {x.i for x in f.insts() if x.dv == 'old_data' and x.ty.endswith('*')}
        if not vals or f.unit.name not in ('pixman-region16.c', 'pixman-region32.c'):
            continue
        defs = [x for x in f.insts() if x.i in vals and x.op == 'load']
        if not defs:
            continue
        def barrier(q):
            if q.op == 'call' and q.callee == 'free':
                o = f.strip_casts(q.a[0])
                return o[0] == 'v' and o[1] in vals
            if q.op == 'icmp' and any(a[0] == 'n' for a in q.a):
                return any(a[0] == 'v' and f.strip_casts(a)[1] in vals for a in q.a if a[0] == 'v')
            return False
        for d in defs:
            n += 1; ck.saw(f)
            hit = f.reach_avoiding(d, barrier, lambda q: q.op == 'ret')
            where = '%s (%s): operand data parked at %s' % (f.name, f.unit.name, d.loc())
            if hit is None:
                ck.ok(R, where, 'released on every exit')
            else:
                ck.violation(R, f.name, 'exit without releasing the parked data (%s)' % f.unit.name, '%s has a path from the point where it parks an operand\'s rectangle array in old_data (%s) to its return that passes neither free (old_data) nor the NULL test that guards it: a failure on that path returns with the array leaked' % (f.name, d.loc()), d.loc())
    if n == 0:
        raise AnalysisBroken('%s: no function parks region data in a local named old_data' % rid)


def r15_cleanup_loop_starts_at_the_first_element(ck, P, rid='C15-R15'):
    """T-COUNT: on its failure exit the region validator releases the rectangle arrays of all the partial regions it has opened,
    ri[0] .. ri[num_ri - 1].  ri[0] holds the array of the region being validated itself (the caller's region has been given the static
    empty data by then), so a loop that starts at 1 leaks exactly that block on every failure."""
    R = ck.rule(rid, 'in the region validator (both widths) every loop whose body does nothing but release storage (it calls free and no other function) over an index that counts up by one starts at index 0: the first element of the table of partial regions owns the validated region\'s own rectangle array', floor=2)
    n = 0
    for f in P.functions():
        if f.unit.name not in ('pixman-region16.c', 'pixman-region32.c') or f.name != 'validate':
            continue
        for ph in f.insts():
            if ph.op != 'phi' or ph.ty != 'i32' or len(ph.a) != 2:
                continue
            consts = [a for a in ph.a if a[0] == 'c']
            steps = [f.v(a) for a in ph.a if a[0] == 'v']
            if len(consts) != 1 or not steps or steps[0] is None or steps[0].op != 'add' or not any(list(a) == ['v', ph.i] for a in steps[0].a) or not any(a[0] == 'c' and int(a[1]) == 1 for a in steps[0].a):
                continue
            # the loop body: blocks on a path from the header back to the increment
            body = f.reachable_blocks(ph.bb.id) & {b.id for b in f.blocks if steps[0].bb.id in f.reachable_blocks(b.id)}
            calls = [q for b in body for q in f.blocks[b].insts if q.op == 'call' and not (isinstance(q.callee, str) and q.callee.startswith('llvm.'))]
            if not calls or not all(q.callee == 'free' for q in calls):
                continue
            n += 1; ck.saw(f)
            k = int(consts[0][1])
            where = '%s (%s): release loop at %s' % (f.name, f.unit.name, ph.loc())
            if k == 0:
                ck.ok(R, where, 'from index 0')
            else:
                ck.violation(R, f.name, 'release loop starts at %d (%s)' % (k, f.unit.name), '%s releases the partial regions in a loop that starts at index %d (%s): element 0 - the rectangle array of the region under validation, which the caller no longer references once the region has been marked broken - is never freed when the validation fails' % (f.name, k, ph.loc()), ph.loc())
    if n == 0:
        raise AnalysisBroken('%s: no release loop found in the region validator' % rid)
