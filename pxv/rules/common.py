"""Shared derived sets and helpers for the rules (roles are recognised structurally, DESIGN §3.6)."""
import re
from collections import defaultdict
from ..build import AnalysisBroken

_SUF = re.compile(r'\.\d+(?=[*,) \]])')


def normty(t):
    return _SUF.sub('', t + ' ').strip()


def image_structs(P):
    """struct names that are members of union pixman_image (+ the structs embedded in them)"""
    u = P.struct('pixman_image')
    out = set()
    for name, off, size, ty in u['fields']:
        out.add(ty.replace('_t', '') if ty.endswith('_t') and ty[:-2] in ('image_common', 'bits_image', 'gradient', 'linear_gradient', 'conical_gradient', 'radial_gradient', 'solid_fill') else ty)
    out |= {'image_common', 'bits_image', 'gradient', 'linear_gradient', 'conical_gradient', 'radial_gradient', 'solid_fill'}
    return {s for s in out if s}


def is_image_field(P, field):
    return field.split('.')[0] in image_structs(P)


def roots(f, o, _seen=None, depth=0):
    """set of innermost bases a pointer value may derive from, through loads, casts, GEPs, phi and select"""
    if _seen is None:
        _seen = set()
    out = set()
    if depth > 30:
        return {('?',)}
    b = f.root(f.path(o))
    if b[0] in ('phi', 'select'):
        if b[1] in _seen:
            return out
        _seen.add(b[1])
        x = f.by_id[b[1]]
        ops = x.a if x.op == 'phi' else x.a[1:]
        for a in ops:
            out |= roots(f, a, _seen, depth + 1)
        return out
    out.add(b)
    return out


def address_taken_functions(P):
    if getattr(P, '_at', None) is None:
        P._at = P.address_taken()
    return P._at


def indirect_targets(P, f, call):
    """over-approximation: address-taken functions whose type equals the called pointer's pointee type"""
    if getattr(P, '_bytype', None) is None:
        bt = defaultdict(list)
        for name in address_taken_functions(P):
            for g in P.fn_by_name.get(name, []):
                bt[normty(g.type)].append(g)
        P._bytype = bt
    o = call.d.get('callee')
    x = f.v(o) if o else None
    t = None
    if x is not None:
        t = x.ty
    elif o and o[0] == 'a':
        t = f.params[o[1]][1]
    if not t or not t.endswith('*'):
        return []
    return P._bytype.get(normty(t[:-1]), [])


def full_callgraph(P):
    """direct + type-matched indirect edges"""
    if getattr(P, '_fcg', None) is None:
        cg = {f: set(s) for f, s in P.callgraph().items()}
        for f in P.functions():
            for c in f.calls():
                if c.callee is None and 'callee' in c.d:
                    cg[f].update(indirect_targets(P, f, c))
        P._fcg = cg
    return P._fcg


def closure(P, roots_, cg=None, stop=()):
    cg = cg or full_callgraph(P)
    seen = set(); work = list(roots_)
    while work:
        f = work.pop()
        if f in seen or f.name in stop:
            continue
        seen.add(f); work.extend(cg.get(f, ()))
    return seen


def stores_field(f, field):
    """store instructions in f whose address path ends in struct.field"""
    for x in f.insts():
        if x.op == 'store':
            p = f.path(x.a[1])
            if p[1] and p[1][-1] == field:
                yield x


def find_validate(P):
    """role: the function that stores 0 into image_common.dirty"""
    out = []
    for f in P.functions():
        for x in stores_field(f, 'image_common.dirty'):
            if x.a[0][0] == 'c' and x.a[0][1] == 0:
                out.append(f); break
    if len(out) != 1:
        raise AnalysisBroken('expected exactly one function clearing image_common.dirty, found %s' % [g.name for g in out])
    return out[0]


def property_changed_functions(P):
    """role: functions stored into image_common.property_changed"""
    out = set()
    for f in P.functions():
        for x in stores_field(f, 'image_common.property_changed'):
            if x.a[0][0] == 'f':
                g = P.resolve(f, x.a[0][1])
                if g:
                    out.add(g)
    return out


def validate_closure(P):
    """V of DESIGN C14: validate, its direct callees' closure and the property_changed hooks"""
    if getattr(P, '_V', None) is None:
        v = find_validate(P)
        P._V = P.closure([v] + list(property_changed_functions(P)), stop=('_pixman_log_error',))
    return P._V


def is_log_error_block(f, b):
    return any(x.op == 'call' and x.callee == '_pixman_log_error' for x in f.blocks[b].insts)


def public_api(P):
    """exported functions (default visibility) — exactly PIXMAN_EXPORT under -fvisibility=hidden"""
    return [f for f in P.functions() if f.exported]


def value_arg_roots(f, o, limit=200):
    """parameters a (non-pointer) value is computed from: backward slice through arithmetic, casts, phi and select; a load contributes
    the parameters its address derives from"""
    out = set(); seen = set(); work = [o]
    while work and limit > 0:
        limit -= 1
        o = work.pop()
        if o[0] == 'a':
            out.add(('arg', o[1])); continue
        if o[0] != 'v' or o[1] in seen:
            continue
        seen.add(o[1])
        x = f.by_id[o[1]]
        if x.op == 'load':
            out |= {r for r in roots(f, x.a[0]) if r[0] in ('arg', 'global')}
            continue
        if x.op == 'call':
            out.add(('call', x.callee)); continue
        work.extend(a for a in x.a if a and a[0] in ('v', 'a'))
    return out


def reach_under(f, known, targets, start=0, avoid=(), cut=(), carry=(), on_edge=None, args=None):
    """Path-sensitive reachability with partial evaluation: `known(inst)` returns an int for instructions whose value is assumed
    (or None); integer/boolean arithmetic, casts, llvm.expect and phis (resolved along the path) are folded; a conditional branch whose
    condition folds takes only that side.  Returns the subset of `targets` (block ids) that some path from `start` reaches.
    `avoid`: blocks no path may enter; `cut`: edges (from, to) no path may take; `carry`: ids of phis whose incoming operand is
    carried along the path as a token ('val', operand) (a carried phi flowing into a carried phi keeps its token);
    `on_edge(from, to, tokens)` is called for every edge a path takes, cut edges included; `args`: {parameter index: assumed value}."""
    def sgn(v, bits):
        v &= (1 << bits) - 1
        return v - (1 << bits) if bits > 1 and v >> (bits - 1) else v
    hit = set()
    seen = set(); work = [(start, None, ())]
    avoid = set(avoid); cut = set(cut); carry = set(carry)
    n = 0
    while work and n < 20000:
        n += 1
        b, prev, phis = work.pop()
        if (b, prev, phis) in seen:
            continue
        seen.add((b, prev, phis))
        pv = dict(phis)

        def ev(o, d=0):
            if d > 40:
                return None
            if o[0] == 'c':
                return int(o[1])
            if o[0] == 'n':
                return 0
            if o[0] == 'a' and args and o[1] in args:
                return int(args[o[1]])
            if o[0] != 'v':
                return None
            x = f.by_id[o[1]]
            if x.i in pv:
                return pv[x.i] if isinstance(pv[x.i], int) else None
            k = known(x)
            if k is not None:
                return k
            if x.op in ('zext',):
                v = ev(x.a[0], d + 1)
                src = f.v(x.a[0])
                if v is not None and src is not None and src.ty == 'i1':
                    return v & 1
                return v
            if x.op in ('sext', 'trunc', 'freeze'):
                return ev(x.a[0], d + 1)
            if x.op == 'call' and isinstance(x.callee, str) and x.callee.startswith('llvm.expect'):
                return ev(x.a[0], d + 1)
            if x.op == 'select':
                c = ev(x.a[0], d + 1)
                if c is None:
                    return None
                return ev(x.a[1] if c else x.a[2], d + 1)
            if x.op in ('add', 'sub', 'mul', 'and', 'or', 'xor', 'icmp', 'shl', 'ashr', 'lshr'):
                p_, q_ = ev(x.a[0], d + 1), ev(x.a[1], d + 1)
                if x.op == 'and' and (p_ == 0 or q_ == 0):
                    return 0
                if x.op == 'or' and x.ty == 'i1' and (p_ == 1 or q_ == 1):
                    return 1
                if p_ is None or q_ is None:
                    return None
                if x.op == 'icmp':
                    pr = x.d['p']
                    return int({'eq': p_ == q_, 'ne': p_ != q_, 'slt': p_ < q_, 'sle': p_ <= q_, 'sgt': p_ > q_, 'sge': p_ >= q_, 'ult': p_ < q_, 'ule': p_ <= q_, 'ugt': p_ > q_, 'uge': p_ >= q_}[pr])
                w_ = int(x.ty[1:]) if x.ty.startswith('i') and x.ty[1:].isdigit() else 32
                if x.op == 'shl':
                    r_ = p_ << q_ if 0 <= q_ < 64 else 0
                elif x.op in ('ashr', 'lshr'):
                    r_ = p_ >> q_ if 0 <= q_ < 64 else 0
                else:
                    r_ = {'add': p_ + q_, 'sub': p_ - q_, 'mul': p_ * q_, 'and': p_ & q_, 'or': p_ | q_, 'xor': p_ ^ q_}[x.op]
                return (r_ & 1) if w_ == 1 else sgn(r_, w_)
            return None

        blk = f.blocks[b]
        for x in blk.insts:
            if x.op == 'phi':
                for a, bb in zip(x.a, x.d['bb']):
                    if bb == prev:
                        if x.i in carry:
                            pv[x.i] = pv[a[1]] if a[0] == 'v' and a[1] in carry and a[1] in pv else ('val', tuple(a))
                        else:
                            pv[x.i] = ev(a)
        if b in targets:
            hit.add(b)
        t = blk.term
        nxt = list(blk.succ)
        if t.op == 'br' and t.a:
            v = ev(t.a[0])
            if v is not None:
                nxt = [t.d['succ'][0] if v else t.d['succ'][1]]
        elif t.op == 'switch':
            nxt = [t.d['default']] + [bb for cv, bb in t.d.get('cases', [])]
            v = ev(t.a[0])
            if v is not None:
                hit_ = [bb for cv, bb in t.d.get('cases', []) if int(cv) == v]
                nxt = hit_ or [t.d['default']]
        # only boolean-valued phis are carried along a path (flag words built from constants would multiply the states without deciding anything)
        keep = tuple(sorted(((k, v) for k, v in pv.items() if k in carry or v in (0, 1)), key=repr))
        for n_ in nxt:
            if on_edge is not None:
                on_edge(b, n_, pv)
            if n_ in avoid or (b, n_) in cut:
                continue
            work.append((n_, b, keep))
    return hit
