"""Shared derived sets and helpers for the rules (roles are recognised structurally, DESIGN §3.6)."""
import re
from collections import defaultdict
from ..build import AnalysisBroken

_SUF = re.compile(r'\.\d+(?=[*,) \]])')


def normty(t):
    return _SUF.sub('', t + ' ').strip()


def image_structs(P):
    """struct names that are members of union pixman_image (+ the structs embedded in them)"""
    u = P.struct('pixman_image')
    out = set()
    for name, off, size, ty in u['fields']:
        out.add(ty.replace('_t', '') if ty.endswith('_t') and ty[:-2] in ('image_common', 'bits_image', 'gradient', 'linear_gradient', 'conical_gradient', 'radial_gradient', 'solid_fill') else ty)
    out |= {'image_common', 'bits_image', 'gradient', 'linear_gradient', 'conical_gradient', 'radial_gradient', 'solid_fill'}
    return {s for s in out if s}


def is_image_field(P, field):
    return field.split('.')[0] in image_structs(P)


def roots(f, o, _seen=None, depth=0):
    """set of innermost bases a pointer value may derive from, through loads, casts, GEPs, phi and select"""
    if _seen is None:
        _seen = set()
    out = set()
    if depth > 30:
        return {('?',)}
    b = f.root(f.path(o))
    if b[0] in ('phi', 'select'):
        if b[1] in _seen:
            return out
        _seen.add(b[1])
        x = f.by_id[b[1]]
        ops = x.a if x.op == 'phi' else x.a[1:]
        for a in ops:
            out |= roots(f, a, _seen, depth + 1)
        return out
    out.add(b)
    return out


def address_taken_functions(P):
    if getattr(P, '_at', None) is None:
        P._at = P.address_taken()
    return P._at


def indirect_targets(P, f, call):
    """over-approximation: address-taken functions whose type equals the called pointer's pointee type"""
    if getattr(P, '_bytype', None) is None:
        bt = defaultdict(list)
        for name in address_taken_functions(P):
            for g in P.fn_by_name.get(name, []):
                bt[normty(g.type)].append(g)
        P._bytype = bt
    o = call.d.get('callee')
    x = f.v(o) if o else None
    t = None
    if x is not None:
        t = x.ty
    elif o and o[0] == 'a':
        t = f.params[o[1]][1]
    if not t or not t.endswith('*'):
        return []
    return P._bytype.get(normty(t[:-1]), [])


def full_callgraph(P):
    """direct + type-matched indirect edges"""
    if getattr(P, '_fcg', None) is None:
        cg = {f: set(s) for f, s in P.callgraph().items()}
        for f in P.functions():
            for c in f.calls():
                if c.callee is None and 'callee' in c.d:
                    cg[f].update(indirect_targets(P, f, c))
        P._fcg = cg
    return P._fcg


def closure(P, roots_, cg=None, stop=()):
    cg = cg or full_callgraph(P)
    seen = set(); work = list(roots_)
    while work:
        f = work.pop()
        if f in seen or f.name in stop:
            continue
        seen.add(f); work.extend(cg.get(f, ()))
    return seen


def stores_field(f, field):
    """store instructions in f whose address path ends in struct.field"""
    for x in f.insts():
        if x.op == 'store':
            p = f.path(x.a[1])
            if p[1] and p[1][-1] == field:
                yield x


def find_validate(P):
    """role: the function that stores 0 into image_common.dirty"""
    out = []
    for f in P.functions():
        for x in stores_field(f, 'image_common.dirty'):
            if x.a[0][0] == 'c' and x.a[0][1] == 0:
                out.append(f); break
    if len(out) != 1:
        raise AnalysisBroken('expected exactly one function clearing image_common.dirty, found %s' % [g.name for g in out])
    return out[0]


def property_changed_functions(P):
    """role: functions stored into image_common.property_changed"""
    out = set()
    for f in P.functions():
        for x in stores_field(f, 'image_common.property_changed'):
            if x.a[0][0] == 'f':
                g = P.resolve(f, x.a[0][1])
                if g:
                    out.add(g)
    return out


def validate_closure(P):
    """V of DESIGN C14: validate, its direct callees' closure and the property_changed hooks"""
    if getattr(P, '_V', None) is None:
        v = find_validate(P)
        P._V = P.closure([v] + list(property_changed_functions(P)), stop=('_pixman_log_error',))
    return P._V


def is_log_error_block(f, b):
    return any(x.op == 'call' and x.callee == '_pixman_log_error' for x in f.blocks[b].insts)


def public_api(P):
    """exported functions (default visibility) — exactly PIXMAN_EXPORT under -fvisibility=hidden"""
    return [f for f in P.functions() if f.exported]


def value_arg_roots(f, o, limit=200):
    """parameters a (non-pointer) value is computed from: backward slice through arithmetic, casts, phi and select; a load contributes
    the parameters its address derives from"""
    out = set(); seen = set(); work = [o]
    while work and limit > 0:
        limit -= 1
        o = work.pop()
        if o[0] == 'a':
            out.add(('arg', o[1])); continue
        if o[0] != 'v' or o[1] in seen:
            continue
        seen.add(o[1])
        x = f.by_id[o[1]]
        if x.op == 'load':
            out |= {r for r in roots(f, x.a[0]) if r[0] in ('arg', 'global')}
            continue
        if x.op == 'call':
            out.add(('call', x.callee)); continue
        work.extend(a for a in x.a if a and a[0] in ('v', 'a'))
    return out
