"""Dispatch-table rules (T-TAB): fast-path tables, iterator tables, catch-alls, cache key (C02-R1..R4, C04-R2, C14-R4)."""
import re
from collections import defaultdict
from ..build import AnalysisBroken
from .. import consts
from . import common


def fmt_info(code):
    sh = (code >> 22) & 3
    return dict(bpp=((code >> 24) & 0xff) << sh, type=(code >> 16) & 0x3f,
                a=((code >> 12) & 0xf) << sh, r=((code >> 8) & 0xf) << sh, g=((code >> 4) & 0xf) << sh, b=(code & 0xf) << sh)


def composite_tables(P):
    out = []
    for u, g in P.all_globals():
        if re.match(r'\[\d+ x %struct\.pixman_fast_path_t\]$', g['type']):
            t = P.table(u, g)
            if t is None:
                raise AnalysisBroken('cannot decode table %s' % g['name'])
            out.append((u, g, t))
    return out


def iter_tables(P):
    out = []
    for u, g in P.all_globals():
        if re.match(r'\[\d+ x %struct\.pixman_iter_info_t\]$', g['type']):
            t = P.table(u, g)
            if t is None:
                raise AnalysisBroken('cannot decode table %s' % g['name'])
            out.append((u, g, t))
    return out


def fname(v):
    return v['f'] if isinstance(v, dict) and 'f' in v else None


def format_names(P):
    e = P.enum('pixman_format_code_t')
    inv = {}
    for k, v in e.items():
        inv.setdefault(v, k)
    return inv


def _reads_fields(P, f, fields, param_pred=None, depth=2, _seen=None):
    """does f (or a callee up to depth) load all of the given struct.fields?"""
    got = set()
    seen = _seen if _seen is not None else set()
    work = [(f, 0)]
    while work:
        g, d = work.pop()
        if g in seen:
            continue
        seen.add(g)
        for x in g.insts():
            if x.op == 'load':
                lf = g.last_field(g.path(x.a[0]))
                if lf in fields:
                    got.add(lf)
            elif x.op == 'call' and d < depth:
                h = P.resolve(g, x.callee)
                if h is not None:
                    work.append((h, d + 1))
    return got


def role_loads(P, f, role):
    """fields loaded from the image of a given role ('src_image','mask_image','dest_image') in a composite routine:
    loads whose path goes through pixman_composite_info_t.<role>; includes the PIXMAN_COMPOSITE_ARGS prologue locals"""
    out = set()
    # values holding info-><role>
    holders = set()
    for x in f.insts():
        if x.op == 'load':
            p = f.path(x.a[0])
            if p[1] and p[1][-1] == 'pixman_composite_info_t.' + role:
                holders.add(x.i)
    for x in f.insts():
        if x.op == 'load':
            p = f.path(x.a[0])
            fl = f.fields_of(p)
            if 'pixman_composite_info_t.' + role in fl:
                idx = fl.index('pixman_composite_info_t.' + role)
                for q in fl[idx + 1:]:
                    out.add(q)
    return out


def r1_fast_path_entries(ck, P):
    """C02-R1 / C04-R2: every fast-path entry licenses what a raw composite routine does."""
    R = ck.rule('C02-R1', 'every pixman_fast_path_t entry pins accessors/alpha-map/narrowness, filter kind and sampling geometry for each image role a raw routine reads', floor=480)
    C = consts.fast_path_flags()
    F = {k[len('FAST_PATH_'):]: v for k, v in C.items() if k.startswith('FAST_PATH_')}
    need = F['NO_ACCESSORS'] | F['NO_ALPHA_MAP'] | F['NARROW_FORMAT']
    any_, solid, null = C['PIXMAN_any'], C['PIXMAN_solid'], C['PIXMAN_null']
    names = format_names(P)
    rep_masks = {'NONE': F['NONE_REPEAT'], 'PAD': F['PAD_REPEAT'], 'NORMAL': F['NORMAL_REPEAT'], 'REFLECT': F['REFLECT_REPEAT']}
    stats = defaultdict(int)
    generic_cache = {}

    def pinned_repeats(fl):
        return [k for k, m in rep_masks.items() if fl & m == m]

    def geometry(fl):
        cn, cb = F['SAMPLES_COVER_CLIP_NEAREST'], F['SAMPLES_COVER_CLIP_BILINEAR']
        pr = pinned_repeats(fl)
        if fl & F['ID_TRANSFORM'] and fl & cn:
            return 'id-cover'
        if fl & F['ID_TRANSFORM'] and fl & F['BITS_IMAGE'] and pr == ['NORMAL']:
            return 'id-normal-repeat'
        if fl & F['SCALE_TRANSFORM'] and fl & F['NEAREST_FILTER'] and (fl & cn or len(pr) == 1):
            return 'scaled-nearest'
        if fl & F['SCALE_TRANSFORM'] and fl & F['BILINEAR_FILTER'] and (fl & cb or len(pr) == 1):
            return 'scaled-bilinear'
        if (fl & F['ROTATE_90_TRANSFORM'] or fl & F['ROTATE_270_TRANSFORM']) and fl & F['NEAREST_FILTER'] and fl & cn:
            return 'rotate'
        return None

    def fn_of(u, name):
        return u.functions.get(name) or P.fn(name, required=False)

    def self_clipping(u, func, role):
        f = fn_of(u, func)
        if f is None:
            return False
        got = role_loads(P, f, role)
        return {'image_common.repeat', 'bits_image.width', 'bits_image.height'} <= got

    def delegating(u, func, role):
        f = fn_of(u, func)
        if f is None:
            return False
        short = role.split('_')[0]
        for c in f.calls('_pixman_implementation_lookup_composite'):
            # forwards that role's format and flags from info
            ats = set()
            for a in c.a:
                ats |= f.atoms(a)
            if ('field', 'pixman_composite_info_t.%s_flags' % short) in ats:
                return True
        return False

    def format_generic(u, func, role):
        key = (u.name, func, role)
        if key not in generic_cache:
            f = fn_of(u, func)
            ok = False
            if f is not None:
                got = role_loads(P, f, role)
                ok = 'bits_image.format' in got
            generic_cache[key] = ok
        return generic_cache[key]

    def noop_routine(u, func):
        f = fn_of(u, func)
        return f is not None and not any(x.op in ('store', 'call') for x in f.insts())

    def is_general(u, func):
        # the catch-all: (OP_any, any, 0, any, 0, any, 0)
        return False

    for u, g, t in composite_tables(P):
        for idx, e in enumerate(t):
            func = fname(e['func'])
            if e['op'] == C['PIXMAN_N_OPERATORS'] and func is None:
                if idx != len(t) - 1:
                    ck.violation(R, g['name'], 'entry %d' % idx, 'PIXMAN_OP_NONE terminator in the middle of the table hides the entries after it', u.name)
                continue  # PIXMAN_OP_NONE terminator
            where = '%s[%d]' % (g['name'], idx)
            if func is None:
                ck.violation(R, g['name'], 'entry %d' % idx, 'fast-path entry with a null routine before the terminator', g.get('file', '') and '%s:%s' % (u.name, g.get('line')))
                continue
            catch_all = e['src_format'] == any_ and e['mask_format'] == any_ and e['dest_format'] == any_ and not (e['src_flags'] | e['mask_flags'] | e['dest_flags'])
            if catch_all:
                if e['op'] == C['PIXMAN_OP_any'] or noop_routine(u, func):
                    stats['catch-all'] += 1
                    ck.ok(R, where, 'catch-all %s' % func); continue
            problems = []; shapes = []
            # destination
            if delegating(u, func, 'dest_image'):
                shapes.append('dest:delegated')
            elif e['dest_flags'] & need != need:
                problems.append('destination flags 0x%x lack NO_ACCESSORS|NO_ALPHA_MAP|NARROW_FORMAT' % e['dest_flags'])
            if delegating(u, func, 'dest_image'):
                pass
            elif e['dest_format'] == any_:
                if not format_generic(u, func, 'dest_image'):
                    problems.append('destination format is PIXMAN_any but %s never reads the destination format' % func)
            elif e['dest_format'] not in names or e['dest_format'] in (solid, null):
                problems.append('destination format 0x%x is not a concrete pixel format' % e['dest_format'])
            for role, ff, fl in (('src_image', e['src_format'], e['src_flags']), ('mask_image', e['mask_format'], e['mask_flags'])):
                rn = role.split('_')[0]
                if ff in (solid, null):
                    shapes.append(rn + ':' + ('solid' if ff == solid else 'null')); continue
                if delegating(u, func, role) and not geometry(fl):
                    shapes.append(rn + ':delegated'); continue
                if fl & need != need:
                    problems.append('%s flags 0x%x lack NO_ACCESSORS|NO_ALPHA_MAP|NARROW_FORMAT' % (rn, fl))
                if not fl & (F['NO_CONVOLUTION_FILTER'] | F['NEAREST_FILTER'] | F['BILINEAR_FILTER']):
                    problems.append('%s filter kind is not pinned' % rn)
                if ff == any_ and not format_generic(u, func, role):
                    problems.append('%s format is PIXMAN_any but %s never reads that image\'s format' % (rn, func))
                geo = geometry(fl)
                if geo is None:
                    if self_clipping(u, func, role):
                        geo = 'self-clipping'
                    elif delegating(u, func, role):
                        geo = 'delegated'
                if geo is None:
                    problems.append('%s sampling geometry is not pinned by any licensed shape (flags 0x%x)' % (rn, fl))
                shapes.append(rn + ':' + str(geo))
                if role == 'mask_image':
                    ua, ca = bool(fl & F['UNIFIED_ALPHA']), bool(fl & F['COMPONENT_ALPHA'])
                    if ua == ca:
                        problems.append('mask pins %s of UNIFIED_ALPHA/COMPONENT_ALPHA' % ('both' if ua else 'neither'))
            for s in shapes:
                stats[s.split(':')[1]] += 1
            if problems:
                ck.violation(R, g['name'], 'entry %d -> %s (op %d, src %s, mask %s, dest %s)' % (idx, func, e['op'], names.get(e['src_format'], hex(e['src_format'])), names.get(e['mask_format'], hex(e['mask_format'])), names.get(e['dest_format'], hex(e['dest_format']))),
                             '; '.join(problems), '%s table %s' % (u.name, g['name']))
            else:
                ck.ok(R, where, '%s %s' % (func, ' '.join(shapes)))
    ck.note('C02-R1 shapes: ' + ', '.join('%s=%d' % kv for kv in sorted(stats.items())))


def r1b_iter_entries(ck, P):
    """C02-R1 (iterator half): raw scanline iterators are registered only for images they can address directly."""
    R = ck.rule('C02-R1i', 'every pixman_iter_info_t entry whose functions address bits directly pins accessors/alpha map, narrowness, filter and geometry; null write_back entries cannot match a destination', floor=60)
    C = consts.fast_path_flags()
    F = {k[len('FAST_PATH_'):]: v for k, v in C.items() if k.startswith('FAST_PATH_')}
    IT = P.enum('iter_flags_t')
    any_, null = C['PIXMAN_any'], C['PIXMAN_null']
    names = format_names(P)
    rep_masks = {'NONE': F['NONE_REPEAT'], 'PAD': F['PAD_REPEAT'], 'NORMAL': F['NORMAL_REPEAT'], 'REFLECT': F['REFLECT_REPEAT']}
    cover = F['SAMPLES_COVER_CLIP_NEAREST'] | F['SAMPLES_COVER_CLIP_BILINEAR']

    def raw(u, e):
        for k in ('initializer', 'get_scanline', 'write_back'):
            n = fname(e[k])
            if not n:
                continue
            f = u.functions.get(n) or P.fn(n, required=False)
            if f is None:
                continue
            if _reads_fields(P, f, {'bits_image.bits', 'pixman_iter_t.bits'}, depth=1):
                return True
        return False

    RAWF = {'bits_image.fetch_pixel_32', 'bits_image.fetch_pixel_float', 'bits_image.fetch_scanline_32', 'bits_image.fetch_scanline_float'}

    def raw_fetch(u, e):
        """the entry's functions call the image's own per-format fetch functions, which deliver the image's bits and know nothing of an
        alpha map (the general fetchers apply it on top of them)"""
        for k in ('initializer', 'get_scanline', 'write_back'):
            n = fname(e[k])
            if not n:
                continue
            f = u.functions.get(n) or P.fn(n, required=False)
            if f is None:
                continue
            for c in f.calls():
                if c.callee is None and 'callee' in c.d:
                    y = f.v(c.d['callee'])
                    if y is not None and y.op == 'load' and f.last_field(f.path(y.a[0])) in RAWF:
                        return True
        return False

    for u, g, t in iter_tables(P):
        for idx, e in enumerate(t):
            where = '%s[%d]' % (g['name'], idx)
            if e['format'] == null:
                if idx != len(t) - 1:
                    ck.violation(R, g['name'], 'entry %d' % idx, 'PIXMAN_null terminator in the middle of the iterator table hides the entries after it', u.name)
                continue
            fl, itf = e['image_flags'], e['iter_flags']
            problems = []
            if not (fname(e['initializer']) or fname(e['get_scanline'])):
                problems.append('entry has neither initializer nor get_scanline')
            # a null write_back must be unmatchable by a destination iterator
            if fname(e['write_back']) is None and not (itf & IT['ITER_SRC'] or fl & cover):
                if not (e['format'] == any_ and fl == 0 and itf == 0):      # the general catch-all sets write_back in its initializer
                    problems.append('null write_back but neither ITER_SRC nor a COVER_CLIP bit keeps a destination iterator from matching')
            if raw_fetch(u, e) and not fl & F['NO_ALPHA_MAP']:
                problems.append('its functions call the image\'s per-format fetch functions directly, which do not look at the alpha map, but the entry does not require FAST_PATH_NO_ALPHA_MAP (a 1x1 repeating image presented as solid can carry one)')
            if raw(u, e):
                if fl & (F['NO_ACCESSORS'] | F['NO_ALPHA_MAP']) != (F['NO_ACCESSORS'] | F['NO_ALPHA_MAP']):
                    problems.append('flags 0x%x lack NO_ACCESSORS|NO_ALPHA_MAP' % fl)
                fi = fmt_info(e['format'])
                narrow_fmt = e['format'] in names and e['format'] != any_ and max(fi['a'], fi['r'], fi['g'], fi['b']) <= 8 and fi['type'] not in (11, 12)
                if not (fl & F['NARROW_FORMAT'] or narrow_fmt):
                    problems.append('narrowness pinned neither by NARROW_FORMAT nor by a narrow format')
                if itf & IT['ITER_DEST']:
                    if fl & F['STD_DEST_FLAGS'] != F['STD_DEST_FLAGS']:
                        problems.append('destination iterator lacks FAST_PATH_STD_DEST_FLAGS')
                    if fname(e['write_back']) is None:
                        problems.append('destination iterator without write_back')
                else:
                    if not fl & (F['NO_CONVOLUTION_FILTER'] | F['NEAREST_FILTER'] | F['BILINEAR_FILTER'] | F['SEPARABLE_CONVOLUTION_FILTER']):
                        problems.append('filter kind is not pinned')
                    pr = [k for k, m in rep_masks.items() if fl & m == m]
                    geo = None
                    if fl & F['ID_TRANSFORM'] and fl & F['SAMPLES_COVER_CLIP_NEAREST']:
                        geo = 'id-cover'
                    elif fl & F['SCALE_TRANSFORM'] and fl & F['BILINEAR_FILTER'] and fl & F['SAMPLES_COVER_CLIP_BILINEAR']:
                        geo = 'scaled-bilinear-cover'
                    elif fl & F['HAS_TRANSFORM'] and fl & F['AFFINE_TRANSFORM'] and len(pr) == 1:
                        geo = 'affine-' + pr[0].lower()
                    if geo is None:
                        problems.append('sampling geometry is not pinned by any licensed shape (flags 0x%x)' % fl)
            if problems:
                ck.violation(R, g['name'], 'entry %d (%s: %s/%s/%s)' % (idx, names.get(e['format'], hex(e['format'])), fname(e['initializer']), fname(e['get_scanline']), fname(e['write_back'])),
                             '; '.join(problems), '%s table %s' % (u.name, g['name']))
            else:
                ck.ok(R, where, 'raw' if raw(u, e) else 'indirect')


def find_create(P):
    """role: the function that stores one of its parameters into pixman_implementation_t.fallback"""
    out = []
    for f in P.functions():
        for x in common.stores_field(f, 'pixman_implementation_t.fallback'):
            if x.a[0][0] == 'a':
                out.append((f, x.a[0][1]))
    if len(out) != 1:
        raise AnalysisBroken('expected one implementation constructor storing its fallback parameter, found %s' % [g[0].name for g in out])
    f, fb = out[0]
    tb = None
    for x in common.stores_field(f, 'pixman_implementation_t.fast_paths'):
        if x.a[0][0] == 'a':
            tb = x.a[0][1]
    if tb is None:
        raise AnalysisBroken('%s does not store a fast_paths parameter' % f.name)
    return f, fb, tb


def _table_global(f, o):
    p = f.path(o)
    return p[0][1] if p[0][0] == 'global' else None


def r2_catch_alls(ck, P):
    R = ck.rule('C02-R2', 'the implementation at the end of the delegation chain has composite and iterator catch-alls, and nothing replaces its tables', floor=4)
    C = consts.fast_path_flags()
    any_ = C['PIXMAN_any']
    create, fb, tb = find_create(P)
    bases = 0
    for f in P.functions():
        for c in f.calls(create.name):
            if c.a[fb][0] != 'n':
                continue
            bases += 1
            ck.saw(f)
            tg = _table_global(f, c.a[tb])
            u, g = P.global_(tg, required=False) if tg else (None, None)
            t = P.table(u, g) if g else None
            ok = False
            if t:
                for e in t:
                    if e['op'] == C['PIXMAN_N_OPERATORS'] and fname(e['func']) is None:
                        break
                    if e['op'] == C['PIXMAN_OP_any'] and e['src_format'] == e['mask_format'] == e['dest_format'] == any_ and not (e['src_flags'] | e['mask_flags'] | e['dest_flags']) and fname(e['func']):
                        ok = True; break
            if ok:
                ck.ok(R, '%s: composite catch-all in %s' % (f.name, tg))
            else:
                ck.violation(R, f.name, 'fast-path table of the chain end', 'the implementation created without a fallback has no (OP_any, any, 0, any, 0, any, 0) composite entry: some requests find no routine', c.loc())
            # iterator table installed on the same object in the same function
            it_ok = False
            for x in common.stores_field(f, 'pixman_implementation_t.iter_info'):
                ig = _table_global(f, x.a[0])
                u2, g2 = P.global_(ig, required=False) if ig else (None, None)
                t2 = P.table(u2, g2) if g2 else None
                if t2:
                    for e in t2:
                        if e['format'] == C['PIXMAN_null']:
                            break
                        if e['format'] == any_ and e['image_flags'] == 0 and e['iter_flags'] == 0 and fname(e['initializer']):
                            it_ok = True; break
            if it_ok:
                ck.ok(R, '%s: iterator catch-all' % f.name)
            else:
                ck.violation(R, f.name, 'iterator table of the chain end', 'the implementation created without a fallback has no (any, 0, 0) iterator entry', c.loc())
            cs = {x.callee for x in f.calls()}
            n_setup = 0
            for s in cs:
                h = P.resolve(f, s)
                if h is not None and any(True for q in ('pixman_implementation_t.combine_32', 'pixman_implementation_t.combine_float') for _ in _stores_into_array(h, q)):
                    n_setup += 1
            if n_setup >= 2:
                ck.ok(R, '%s: installs 32-bit and float combiners' % f.name)
            else:
                ck.violation(R, f.name, 'combiner setup', 'the chain end does not install both the 32-bit and the float combiner tables', c.loc())
    if bases != 1:
        ck.incomplete(R, 'expected exactly one implementation created with a null fallback, found %d' % bases)
    # nothing replaces the tables of the chain end
    for f in P.functions():
        if f is create:
            continue
        for x in common.stores_field(f, 'pixman_implementation_t.fast_paths'):
            conds = f.control_conditions(x.bb.id)
            guarded = False
            for br, succ in conds:
                if br.op == 'br' and br.a:
                    c = f.v(br.a[0])
                    if c is not None and c.op == 'icmp' and ('field', 'pixman_implementation_t.fallback') in f.atoms(br.a[0]):
                        taken_true = br.d['succ'][0] == succ
                        if (c.pred == 'ne') == taken_true:
                            guarded = True
            if guarded:
                ck.ok(R, '%s: fast_paths replaced only where fallback != NULL' % f.name)
            else:
                ck.violation(R, f.name, 'store to fast_paths', 'an implementation\'s fast-path table is replaced without testing that it has a fallback: the general catch-all can be lost', x.loc())


def _stores_into_array(f, field):
    for x in f.insts():
        if x.op == 'store':
            p = f.path(x.a[1])
            if len(p[1]) >= 2 and p[1][-2] == field and p[1][-1].startswith('['):
                yield x


SPECIAL_CLASS = {}


def r3_layouts(ck, P):
    R = ck.rule('C02-R3', 'a composite routine is registered only for pixel layouts it can interpret (same bpp per role across its entries, one channel order per entry, same channel widths)', floor=150)
    C = consts.fast_path_flags()
    any_, solid, null, pixbuf, rpixbuf = C['PIXMAN_any'], C['PIXMAN_solid'], C['PIXMAN_null'], C['PIXMAN_pixbuf'], C['PIXMAN_rpixbuf']
    names = format_names(P)
    byfunc = defaultdict(list)
    for u, g, t in composite_tables(P):
        for idx, e in enumerate(t):
            fn = fname(e['func'])
            if fn:
                byfunc[(u.name, fn)].append((g['name'], idx, e))

    def cls(code):
        if code in (solid, null):
            return None
        if code in (pixbuf, rpixbuf):
            return ('pixbuf',)
        if code == any_:
            return ('any',)
        i = fmt_info(code)
        return (i['bpp'], i['r'], i['g'], i['b'])

    def order(code):
        if code in (solid, null, any_, pixbuf, rpixbuf):
            return None
        i = fmt_info(code)
        if i['type'] == 1 or (i['r'] == 0 and i['g'] == 0 and i['b'] == 0):   # alpha-only
            return None
        return i['type']

    for (un, fn), ents in sorted(byfunc.items()):
        u = P.units[un]
        f = u.functions.get(fn) or P.fn(fn, required=False)
        problems = []
        for role in ('src', 'mask', 'dest'):
            cl = {cls(e[role + '_format']) for _, _, e in ents} - {None}
            bpps = {c[0] for c in cl}
            if len(bpps) > 1:
                # generic if the routine reads the format of an image whose depth equals this role's depth in every entry
                generic = False
                for r2 in ('src', 'mask', 'dest'):
                    if f is not None and 'bits_image.format' in role_loads(P, f, r2 + '_image') and \
                            all((cls(e[role + '_format']) or (0,))[0] == (cls(e[r2 + '_format']) or (1,))[0] for _, _, e in ents):
                        generic = True
                if not generic:
                    problems.append('%s role is registered with different depths %s but the routine never reads that image\'s format' % (role, sorted(map(str, bpps))))
            elif len(cl) > 1:
                # same bpp: channel widths must agree (a<->x substitution allowed: alpha width is not compared)
                if len({c[1:] for c in cl}) > 1:
                    problems.append('%s role is registered with different channel widths %s' % (role, sorted(cl)))
        for tn, idx, e in ents:
            if e['src_format'] in (pixbuf, rpixbuf):
                continue
            orders = {order(e[r + '_format']) for r in ('src', 'mask', 'dest')} - {None}
            if len(orders) > 1:
                problems.append('%s[%d] mixes channel orders: src %s mask %s dest %s' % (tn, idx, names.get(e['src_format']), names.get(e['mask_format']), names.get(e['dest_format'])))
        if problems:
            ck.violation(R, fn, 'table entries of %s' % fn, '; '.join(problems[:3]), un)
        else:
            ck.ok(R, '%s:%s' % (un, fn), '%d entries' % len(ents))


def find_lookup(P):
    """role: the function that loads from the thread-local cache and scans pixman_implementation_t.fast_paths"""
    for f in P.functions():
        fields = set()
        for x in f.insts():
            if x.op == 'load':
                fields.update(f.fields_of(f.path(x.a[0])))
        if 'pixman_implementation_t.fast_paths' in fields and any(q.startswith('cache_t.') for q in fields):
            return f
    raise AnalysisBroken('composite lookup function (reads fast_paths and the cache) not found')


def r4_cache_key(ck, P):
    R = ck.rule('C02-R4', 'the fast-path cache compares and stores every key member the table scan reads', floor=14)
    f = find_lookup(P)
    ck.saw(f)
    key_fields = [n for n, off, sz, ty in P.struct('pixman_fast_path_t')['fields'] if n != 'func']
    if len(key_fields) < 7:
        raise AnalysisBroken('pixman_fast_path_t has fewer than 7 key members')
    # fields compared in the scan (loads through imp->fast_paths)
    scan = set(); hit = set(); stored = set()
    for x in f.insts():
        if x.op == 'icmp':
            for o in x.a:
                y = f.v(o)
                # strip an 'and' (flags test) — (info->flags & flags) == info->flags
                cand = [y]
                if y is not None and y.op == 'and':
                    cand = [f.v(a) for a in y.a]
                for z in cand:
                    if z is not None and z.op == 'load':
                        p = f.path(z.a[0]); fl = f.fields_of(p)
                        lf = fl[-1] if fl else None
                        if lf and lf.startswith('pixman_fast_path_t.'):
                            r = f.root(p)
                            thru_cache = any(q.startswith('cache_t.') or q.endswith('.fast_path') for q in fl[:-1])
                            (hit if thru_cache else scan).add(lf.split('.')[1])
        elif x.op == 'store':
            p = f.path(x.a[1]); fl = f.fields_of(p)
            if fl and fl[-1].startswith('pixman_fast_path_t.') and any(q.endswith('.fast_path') for q in fl[:-1]):
                stored.add(fl[-1].split('.')[1])
    for k in key_fields:
        if k not in scan:
            ck.incomplete(R, 'table scan does not read key member %s (anchor changed)' % k); continue
        if k in hit:
            ck.ok(R, 'cache hit compares ' + k)
        else:
            ck.violation(R, f.name, 'cache-hit comparison of ' + k, 'the cache hit test ignores %s, which the table scan uses: the routine chosen depends on earlier requests' % k, '%s:%d' % (f.unit.name, f.line))
        if k in stored:
            ck.ok(R, 'cache update stores ' + k)
        else:
            ck.violation(R, f.name, 'cache update of ' + k, 'the move-to-front update does not record %s' % k, '%s:%d' % (f.unit.name, f.line))
    # cache object must be thread-local
    tls = [g for u, g in P.all_globals() if g['tls'] and 'cache_t' in g['type']]
    if tls:
        ck.ok(R, 'cache object is thread-local')
    else:
        ck.violation(R, f.name, 'cache object', 'the fast-path cache is not thread-local', f.unit.name)


def r15_pixbuf_substitution(ck, P):
    """the pixbuf formats stand for "mask is the alpha channel of the very pixel the source reads"""
    R = ck.rule('C02-R15', 'the pseudo-formats PIXMAN_pixbuf / PIXMAN_rpixbuf are substituted only when source and mask read the same pixels: same bits pointer, same repeat, both untransformed, and the same x and y offsets (the pixbuf fast paths read the alpha out of the source pixel itself)', floor=2)
    C = consts.fast_path_flags()
    f = P.fn('pixman_image_composite32', required=False)
    if f is None:
        ck.incomplete(R, 'pixman_image_composite32 not found'); return
    ck.saw(f)
    pn = [p[0] for p in f.params]
    want_pairs = {('src_x', 'mask_x'), ('src_y', 'mask_y')}
    n = 0
    for x in f.insts():
        if x.op != 'phi' or x.ty != 'i32':
            continue
        for a, bb in zip(x.a, x.d['bb']):
            if a[0] != 'c' or (int(a[1]) & 0xffffffff) not in (C['PIXMAN_pixbuf'] & 0xffffffff, C['PIXMAN_rpixbuf'] & 0xffffffff):
                continue
            n += 1
            have = set(); bits = False; repeat = False; idt = False
            for t, s_ in f.guard_edges(bb) | ({(f.blocks[bb].term, x.bb.id)} if f.blocks[bb].term.a else set()):
                if t.op != 'br' or not t.a:
                    continue
                c, pred, ops = f.cond(t.a[0])
                if c is None or c.op != 'icmp':
                    continue
                taken = t.d['succ'][0] == s_
                if (pred == 'eq') != taken and pred in ('eq', 'ne'):
                    if not (pred == 'ne' and not taken):
                        continue
                if pred not in ('eq', 'ne'):
                    continue
                sides = [f.strip_casts(o) for o in ops]
                if all(o[0] == 'a' for o in sides):
                    have.add(tuple(sorted((pn[sides[0][1]], pn[sides[1][1]]), reverse=True)))
                ats = f.atoms(t.a[0])
                if ('field', 'bits_image.bits') in ats:
                    bits = True
                if ('field', 'image_common.repeat') in ats:
                    repeat = True
                if ('const', C['FAST_PATH_ID_TRANSFORM']) in ats or any(a_[0] == 'const' and isinstance(a_[1], int) and a_[1] & C['FAST_PATH_ID_TRANSFORM'] == C['FAST_PATH_ID_TRANSFORM'] for a_ in ats):
                    idt = True
            have = {tuple(sorted(p_)) for p_ in have}
            missing = [('%s == %s' % p_) for p_ in want_pairs if tuple(sorted(p_)) not in have]
            if not bits:
                missing.append('same bits pointer')
            if not repeat:
                missing.append('same repeat')
            if missing:
                ck.violation(R, f.name, 'guards of the pixbuf substitution', 'pixman_image_composite32 substitutes a pixbuf pseudo-format without testing %s: the pixbuf fast paths take the mask alpha from the source pixel, which is a different pixel when the two images are offset against each other' % ', '.join(missing), x.loc())
            else:
                ck.ok(R, 'pixbuf substitution (0x%x) guarded by equal bits, repeat and offsets' % (int(a[1]) & 0xffffffff))
    if n == 0:
        ck.incomplete(R, 'no substitution of a pixbuf pseudo-format found')


def r16_repeat_of_row_matches_padding_source(ck, P, rid='C08-R22'):
    """T-TAB: the scaled main loops handle the part of a scanline that lies outside the source by compositing a *padding pixel*: the
    edge pixel of the row for REPEAT_PAD, a constant zero pixel for REPEAT_NONE (a function-local `static const zero[1]`).  The repeat
    mode a table row demands in its source flags therefore shows in the routine it names: a PAD row's routine never reads a
    function-local constant as its padding, a NONE row's routine does."""
    from .. import consts
    R = ck.rule(rid, 'for every fast-path table row whose source flags demand exactly one of the repeat modes PAD or NONE and whose routine is a scaled main loop (it calls the scanline-bounds helper for padding): the routine reads a function-local constant object (the zero pixel) if and only if the row demands NONE; a PAD row that names a routine built for NONE composites transparent black where the clamped edge pixel belongs', floor=20)
    C = consts.fast_path_flags()
    PAD, NONE_ = C['FAST_PATH_PAD_REPEAT'], C['FAST_PATH_NONE_REPEAT']
    ALL = C['FAST_PATH_NO_PAD_REPEAT'] | C['FAST_PATH_NO_NONE_REPEAT'] | C['FAST_PATH_NO_NORMAL_REPEAT'] | C['FAST_PATH_NO_REFLECT_REPEAT']
    n = 0
    for u, g, t in composite_tables(P):
        for idx, e in enumerate(t):
            fn = fname(e.get('func'))
            f = u.functions.get(fn) if fn else None
            if f is None:
                continue
            fl = int(e.get('src_flags') or 0) & ALL
            mode = 'PAD' if fl == PAD & ALL else 'NONE' if fl == NONE_ & ALL else None
            if mode is None:
                continue
            if not any(isinstance(c.callee, str) and 'pad_repeat_get_scanline_bounds' in c.callee for c in f.calls()):
                continue
            if any(isinstance(c.callee, str) and 'bilinear' in c.callee for c in f.calls()):
                continue            # the bilinear loops keep their zero pixels in a local array that mem2reg dissolves: nearest loops only
            zero = any(x.op == 'alloca' and x.dv == 'zero' for x in f.insts())      # the bilinear loops keep their zero pixels in a local array
            for x in f.insts():
                for a in x.a:
                    s_ = str(a)
                    if a and a[0] in ('g', 'ce') and (f.name + '.') in s_:
                        zero = True
            n += 1; ck.saw(f)
            where = '%s[%d]: %s (%s)' % (g['name'], idx, fn, mode)
            if zero == (mode == 'NONE'):
                ck.ok(R, where)
            else:
                ck.violation(R, fn, 'row %d of %s demands REPEAT_%s' % (idx, g['name'], mode), 'row %d of %s sends sources with REPEAT_%s to %s, which %s: the part of a scanline outside the source is composited with %s instead of %s, and the fast path disagrees with the general path there' % (idx, g['name'], mode, fn, 'pads with a function-local constant (the zero pixel of the NONE loops)' if zero else 'never reads a constant padding pixel (it pads with the edge pixel, as the PAD loops do)', 'transparent black' if zero else 'the edge pixel', 'the edge pixel' if zero else 'transparent black'), '%s table %s' % (u.name, g['name']))
    if n == 0:
        raise AnalysisBroken('%s: no PAD / NONE row naming a scaled main loop found' % rid)
