"""C01-R5: mask pre-multiplication in the floating-point combiners (T-ALG over uninterpreted blend functions).

Every function of pixman-combine-float.c that tests a pointer parameter for NULL and also loads through it handles the mask itself.
One iteration of its pixel loop is executed symbolically on the mask == NULL path and on the mask != NULL path(s); arithmetic is
exact polynomial arithmetic over the loaded components, calls (blend_*, the combine_a/combine_c function pointers) are uninterpreted
functions of their arguments and of the locals they are handed.  The rule requires

    unified:          W_masked[k]   ==  W_unmasked[k] [ s_j := s_j * m_0  for j = 0..3 ]
    component alpha:  W_masked[k]   ==  W_unmasked[k] [ s_0 := s_0 * m_k ,  s_k := s_k * m_k ]     (k = 0: s_0 := s_0 * m_0)

which is exactly "the source is multiplied by the mask before the operator's equations are applied" (Render: src IN mask).
No pixman code runs; what is not decided is the arithmetic inside the blend functions themselves.
"""
import sympy
from . import common
from .factors import _loops_of


class Unknown(Exception):
    pass


def _sym(role, k):
    return sympy.Symbol('%s%d' % (role, k))


I = sympy.Symbol('I')


class FExec:
    def __init__(self, f, roles, comp_arg):
        self.f = f; self.roles = roles; self.comp_arg = comp_arg
        self.fields = {}
        for b in f.blocks:
            for x in b.insts:
                if x.op == 'getelementptr' and x.a[0][0] == 'v' and f.by_id[x.a[0][1]].op == 'alloca':
                    off = self._off(x)
                    if off is not None:
                        self.fields.setdefault(x.a[0][1], set()).add(off)

    def _off(self, x):
        off = 0
        for st in x.d.get('path') or []:
            if st[0] == 'f':
                off += st[3]
            elif st[0] == 'p':
                if st[1][0] != 'c':
                    return None
                off += int(st[1][1]) * st[2]
            else:
                return None
        return off

    def val(self, env, o):
        k = o[0]
        if k == 'c':
            return sympy.Integer(int(o[1]))
        if k == 'fc':
            return sympy.nsimplify(float(o[1]))
        if k == 'n':
            return ('null',)
        if k == 'a':
            ty = self.f.params[o[1]][1] if o[1] < len(self.f.params) else ''
            if not ty.endswith('*') and o[1] != self.comp_arg:
                return sympy.Symbol('arg%d' % o[1])
            return ('arg', o[1])
        if k == 'v':
            if o[1] in env:
                return env[o[1]]
            x = self.f.by_id[o[1]]
            if x.op == 'alloca':
                return ('loc', x.i, 0)
            raise Unknown('value %%%d is defined outside the path' % o[1])
        if k == 'f':
            return ('fn', o[1])
        raise Unknown('operand kind %s' % k)

    def run(self):
        """all paths entry -> ret that execute at most one iteration of each loop; returns [(flags, writes)]"""
        f = self.f
        out = []
        budget = [0]
        headers = {L['header'] for L in _loops_of(f.unit).get(f.name, [])}

        def walk(b, prev, env, mem, flags, writes, visited):
            budget[0] += 1
            if budget[0] > 2000:
                raise Unknown('too many paths')
            env = dict(env); mem = dict(mem); writes = dict(writes)
            blk = f.blocks[b]
            for x in blk.insts:
                op = x.op
                if op == 'phi':
                    if b in headers:
                        env[x.i] = I if prev is not None and not writes else sympy.Symbol('I_next')
                        # the induction variable: symbolic on entry; its next value is irrelevant (path stops at the second visit)
                        continue
                    for a, bb in zip(x.a, x.d['bb']):
                        if bb == prev:
                            env[x.i] = self.val(env, a)
                    continue
                if op in ('br', 'switch', 'ret', 'unreachable'):
                    break
                self.step(x, env, mem, writes)
            t = blk.term
            if t.op == 'ret':
                out.append((dict(flags), writes)); return
            if t.op == 'br' and t.a:
                c = f.by_id[t.a[0][1]] if t.a[0][0] == 'v' else None
                dec = None
                if c is not None and c.op == 'icmp':
                    a0, a1 = self.val(env, c.a[0]), self.val(env, c.a[1])
                    key = None
                    if isinstance(a0, tuple) and a0[0] == 'arg' and a1 == ('null',):
                        key = ('null', a0[1])
                    elif isinstance(a0, tuple) and a0[0] == 'arg' and a1 == 0:
                        key = ('zero', a0[1])
                    if key is not None:
                        truth_if_eq = c.d['p'] == 'eq'
                        for sidx, s_ in enumerate(t.d['succ']):
                            holds = (sidx == 0) == truth_if_eq      # key condition (is null / is zero) holds on this edge
                            if key in flags and flags[key] != holds:
                                continue
                            if (b, s_) in visited:
                                continue
                            fl = dict(flags); fl[key] = holds
                            walk(s_, b, env, mem, fl, writes, visited | {(b, s_)})
                        return
                    if not (isinstance(a0, sympy.Basic) and isinstance(a1, (sympy.Basic, tuple))) or not (getattr(a0, 'free_symbols', set()) & {I, sympy.Symbol('I_next')}):
                        raise Unknown('branch on %s in %s is not a mask test, a component test or the loop bound' % (c.d.get('p'), f.name))
                for s_ in t.d['succ']:
                    if (b, s_) in visited:
                        continue
                    if s_ in headers and writes and s_ in {bb for bb, _ in visited}:
                        continue
                    walk(s_, b, env, mem, flags, writes, visited | {(b, s_)})
                return
            for s_ in blk.succ:
                if (b, s_) in visited:
                    continue
                walk(s_, b, env, mem, flags, writes, visited | {(b, s_)})

        walk(0, None, {}, {}, {}, {}, frozenset())
        return out

    def step(self, x, env, mem, writes):
        op = x.op
        V = lambda o: self.val(env, o)
        if op == 'alloca':
            env[x.i] = ('loc', x.i, 0); return
        if op in ('bitcast', 'sext', 'zext', 'trunc', 'fpext', 'fptrunc', 'freeze'):
            env[x.i] = V(x.a[0]); return
        if op in ('add', 'fadd'):
            env[x.i] = self._ar(V(x.a[0]), V(x.a[1]), lambda a, b: a + b); return
        if op in ('sub', 'fsub'):
            env[x.i] = self._ar(V(x.a[0]), V(x.a[1]), lambda a, b: a - b); return
        if op in ('mul', 'fmul'):
            env[x.i] = self._ar(V(x.a[0]), V(x.a[1]), lambda a, b: a * b); return
        if op == 'fdiv':
            env[x.i] = self._ar(V(x.a[0]), V(x.a[1]), lambda a, b: a / b); return
        if op == 'fneg':
            env[x.i] = self._ar(V(x.a[0]), sympy.Integer(0), lambda a, b: -a); return
        if op == 'icmp' or op == 'fcmp':
            env[x.i] = None; return
        if op == 'getelementptr':
            base = V(x.a[0])
            if isinstance(base, tuple) and base[0] == 'loc':
                off = self._off(x)
                if off is None:
                    raise Unknown('variable index into a local')
                env[x.i] = ('loc', base[1], base[2] + off); return
            if isinstance(base, tuple) and base[0] == 'arg':
                st = x.d.get('path') or []
                if len(st) != 1 or st[0][0] != 'p':
                    raise Unknown('pointer arithmetic on a parameter')
                idx = self.val(env, st[0][1])
                env[x.i] = ('elem', base[1], idx); return
            raise Unknown('address computation the rule does not interpret')
        if op == 'load':
            p = V(x.a[0])
            env[x.i] = self.load(p, mem); return
        if op == 'store':
            p = V(x.a[1]); v = V(x.a[0])
            if isinstance(p, tuple) and p[0] == 'loc':
                mem[(p[1], p[2])] = v; return
            if isinstance(p, tuple) and p[0] == 'elem' and self.roles.get(p[1]) == 'd':
                k = sympy.expand(p[2] - I)
                if not k.is_Integer:
                    raise Unknown('store to dest at a non-constant component')
                writes[int(k)] = v; return
            raise Unknown('store the rule does not interpret')
        if op == 'call':
            name = x.callee if isinstance(x.callee, str) else None
            if name and name.startswith('llvm.fmuladd'):
                a, b, c = (V(o) for o in x.a[:3])
                env[x.i] = self._ar(self._ar(a, b, lambda p, q: p * q), c, lambda p, q: p + q); return
            if name and (name.startswith('llvm.dbg') or name.startswith('llvm.lifetime')):
                return
            if name is None:
                cv = self.val(env, x.d['callee']) if isinstance(x.d.get('callee'), list) else None
                if not (isinstance(cv, tuple) and cv[0] in ('arg', 'fn')):
                    raise Unknown('indirect call through an untracked pointer')
                name = 'param%d' % cv[1] if cv[0] == 'arg' else cv[1]
            flat = []; outs = []
            for j, o in enumerate(x.a):
                v = V(o)
                if isinstance(v, tuple) and v[0] == 'loc':
                    offs = sorted(self.fields.get(v[1], {0}))
                    for off in offs:
                        flat.append(mem.get((v[1], off), sympy.Symbol('undef_%d_%d' % (v[1], off))))
                    outs.append((j, v[1], offs))
                elif isinstance(v, sympy.Basic):
                    flat.append(v)
                else:
                    raise Unknown('call argument the rule does not interpret')
            env[x.i] = sympy.Function(name)(*flat)
            for j, al, offs in outs:
                for off in offs:
                    mem[(al, off)] = sympy.Function('%s.out%d.%d' % (name, j, off))(*flat)
            return
        raise Unknown('instruction %s' % op)

    def _ar(self, a, b, fn):
        if not (isinstance(a, sympy.Basic) and isinstance(b, sympy.Basic)):
            raise Unknown('arithmetic on a pointer')
        return sympy.expand(fn(a, b))

    def load(self, p, mem):
        if isinstance(p, tuple) and p[0] == 'loc':
            if (p[1], p[2]) not in mem:
                raise Unknown('read of an uninitialised local')
            return mem[(p[1], p[2])]
        if isinstance(p, tuple) and p[0] == 'elem':
            role = self.roles.get(p[1])
            k = sympy.expand(p[2] - I)
            if role is None or not k.is_Integer or not (0 <= int(k) <= 3):
                raise Unknown('load of a component the rule cannot name')
            return _sym(role, int(k))
        raise Unknown('load through an untracked pointer')


def mask_handlers(u):
    """functions that null-test a pointer parameter and load through it: (f, {arg: role}, component arg or None)"""
    out = []
    for f in u.functions.values():
        nullt = set(); loaded = set(); stored = set(); zerot = set()
        for b in f.blocks:
            for x in b.insts:
                if x.op == 'icmp' and any(o[0] == 'n' for o in x.a):
                    nullt.update(o[1] for o in x.a if o[0] == 'a')
                if x.op == 'icmp' and any(o[0] == 'c' and int(o[1]) == 0 for o in x.a):
                    zerot.update(o[1] for o in x.a if o[0] == 'a')
                if x.op == 'load':
                    loaded.update(r[1] for r in common.roots(f, x.a[0]) if r[0] == 'arg')
                if x.op == 'store':
                    stored.update(r[1] for r in common.roots(f, x.a[1]) if r[0] == 'arg')
        m = nullt & loaded
        if len(m) != 1 or len(stored) != 1:
            continue
        d = next(iter(stored)); mk = next(iter(m))
        srcs = loaded - {d, mk}
        if len(srcs) != 1:
            continue
        out.append((f, {d: 'd', mk: 'm', next(iter(srcs)): 's'}, (sorted(zerot) or [None])[0]))
    return out


def r5_float_mask(ck, P):
    R = ck.rule('C01-R5', 'in every floating-point combiner that handles the mask itself, the masked path computes the unmasked result with each source component multiplied by the mask (unified: by mask alpha; component alpha: by the matching mask component, alpha per channel)', floor=5)
    R2 = ck.rule('C01-R5w', 'every wrapper of combine_inner forwards (dest, src, mask, n_pixels) unchanged and passes component = 0 exactly when it is stored into a unified slot', floor=80)
    u = P.units.get('pixman-combine-float.c')
    if u is None:
        ck.incomplete(R, 'pixman-combine-float.c is not part of the build'); return
    hs = mask_handlers(u)
    s = [_sym('s', k) for k in range(4)]; m = [_sym('m', k) for k in range(4)]
    for f, roles, comp in hs:
        ck.saw(f)
        try:
            paths = FExec(f, roles, comp).run()
        except Unknown as e:
            ck.incomplete(R, '%s: %s' % (f.name, e)); continue
        marg = [a for a, r in roles.items() if r == 'm'][0]
        un = [w for fl, w in paths if fl.get(('null', marg)) is True and w]
        ma = [(fl, w) for fl, w in paths if fl.get(('null', marg)) is False and w]
        if len(un) != 1 or not ma or sorted(un[0]) != [0, 1, 2, 3]:
            ck.incomplete(R, '%s: expected one unmasked iteration writing 4 components, found %d (masked %d)' % (f.name, len(un), len(ma))); continue
        W0 = un[0]
        for fl, W in ma:
            ca = comp is not None and fl.get(('zero', comp)) is False
            bad = None
            for k in range(4):
                if k not in W:
                    bad = 'component %d of dest is not written on the masked path' % k; break
                if ca:
                    sub = {s[0]: s[0] * m[k], s[k]: s[k] * m[k]} if k else {s[0]: s[0] * m[0]}
                else:
                    sub = {s[j]: s[j] * m[0] for j in range(4)}
                want = W0[k].subs(sub, simultaneous=True)
                if sympy.expand(W[k] - want) != 0 and sympy.simplify(W[k] - want) != 0:
                    bad = 'dest[%d] on the %s path differs from the unmasked formula applied to source*mask: %s' % (k, 'component-alpha' if ca else 'unified-mask', _explain(W[k], want))
                    break
            cons = '%s: %s mask path' % (f.name, 'component-alpha' if ca else 'unified')
            if bad:
                ck.violation(R, f.name, 'mask pre-multiplication (%s)' % ('component alpha' if ca else 'unified'), bad, 'pixman-combine-float.c')
            else:
                ck.ok(R, cons)
    # wrappers of combine_inner
    from . import algebra
    slots = {}
    for (un_, creator, slot), mm in algebra.slot_stores(P).items():
        if un_ == u.name and slot in ('combine_float', 'combine_float_ca'):
            for i2, (cf, x2) in mm.items():
                slots.setdefault(cf, set()).add(slot)
    inner = u.functions.get('combine_inner')
    if inner is None:
        ck.incomplete(R2, 'combine_inner not found'); return
    for f in u.functions.values():
        for b in f.blocks:
            for x in b.insts:
                if x.op == 'call' and x.callee == 'combine_inner':
                    ck.saw(f)
                    want = [None, ['a', 2], ['a', 3], ['a', 4], ['a', 5]]
                    got = [list(o[:2]) for o in x.a[:5]]
                    if got[1:] != want[1:]:
                        ck.violation(R2, f.name, 'arguments of combine_inner', '%s passes %s as (dest, src, mask, n_pixels); the combiner signature order is parameters 2..5' % (f.name, got[1:]), 'pixman-combine-float.c:%s' % x.line)
                        continue
                    comp = int(x.a[0][1]) if x.a[0][0] == 'c' else None
                    sl = slots.get(f.name, set())
                    if comp is None:
                        ck.violation(R2, f.name, 'component flag', '%s passes a non-constant component flag' % f.name); continue
                    badslot = [s_ for s_ in sl if (s_ == 'combine_float') != (comp == 0)]
                    # unified combiners that ignore the mask's colour may be stored in both tables (dst, HSL placeholders): only flag a CA routine in a unified slot or vice versa when it reads the mask
                    if badslot and not _ignores_mask_colour(x):
                        ck.violation(R2, f.name, 'component flag', '%s calls combine_inner with component=%d but is stored into %s' % (f.name, comp, ', '.join(sorted(badslot))), 'pixman-combine-float.c:%s' % x.line)
                    else:
                        ck.ok(R2, '%s -> combine_inner(component=%d) stored in %s' % (f.name, comp, ','.join(sorted(sl)) or 'no slot'))


SOURCE_INDEPENDENT = {'pd_combine_dst': 'DST: Fa = 0, Fb = 1 (factor table verified by C01-R1), the result is the destination whatever source and mask are'}


def _ignores_mask_colour(call):
    fns = [o[1] for o in call.a[5:7] if o[0] == 'f']
    return len(fns) == 2 and all(n in SOURCE_INDEPENDENT for n in fns)


def _explain(got, want):
    """name the first operand that differs between two expression trees of the same shape"""
    fg = sorted(got.atoms(sympy.Function), key=str); fw = sorted(want.atoms(sympy.Function), key=str)
    for a, b in zip(fg, fw):
        if a.func == b.func and a != b:
            for i, (x, y) in enumerate(zip(a.args, b.args)):
                if x != y:
                    return 'argument %d handed to %s is %s, expected %s' % (i, a.func, x, y)
    return 'it is %s, expected %s' % (str(got)[:200], str(want)[:200])


def r6_c_mask(ck, P, decided=()):
    R = ck.rule('C01-R6', 'every 8-bit C combiner reaches the source only through the mask helpers: unified combiners via combine_mask (src, mask, i) or under mask == NULL; component-alpha combiners pass the loaded source and mask pixels to combine_mask_ca / _value_ca / _alpha_ca before any other use (combine_mask_ca exactly when a blend function consumes both)', floor=34)
    from . import algebra
    u = P.units.get('pixman-combine32.c')
    if u is None:
        ck.incomplete(R, 'pixman-combine32.c is not part of the build'); return
    slots = {}
    for (un_, creator, slot), mm in algebra.slot_stores(P).items():
        if un_ == u.name and slot in ('combine_32', 'combine_32_ca'):
            for i2, (cf, x2) in mm.items():
                slots.setdefault(cf, set()).add(slot)
    SRC, MASK = 3, 4
    for fn, sl in sorted(slots.items()):
        f = u.functions.get(fn)
        if f is None or len(f.params) < 6:
            continue
        ck.saw(f)
        rooted = lambda o, k: o[0] in ('v', 'a') and any(r == ('arg', k) for r in common.roots(f, o))
        uses = []
        for b in f.blocks:
            for x in b.insts:
                if x.op in ('getelementptr', 'bitcast', 'phi', 'sext', 'zext'):
                    continue
                if x.op == 'call' and isinstance(x.callee, str) and x.callee.startswith('llvm.dbg'):
                    continue
                ptr_ops = [x.a[0]] if x.op == 'load' else [o for o in x.a if _is_ptr(f, o)]
                if any(rooted(o, SRC) for o in ptr_ops):
                    uses.append((b, x))
        if not uses:
            ck.ok(R, '%s does not read the source' % fn); continue
        if fn in decided:
            ck.ok(R, '%s: its whole arithmetic, mask included, is decided by C01-R4' % fn); continue
        if sl == {'combine_32'}:
            bad = None
            for b, x in uses:
                if x.op == 'call' and x.callee == 'combine_mask':
                    if not (rooted(x.a[0], SRC) and x.a[1][:2] == ['a', MASK]):
                        bad = (x, 'calls combine_mask with %s as the mask argument' % (x.a[1][:2],))
                    continue
                if _under_null_mask(f, b, MASK):
                    continue
                bad = (x, 'uses the source in a %s that is neither combine_mask (src, mask, i) nor guarded by mask == NULL' % (x.callee if x.op == 'call' else x.op))
                break
            if bad:
                ck.violation(R, fn, 'source access of unified combiner', '%s %s' % (fn, bad[1]), 'pixman-combine32.c:%s' % bad[0].line)
            else:
                ck.ok(R, '%s: source only via combine_mask or under mask == NULL' % fn)
            continue
        # component alpha
        bad = None
        blends = any(x.op == 'call' and isinstance(x.callee, str) and x.callee.startswith('blend_') for b in f.blocks for x in b.insts)
        for b, x in uses:
            if x.op != 'load':
                bad = (x, 'uses the source pointer in a %s' % (x.callee if x.op == 'call' else x.op)); break
            us = f.users(x)
            if len(us) != 1 or us[0].op != 'store' or us[0].a[1][0] != 'v' or f.by_id[us[0].a[1][1]].op != 'alloca':
                bad = (x, 'uses the loaded source pixel directly instead of handing it to a combine_mask_*ca helper'); break
            A = us[0].a[1][1]
            helper = None
            for b2 in f.blocks:
                for y in b2.insts:
                    if y.op == 'call' and y.callee in ('combine_mask_ca', 'combine_mask_value_ca', 'combine_mask_alpha_ca') and y.a[0] == ['v', A]:
                        helper = (b2, y)
            if helper is None:
                bad = (x, 'never passes the source pixel to combine_mask_ca / combine_mask_value_ca / combine_mask_alpha_ca'); break
            hb, hy = helper
            if blends and hy.callee != 'combine_mask_ca':
                bad = (hy, 'feeds a blend function but masks the source with %s, which does not produce both s*m and m*alpha(s)' % hy.callee); break
            # second argument: a local holding a pixel loaded from the mask
            B = hy.a[1]
            okm = False
            if B[0] == 'v' and f.by_id[B[1]].op == 'alloca':
                for y in f.users(f.by_id[B[1]]):
                    if y.op == 'store' and y.a[1] == B and y.a[0][0] == 'v' and f.by_id[y.a[0][1]].op == 'load' and rooted(f.by_id[y.a[0][1]].a[0], MASK):
                        okm = True
            if not okm:
                bad = (hy, 'passes something other than the loaded mask pixel as the mask argument of %s' % hy.callee); break
            # every read of the local after the store is dominated by the helper call
            esc = f.reach_avoiding(us[0], lambda y: y.i == hy.i or (y.op == 'store' and y.a[1] == ['v', A]),
                                   lambda y: (y.op == 'load' and y.a[0] == ['v', A]) or (y.op == 'call' and ['v', A] in y.a and y.i != hy.i))
            if esc is not None:
                bad = (esc, 'reads the source pixel on a path where %s has not multiplied it by the mask' % hy.callee)
            if bad:
                break
        if bad:
            ck.violation(R, fn, 'source access of component-alpha combiner', '%s %s' % (fn, bad[1]), 'pixman-combine32.c:%s' % bad[0].line)
        else:
            ck.ok(R, '%s: source pixel masked by a combine_mask_*ca helper before use' % fn)


def _is_ptr(f, o):
    if o[0] == 'v':
        return f.by_id[o[1]].ty.endswith('*')
    if o[0] == 'a':
        return o[1] < len(f.params) and f.params[o[1]][1].endswith('*')
    return False


def _under_null_mask(f, b, MASK):
    for (t, s_) in f.guard_edges(b.id):
        if t.op != 'br' or not t.a:
            continue
        c, pred, ops = f.cond(t.a[0])
        if c is None or c.op != 'icmp' or pred not in ('eq', 'ne'):
            continue
        if not (any(o[:2] == ['a', MASK] for o in ops) and any(o[0] == 'n' for o in ops)):
            continue
        taken_true = t.d['succ'][0] == s_
        if (pred == 'eq') == taken_true:
            return True
    return False


def r7_set_sat(ck, P):
    """finite orderings: the channel classification of the HSL saturation helper"""
    import itertools
    R = ck.rule('C01-R7', 'on every path through its comparison tree the HSL saturation helper names as max/mid/min three distinct channels whose order is implied by the comparisons taken (checked against all weak orderings of r, g, b)', floor=6)
    u = P.units.get('pixman-combine-float.c')
    f = u.functions.get('set_sat') if u else None
    if f is None:
        ck.incomplete(R, 'set_sat not found in pixman-combine-float.c'); return
    ck.saw(f)
    phis = {x.dv: x for x in f.insts() if x.op == 'phi' and x.ty.endswith('*') and x.dv in ('max', 'mid', 'min')}
    if set(phis) != {'max', 'mid', 'min'} or len({x.bb.id for x in phis.values()}) != 1:
        ck.incomplete(R, 'the max/mid/min selection of set_sat is no longer three pointer phis in one join block'); return
    J = next(iter(phis.values())).bb.id

    def field(o):
        p = f.path(o)
        lf = f.last_field(p)
        return lf.split('.')[-1] if lf and f.root(p) == ('arg', 0) else None

    def resolve(o, trail):
        """field a pointer value denotes on this path (trail = list of blocks visited)"""
        x = f.v(o)
        if x is not None and x.op == 'phi':
            for a, bb in zip(x.a, x.d['bb']):
                # the incoming block that this path came through
                idx = trail.index(x.bb.id) if x.bb.id in trail else None
                if idx is not None and idx > 0 and trail[idx - 1] == bb:
                    return resolve(a, trail[:idx])
            return None
        return field(o)

    paths = []

    def walk(b, trail, conds):
        trail = trail + [b]
        if b == J:
            paths.append((trail, conds)); return
        t = f.blocks[b].term
        if t.op == 'br' and t.a:
            c = f.v(t.a[0])
            if c is None or c.op != 'fcmp' or c.d['p'] not in ('ogt', 'olt', 'oge', 'ole'):
                raise Unknown('branch that is not an ordered comparison of two channels')
            l, r = f.v(c.a[0]), f.v(c.a[1])
            if l is None or r is None or l.op != 'load' or r.op != 'load':
                raise Unknown('comparison of something other than two channel loads')
            fl, fr = field(l.a[0]), field(r.a[0])
            if fl is None or fr is None:
                raise Unknown('comparison operand is not a channel of the colour argument')
            for sidx, s_ in enumerate(t.d['succ']):
                walk(s_, trail, conds + [(c.d['p'], fl, fr, sidx == 0)])
        else:
            for s_ in f.blocks[b].succ:
                walk(s_, trail, conds)

    try:
        walk(0, [], [])
    except Unknown as e:
        ck.incomplete(R, 'set_sat: %s' % e); return
    OPS = {'ogt': lambda a, b: a > b, 'olt': lambda a, b: a < b, 'oge': lambda a, b: a >= b, 'ole': lambda a, b: a <= b}
    for trail, conds in paths:
        sel = {k: resolve(['v', ph.i], trail) for k, ph in phis.items()}
        desc = ' and '.join('%s %s %s' % (a, {'ogt': '>', 'olt': '<', 'oge': '>=', 'ole': '<='}[p] if tv else {'ogt': '<=', 'olt': '>=', 'oge': '<', 'ole': '>'}[p], b) for p, a, b, tv in conds)
        if None in sel.values() or len(set(sel.values())) != 3:
            ck.violation(R, f.name, 'path ' + desc, 'on the path %s set_sat names %s as max/mid/min: not three distinct channels' % (desc, sel), '%s:%d' % (u.name, f.line)); continue
        feasible = False; bad = None
        for rk in itertools.product(range(3), repeat=3):
            val = dict(zip(('r', 'g', 'b'), rk))
            if all(OPS[p](val[a], val[b]) == tv for p, a, b, tv in conds):
                feasible = True
                if not (val[sel['max']] >= val[sel['mid']] >= val[sel['min']]):
                    bad = val; break
        if not feasible:
            ck.ok(R, 'path %s: infeasible' % desc); continue
        if bad:
            ck.violation(R, f.name, 'path ' + desc, 'on the path %s set_sat takes max=%s, mid=%s, min=%s, but e.g. the ordering r=%d g=%d b=%d satisfies the comparisons and contradicts it: the wrong channel is zeroed / scaled' % (desc, sel['max'], sel['mid'], sel['min'], bad['r'], bad['g'], bad['b']), '%s:%d' % (u.name, f.line))
        else:
            ck.ok(R, 'path %s: max=%s mid=%s min=%s' % (desc, sel['max'], sel['mid'], sel['min']))


# ------------------------------------------------------------------------------ C01-R11: bi-homogeneity of the premultiplied blend functions
def r11_blend_degrees(ck, P):
    """T-ALG (dimensional analysis): a premultiplied blend result is sa*da*B(s/sa, d/da); every quantity therefore carries a degree
    (source, destination): s and sa are (1,0), d and da are (0,1), and every value a blend function returns or stores into its result
    is of degree (1,1).  Sums and comparisons need equal degrees, products add them.  A term such as Sat(d)*da has degree (0,2)."""
    R = ck.rule('C01-R11', 'every float blend function is bi-homogeneous: with the source colour and alpha of degree (1,0) and the destination colour and alpha of degree (0,1), sums and comparisons combine terms of equal degree and every value returned, stored into the result colour or handed to set_sat / set_lum has degree (1,1) - the form sa*da*B(s/sa, d/da) of the separable and non-separable PDF blend modes', floor=15)
    u = P.units.get('pixman-combine-float.c')
    if u is None:
        ck.incomplete(R, 'pixman-combine-float.c not compiled'); return
    ANY = 'any'
    for fn, f in sorted(u.functions.items()):
        if not fn.startswith('blend_'):
            continue
        pn = [p[0] for p in f.params]; pt = [p[1] for p in f.params]
        deg_arg = {}
        res_arg = None
        for i, (n_, t_) in enumerate(zip(pn, pt)):
            if t_ == 'float':
                deg_arg[i] = (1, 0) if n_ in ('sa', 's') else (0, 1) if n_ in ('da', 'd') else None
            elif t_.endswith('*'):
                if n_ == 'src':
                    deg_arg[i] = (1, 0)
                elif n_ == 'dest':
                    deg_arg[i] = (0, 1)
                elif n_ == 'res':
                    res_arg = i
        if any(v is None for v in deg_arg.values()):
            ck.incomplete(R, '%s: parameter roles not recognised (%s)' % (fn, pn)); continue
        ck.saw(f)
        problems = []; memo = {}
        def deg(o, d=0):
            """degree of a float value: (a, b) | ANY (the constant 0) | None (unknown)"""
            if o[0] == 'fc':
                return ANY if abs(float(o[1])) < 1e-30 else (0, 0)      # 0 and the +-FLT_MIN of FLOAT_IS_ZERO stand for zero of any degree
            if o[0] == 'c':
                return ANY if int(o[1]) == 0 else (0, 0)
            if o[0] == 'a':
                return deg_arg.get(o[1])
            if o[0] != 'v' or d > 60:
                return None
            if o[1] in memo:
                return memo[o[1]]
            x = f.by_id[o[1]]
            r = None
            if x.op in ('fmul', 'fdiv'):
                a, b = deg(x.a[0], d + 1), deg(x.a[1], d + 1)
                if a == ANY or (b == ANY and x.op == 'fmul'):
                    r = ANY
                elif a is None or b is None or b == ANY:
                    r = None
                else:
                    r = (a[0] + b[0], a[1] + b[1]) if x.op == 'fmul' else (a[0] - b[0], a[1] - b[1])
            elif x.op in ('fadd', 'fsub', 'phi', 'select'):
                ops = x.a if x.op != 'select' else x.a[1:]
                ds = [deg(q, d + 1) for q in ops]
                real = [q for q in ds if q not in (ANY,)]
                if any(q is None for q in real):
                    r = None
                elif not real:
                    r = ANY
                elif len(set(real)) == 1:
                    r = real[0]
                else:
                    problems.append((x, 'adds or merges terms of degrees %s' % sorted(set(real)))); r = real[0]
            elif x.op == 'fneg':
                r = deg(x.a[0], d + 1)
            elif x.op in ('fpext', 'fptrunc'):
                r = deg(x.a[0], d + 1)
            elif x.op == 'load':
                p = f.path(x.a[0]); root = f.root(p)
                if root[0] == 'arg' and root[1] in deg_arg:
                    r = deg_arg[root[1]]
                elif root[0] == 'arg' and root[1] == res_arg:
                    r = (1, 1)
                else:
                    r = None
            elif x.op == 'call' and x.callee:
                cal = x.callee
                if cal.startswith('llvm.fmuladd'):
                    a, b, c = (deg(q, d + 1) for q in x.a[:3])
                    m = None if (a in (None,) or b in (None,)) else (ANY if ANY in (a, b) else (a[0] + b[0], a[1] + b[1]))
                    real = [q for q in (m, c) if q != ANY]
                    if any(q is None for q in real):
                        r = None
                    elif not real:
                        r = ANY
                    elif len(set(real)) == 1:
                        r = real[0]
                    else:
                        problems.append((x, 'adds terms of degrees %s' % sorted(set(real)))); r = real[0]
                elif cal in ('get_sat', 'get_lum', 'channel_min', 'channel_max'):
                    a = x.a[0]
                    if a[0] == 'a':
                        r = (1, 1) if a[1] == res_arg else deg_arg.get(a[1])
                elif cal in ('sqrtf', 'llvm.sqrt.f32', 'sqrt'):
                    a = deg(x.a[0], d + 1)
                    r = (a[0] // 2, a[1] // 2) if isinstance(a, tuple) and a[0] % 2 == 0 and a[1] % 2 == 0 else (None if a != ANY else ANY)
                elif cal in ('fabsf', 'llvm.fabs.f32', 'fminf', 'fmaxf', 'llvm.minnum.f32', 'llvm.maxnum.f32'):
                    ds = [deg(q, d + 1) for q in x.a if q and q[0] in ('v', 'a', 'fc')]
                    real = [q for q in ds if q != ANY]
                    r = real[0] if real and len(set(real)) == 1 and None not in real else (ANY if not real else None)
            memo[o[1]] = r
            return r
        checked = 0
        def need11(o, what, x):
            nonlocal checked
            dd = deg(o)
            checked += 1
            if dd is None:
                problems.append((x, '%s has a degree the rule cannot determine' % what)); return
            if dd not in (ANY, (1, 1)):
                problems.append((x, '%s has degree (source %d, destination %d) instead of (1, 1)' % (what, dd[0], dd[1])))
        for x in f.insts():
            if x.op == 'ret' and x.a and x.a[0][0] in ('v', 'a', 'fc'):
                need11(x.a[0], 'the value returned', x)
            elif x.op == 'store' and res_arg is not None and f.root(f.path(x.a[1])) == ('arg', res_arg):
                need11(x.a[0], 'the value stored into the result colour', x)
            elif x.op == 'call' and x.callee in ('set_sat', 'set_lum'):
                for k, a in enumerate(x.a[1:], 1):
                    need11(a, 'argument %d of %s' % (k, x.callee), x)
            elif x.op == 'fcmp':
                a, b = deg(x.a[0]), deg(x.a[1])
                if isinstance(a, tuple) and isinstance(b, tuple) and a != b:
                    problems.append((x, 'compares quantities of degrees %s and %s' % (a, b)))
        hard = [p for p in problems if 'cannot determine' not in p[1]]
        if hard:
            x, why = hard[0]
            ck.violation(R, fn, 'degree at %s' % x.loc(), '%s: %s. With premultiplied operands every term of a blend result scales with the source alpha and with the destination alpha exactly once (sa*da*B(s/sa, d/da)); this term does not, so the result is wrong whenever the two alphas differ and the images are not both opaque' % (fn, why), x.loc())
        elif problems:
            ck.incomplete(R, '%s: %s (%s)' % (fn, problems[0][1], problems[0][0].loc()))
        elif checked == 0:
            ck.incomplete(R, '%s: nothing to check' % fn)
        else:
            ck.ok(R, '%s: %d values of degree (1,1)' % (fn, checked))


def r11b_blend_degrees_8bit(ck, P):
    """the same dimensional analysis for the separable PDF blend functions of the 8-bit pipeline (integer arithmetic, results scaled by
    255 * 255 and normalised by the caller)"""
    R = ck.rule('C01-R12', 'every 8-bit blend function (blend_screen ... blend_exclusion, parameters d, ad, s, as) is bi-homogeneous: sums, differences and comparisons combine terms of equal degree and the value returned has degree (1,1) in (source, destination)', floor=7)
    u = P.units.get('pixman-combine32.c')
    if u is None:
        ck.incomplete(R, 'pixman-combine32.c not compiled'); return
    ANY = 'any'
    DEG = {'s': (1, 0), 'as': (1, 0), 'd': (0, 1), 'ad': (0, 1)}
    for fn, f in sorted(u.functions.items()):
        if not fn.startswith('blend_'):
            continue
        pn = [p[0] for p in f.params]
        if set(pn) != set(DEG):
            ck.incomplete(R, '%s: parameter roles not recognised (%s)' % (fn, pn)); continue
        ck.saw(f)
        problems = []; memo = {}
        def deg(o, d=0):
            if o[0] == 'c':
                return ANY if int(o[1]) == 0 else (0, 0)
            if o[0] == 'a':
                return DEG[pn[o[1]]]
            if o[0] != 'v' or d > 60:
                return None
            if o[1] in memo:
                return memo[o[1]]
            x = f.by_id[o[1]]; r = None
            if x.op in ('mul', 'shl'):
                a, b = deg(x.a[0], d + 1), deg(x.a[1], d + 1)
                if x.op == 'shl':
                    b = (0, 0)
                r = ANY if ANY in (a, b) else (None if None in (a, b) else (a[0] + b[0], a[1] + b[1]))
            elif x.op in ('sdiv', 'udiv'):
                a, b = deg(x.a[0], d + 1), deg(x.a[1], d + 1)
                r = ANY if a == ANY else (None if None in (a, b) or b == ANY else (a[0] - b[0], a[1] - b[1]))
            elif x.op in ('add', 'sub', 'phi', 'select'):
                ops = x.a if x.op != 'select' else x.a[1:]
                ds = [deg(q, d + 1) for q in ops]
                real = [q for q in ds if q != ANY]
                if any(q is None for q in real):
                    r = None
                elif not real:
                    r = ANY
                elif len(set(real)) == 1:
                    r = real[0]
                else:
                    problems.append((x, 'adds or merges terms of degrees %s' % sorted(set(real)))); r = real[0]
            elif x.op in ('sext', 'zext', 'trunc'):
                r = deg(x.a[0], d + 1)
            memo[o[1]] = r
            return r
        checked = 0
        for x in f.insts():
            if x.op == 'ret' and x.a:
                dd = deg(x.a[0]); checked += 1
                if dd is None:
                    problems.append((x, 'the value returned has a degree the rule cannot determine'))
                elif dd not in (ANY, (1, 1)):
                    problems.append((x, 'the value returned has degree (source %d, destination %d) instead of (1, 1)' % dd))
            elif x.op == 'icmp':
                a, b = deg(x.a[0]), deg(x.a[1])
                if isinstance(a, tuple) and isinstance(b, tuple) and a != b:
                    problems.append((x, 'compares quantities of degrees %s and %s' % (a, b)))
        hard = [p for p in problems if 'cannot determine' not in p[1]]
        if hard:
            x, why = hard[0]
            ck.violation(R, fn, 'degree at %s' % x.loc(), '%s: %s. A premultiplied blend term scales with the source alpha and with the destination alpha exactly once; this one does not, so the result is wrong whenever the two alphas differ' % (fn, why), x.loc())
        elif problems:
            ck.incomplete(R, '%s: %s (%s)' % (fn, problems[0][1], problems[0][0].loc()))
        else:
            ck.ok(R, '%s: %d return values of degree (1,1)' % (fn, checked))
