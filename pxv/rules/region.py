"""Region rules (C05, C06, C07, C15-R4) — evaluated on both instantiations (region16 / region32)."""
import re
from collections import defaultdict
from ..build import AnalysisBroken
from . import common
from .threads import param_write_summaries

UNITS = ('pixman-region16.c', 'pixman-region32.c')


def _w(u):
    return '32' if u.name.endswith('32.c') else '16'


def _reg(u):
    return 'pixman_region32' if u.name.endswith('32.c') else 'pixman_region16'


def units(P):
    out = []
    for n in UNITS:
        u = P.units.get(n)
        if u is None:
            raise AnalysisBroken(n + ' not compiled')
        out.append(u)
    return out


def find_break(u):
    """role: stores the broken sentinel into region.data and returns 0"""
    for f in u.functions.values():
        if f.internal and len(f.params) == 1:
            st = [x for x in f.insts() if x.op == 'store' and f.last_field(f.path(x.a[1])) == _reg(u) + '.data' and _is_global_load(f, x.a[0], 'pixman_broken_data')]
            r = f.rets()
            if st and r and r[0].a and r[0].a[0][0] == 'c' and r[0].a[0][1] == 0:
                return f
    raise AnalysisBroken('break function not found in ' + u.name)


def _is_global_load(f, o, g):
    y = f.v(f.strip_casts(o))
    return y is not None and y.op == 'load' and f.path(y.a[0])[0] == ('global', g)


def find_op(u):
    """role: the band-sweep function — internal, calls through a function-pointer parameter"""
    for f in u.functions.values():
        if not f.internal:
            continue
        for c in f.calls():
            if c.callee is None and c.d.get('callee', [None])[0] == 'a' and len(f.params) >= 4:
                return f
    raise AnalysisBroken('band sweep function (pixman_op) not found in ' + u.name)


def break_events(P, u, f, k, FB):
    """predicate: instruction that leaves parameter k of f as the broken region (or frees nothing and marks it broken)"""
    brk = find_break(u)
    def pred(x):
        if x.op == 'store' and f.last_field(f.path(x.a[1])) == _reg(u) + '.data' and _is_global_load(f, x.a[0], 'pixman_broken_data'):
            return any(r == ('arg', k) for r in common.roots(f, x.a[1]))
        if x.op == 'call':
            g = u.functions.get(x.callee or '')
            if g is None:
                return False
            for j, a in enumerate(x.a):
                if (g, j) in FB and any(r == ('arg', k) for r in common.roots(f, a)) and f.path(a)[0][0] != 'load':
                    return True
        return False
    return pred


def zero_return_points(f):
    """([blocks from whose end constant 0 flows into the returned value], [(call inst whose result is returned, block)]).
    A zero that flows through status-variable phis is dropped when every path from its source to the return is cut by a
    test of that very variable (`if (!ret) goto bail`): path-insensitive merging would otherwise invent an infeasible return."""
    zeros = []; calls = []
    for r in f.rets():
        if not r.a:
            continue
        chain = set()
        found = []
        def walk(o, frm, depth=0, top=None):
            if depth > 8:
                return
            if o[0] == 'c':
                if int(o[1]) == 0:
                    found.append((frm, top if top is not None else frm))
                return
            y = f.v(o)
            if y is None:
                return
            if y.op == 'phi':
                if y.i in chain:
                    return
                chain.add(y.i)
                for a, bb in zip(y.a, y.d['bb']):
                    walk(a, bb, depth + 1, top if top is not None else (bb if y.bb.id == r.bb.id else None))
            elif y.op == 'call':
                calls.append((y, frm))
            elif y.op in ('zext', 'sext', 'trunc'):
                walk(y.a[0], frm, depth + 1, top)
            else:
                found.append((frm, top if top is not None else frm))       # computed value: may be 0
        walk(r.a[0], r.bb.id)
        for z, tgt in found:
            # feasibility: from z reach the return without taking the non-zero side of a test of the status variable
            seen = set(); work = [z]; ok = False
            while work:
                b = work.pop()
                if b in seen:
                    continue
                seen.add(b)
                if b == tgt:
                    ok = True; break
                t = f.blocks[b].term
                nxt = list(f.blocks[b].succ)
                if t.op == 'br' and t.a:
                    c, pred, ops = f.cond(t.a[0])
                    if c is not None and c.op == 'icmp' and pred in ('eq', 'ne') and any(o[0] == 'c' and int(o[1]) == 0 for o in ops):
                        v = [f.strip_casts(o) for o in ops if o[0] != 'c']
                        if v and v[0][0] == 'v' and v[0][1] in chain:
                            nxt = [t.d['succ'][0] if pred == 'eq' else t.d['succ'][1]]
                    elif c is not None and pred in ('is', 'not') and ops and f.strip_casts(ops[0])[0] == 'v' and f.strip_casts(ops[0])[1] in chain:
                        nxt = [t.d['succ'][1] if pred == 'is' else t.d['succ'][0]]
                work.extend(nxt)
            if ok:
                zeros.append(z)
    return zeros, calls


def fails_broken(P, u):
    """FB = {(Function, param idx)}: whenever the function returns 0 it has left that region parameter broken"""
    W = param_write_summaries(P)
    FB = set()
    brk = find_break(u)
    FB.add((brk, 0))
    cands = [(f, k) for f in u.functions.values() if f.dret == 'pixman_bool_t' for k, (n, t) in enumerate(f.params) if _reg(u) + '*' in t and k in W[f]]
    changed = True
    while changed:
        changed = False
        for f, k in cands:
            if (f, k) in FB:
                continue
            if _check_fb(P, u, f, k, FB) is None:
                FB.add((f, k)); changed = True
    return FB


def _check_fb(P, u, f, k, FB):
    """None if every 0-return of f follows a break event on param k; else the offending (block, why)"""
    ev = break_events(P, u, f, k, FB)
    evblocks = {x.bb.id for x in f.insts() if ev(x)}
    zeros, calls = zero_return_points(f)
    for c, frm in calls:
        g = u.functions.get(c.callee or '')
        ok = False
        if g is not None:
            for j, a in enumerate(c.a):
                if (g, j) in FB and any(r == ('arg', k) for r in common.roots(f, a)):
                    ok = True
        if not ok:
            # a returned callee result that may be 0 without the result being broken
            if g is not None and g.dret == 'pixman_bool_t' and any(_reg(u) in t for n, t in g.params):
                return (frm, 'returns the result of %s, which can fail without breaking the result' % c.callee)
    for z in zeros:
        # a FALSE return taken under the test that the result already is the broken region needs no further marking
        already = False
        for br, succ in f.guard_edges(z):
            if not br.a:
                continue
            c, pred, ops = f.cond(br.a[0])
            if c is not None and c.op == 'icmp' and pred in ('eq', 'ne') and len(ops) == 2:
                sides = [f.v(f.strip_casts(o)) for o in ops]
                isb = [y is not None and y.op == 'load' and f.path(y.a[0])[0] == ('global', 'pixman_broken_data') for y in sides]
                isd = [y is not None and y.op == 'load' and f.last_field(f.path(y.a[0])) == _reg(u) + '.data' and f.root(f.path(y.a[0])) == ('arg', k) for y in sides]
                if any(isb) and any(isd) and (pred == 'eq') == (br.d['succ'][0] == succ):
                    already = True
        if already:
            continue
        # path from entry to z avoiding break events; caller-bug exits (log_error) and paths on which the operand was already broken are ignored
        seen = set(); work = [0]; reach = False
        while work:
            b = work.pop()
            if b in seen:
                continue
            seen.add(b)
            if b in evblocks:
                continue
            if common.is_log_error_block(f, b):
                continue
            if b == z:
                reach = True; break
            t = f.blocks[b].term
            nxt = list(f.blocks[b].succ)
            # the edge on which an operand's data equals the broken sentinel: the caller passed a broken region; result handled by break events only
            work.extend(nxt)
        if reach:
            return (z, 'returns FALSE on a path that never marks the result broken')
    return None


def r2_failure_protocol(ck, P):
    R = ck.rule('C05-R2', 'every exported region operation that returns FALSE has left its result as the broken region (pixman_break, a callee with that guarantee, or the broken sentinel)', floor=12)
    W = param_write_summaries(P)
    for u in units(P):
        FB = fails_broken(P, u)
        for f in u.functions.values():
            if not f.exported or f.dret != 'pixman_bool_t' or not f.params:
                continue
            if _reg(u) + '*' not in f.params[0][1] or 0 not in W[f]:
                continue
            ck.saw(f)
            bad = _check_fb(P, u, f, 0, FB)
            if bad is None:
                ck.ok(R, '%s' % f.name)
            else:
                ck.violation(R, f.name, 'FALSE return', '%s %s: later operations do not see the failure and fini may free a stale pointer' % (f.name, bad[1]), '%s (block %d)' % (u.name, bad[0]))
    return


def r1_aliasing(ck, P):
    R = ck.rule('C05-R1', 'the band sweep resets the result only under pointer comparisons with both operands, keeps the old rectangles until the end and frees them on every exit; copy tests dst == src', floor=6)
    for u in units(P):
        op = find_op(u); ck.saw(op)
        # the store that empties new_reg before the sweep: new_reg->data = empty sentinel, control-dependent on arg0==arg1 / arg0==arg2
        st = [x for x in op.insts() if x.op == 'store' and op.last_field(op.path(x.a[1])) == _reg(u) + '.data' and _is_global_load(op, x.a[0], 'pixman_region_empty_data') and op.root(op.path(x.a[1])) == ('arg', 0)]
        saved = None
        for x in st:
            cmp_with = set()
            for br, succ in op.control_conditions(x.bb.id):
                c = op.v(br.a[0]) if br.a else None
                if c is not None and c.op == 'icmp' and c.pred == 'eq':
                    s = {tuple(op.strip_casts(o)) for o in c.a}
                    if ('a', 0) in s:
                        cmp_with |= {o[1] for o in s if o[0] == 'a' and o[1] != 0}
            if cmp_with:
                saved = (x, cmp_with)
        if saved is None:
            ck.violation(R, op.name, 'aliasing guard (%s)' % _w(u), 'the band sweep does not test whether the result is one of its operands before discarding the result\'s rectangles', '%s:%d' % (u.name, op.line)); continue
        x, cw = saved
        if cw >= {1, 2}:
            ck.ok(R, '%s/%s: result compared with both operands' % (u.name, op.name))
        else:
            ck.violation(R, op.name, 'aliasing guard (%s)' % _w(u), 'the result is compared only with operand %s: when it is the other operand its rectangles are overwritten while still being read' % sorted(cw), x.loc())
        # each alias test is paired with the rectangle count of the operand it names (one rectangle lives inline in extents and needs no saving)
        for pb in op.blocks[x.bb.id].preds if hasattr(op.blocks[x.bb.id], 'preds') else [b.id for b in op.blocks if x.bb.id in b.succ]:
            pb = pb if isinstance(pb, int) else pb.id
            t = op.blocks[pb].term
            if t.op != 'br' or not t.a:
                continue
            c = op.v(t.a[0])
            if c is None or c.op != 'icmp':
                continue
            alias = set()
            for br, succ in op.guard_edges(pb):
                cc = op.v(br.a[0]) if br.a else None
                if cc is not None and cc.op == 'icmp' and cc.pred == 'eq' and br.d['succ'][0] == succ:
                    s_ = {tuple(op.strip_casts(o)) for o in cc.a}
                    if ('a', 0) in s_:
                        alias |= {o[1] for o in s_ if o[0] == 'a' and o[1] != 0}
            if c.pred == 'eq' and {tuple(op.strip_casts(o)) for o in c.a} >= {('a', 0)}:
                continue            # the alias test itself leading straight to the store (no count conjunct)
            if len(alias) != 1:
                continue
            k = next(iter(alias))
            vs = [o for o in c.a if o[0] == 'v']
            rts = set()
            for o in vs:
                rts |= {r for r in common.value_arg_roots(op, o) if r[0] == 'arg'}
            if rts == {('arg', k)}:
                ck.ok(R, '%s/%s: alias with operand %d paired with the rectangle count of operand %d' % (u.name, op.name, k, k))
            else:
                ck.violation(R, op.name, 'alias test paired with a rectangle count (%s)' % _w(u), 'the test "result is operand %d" is combined with a count taken from %s: when operand %d has several rectangles and the other has one, the result overwrites rectangles that are still being read' % (k, sorted(r[1] for r in rts) or 'no operand', k), t.loc())
        # the same pairing by partial evaluation (the alias tests may share one count conjunct): when the result is operand k and nothing
        # but "operand k has two rectangles" is known, the sweep cannot get past the point where the old rectangles are set aside
        succs = list(op.blocks[x.bb.id].succ)
        if len(succs) == 1:
            J = succs[0]
            for k in (1, 2):
                kv = {}
                for c in op.insts():
                    if c.op != 'icmp':
                        continue
                    cs = [o for o in c.a if o[0] == 'c']; vs = [o for o in c.a if o[0] == 'v']
                    if len(cs) == 1 and len(vs) == 1 and int(cs[0][1]) in (0, 1, 2):
                        y = op.v(vs[0])
                        if y is not None and y.ty in ('i32', 'i64') and {r for r in common.value_arg_roots(op, vs[0]) if r[0] == 'arg'} == {('arg', k)} and not common.value_arg_roots(op, vs[0]) - {('arg', k)}:
                            kv[y.i] = 2
                def known(c, k=k, kv=kv):
                    if c.i in kv:
                        return kv[c.i]
                    if c.op == 'icmp' and c.pred in ('eq', 'ne'):
                        s_ = {tuple(op.strip_casts(o)) for o in c.a}
                        if ('a', 0) in s_ and len(s_) == 2:
                            o2 = [o for o in s_ if o != ('a', 0)][0]
                            if o2[0] == 'a' and o2[1] in (1, 2):
                                eq = (o2[1] == k)
                                return int(eq if c.pred == 'eq' else not eq)
                    return None
                hit = common.reach_under(op, known, {J}, avoid={x.bb.id})
                where = '%s/%s: result is operand %d with two rectangles' % (u.name, op.name, k)
                if J in hit:
                    ck.violation(R, op.name, 'old rectangles not set aside when the result is operand %d (%s)' % (k, _w(u)), 'when the result region is operand %d and that operand has more than one rectangle (nothing being known about the other operand), the sweep can reach the point after the save (%s) without having set the old rectangle array aside: the rectangles are overwritten, or reallocated, while they are still being read' % (k, x.loc()), x.loc())
                else:
                    ck.ok(R, where, 'old rectangles always set aside')
        # old data freed on all exits
        phis = [y for y in op.insts() if y.op == 'phi' and y.dv == 'old_data' or (y.op == 'phi' and any(op.v(a) is not None and op.v(a).op == 'load' and op.last_field(op.path(op.v(a).a[0])) == _reg(u) + '.data' and op.root(op.path(op.v(a).a[0])) == ('arg', 0) for a in y.a) and any(a[0] == 'n' for a in y.a))]
        if not phis:
            ck.incomplete(R, '%s: saved old data not recognised' % op.name)
        else:
            ph = phis[0]
            frees = [c for c in op.calls('free') if op.strip_casts(c.a[0]) == ['v', ph.i]]
            fb = {c.bb.id for c in frees}
            # all paths from the phi to a return pass a block that frees it (free is under old_data != NULL, which is fine: check via guard on null)
            def barrier(y):
                if y.op == 'call' and y.callee == 'free' and op.strip_casts(y.a[0]) == ['v', ph.i]:
                    return True
                if y.op == 'br' and y.a:
                    return False
                return False
            # treat the null-test false edge as released: walk blocks
            seen = set(); work = [ph.bb.id]; leak = None
            while work:
                b = work.pop()
                if b in seen:
                    continue
                seen.add(b)
                blk = op.blocks[b]
                if any(barrier(y) for y in blk.insts):
                    continue
                t = blk.term
                if t.op == 'ret':
                    leak = t; break
                nxt = list(blk.succ)
                if t.op == 'br' and t.a:
                    c = op.v(t.a[0])
                    if c is not None and c.op == 'icmp' and any(o[0] == 'n' for o in c.a) and any(op.strip_casts(o) == ['v', ph.i] for o in c.a):
                        nullside = t.d['succ'][0] if c.pred == 'eq' else t.d['succ'][1]
                        nxt = [s for s in nxt if s != nullside]
                work.extend(nxt)
            if leak is None and frees:
                ck.ok(R, '%s/%s: saved rectangles freed on every exit' % (u.name, op.name))
            else:
                ck.violation(R, op.name, 'old data release (%s)' % _w(u), 'the rectangles saved from an aliased result are not freed on some exit of the band sweep', (leak or ph).loc())
        # copy: memcpy/memmove under dst != src
        for f in u.functions.values():
            if f.exported and f.name.endswith('_copy') and len(f.params) == 2:
                ck.saw(f)
                mv = [c for c in f.calls() if (c.callee or '').startswith(('llvm.memmove', 'llvm.memcpy'))]
                ok = False
                for c in mv:
                    for br, succ in f.control_conditions(c.bb.id):
                        cc = f.v(br.a[0]) if br.a else None
                        if cc is not None and cc.op == 'icmp' and {tuple(f.strip_casts(o)) for o in cc.a} == {('a', 0), ('a', 1)}:
                            if (cc.pred == 'ne') == (br.d['succ'][0] == succ):
                                ok = True
                if ok:
                    ck.ok(R, '%s: copies only when dst != src' % f.name)
                else:
                    ck.violation(R, f.name, 'self copy', '%s copies rectangles without testing dst == src first' % f.name, '%s:%d' % (u.name, f.line))


def r3_conversions(ck, P):
    R = ck.rule('C05-R3', '16<->32-bit region conversions copy x1,y1,x2,y2 field-wise for every box', floor=8)
    for name in ('pixman_region16_copy_from_region32', 'pixman_region32_copy_from_region16'):
        f = P.fn(name); ck.saw(f)
        pairs = set()
        for x in f.insts():
            if x.op == 'store':
                lf = f.last_field(f.path(x.a[1]))
                if lf and lf.startswith('pixman_box'):
                    src = [a[1] for a in f.atoms(x.a[0]) if a[0] == 'field' and a[1].startswith('pixman_box')]
                    for s in src:
                        pairs.add((lf.split('.')[1], s.split('.')[1]))
        for m in ('x1', 'y1', 'x2', 'y2'):
            if (m, m) in pairs and not any(a == m and b != m for a, b in pairs):
                ck.ok(R, '%s: %s <- %s' % (name, m, m))
            else:
                ck.violation(R, name, 'field ' + m, '%s assigns box.%s from %s' % (name, m, sorted(b for a, b in pairs if a == m) or 'nothing'), '%s:%d' % (f.unit.name, f.line))


def r6_1_equal(ck, P):
    R = ck.rule('C06-R1', 'region equality compares all four extents, the rectangle count and all four coordinates of every rectangle pair', floor=18)
    for u in units(P):
        f = None
        for g in u.functions.values():
            if g.exported and g.name.endswith('_equal'):
                f = g
        if f is None:
            raise AnalysisBroken('equal not found in ' + u.name)
        ck.saw(f)
        box = 'pixman_box' + _w(u)
        ext = set(); rect = set(); count = False
        for x in f.insts():
            if x.op != 'icmp':
                continue
            fl = []
            for o in x.a:
                y = f.v(f.strip_casts(o))
                if y is not None and y.op == 'load':
                    p = f.path(y.a[0])
                    fl.append((f.root(p), tuple(q for q in f.fields_of(p))))
            if len(fl) == 2 and fl[0][1] and fl[0][1] == fl[1][1] or (len(fl) == 2 and fl[0][1] and fl[1][1] and fl[0][1][-1] == fl[1][1][-1]):
                last = fl[0][1][-1]
                if last.startswith(box + '.'):
                    if any(q.endswith('.extents') for q in fl[0][1]):
                        ext.add(last.split('.')[1])
                    else:
                        rect.add(last.split('.')[1])
            ats = f.atoms(x.a[0]) | f.atoms(x.a[1])
            if any(a[0] == 'field' and a[1].endswith('.numRects') for a in ats):
                count = True
        # a memcmp of the two rectangle arrays over count * sizeof (box) compares every coordinate of every pair
        boxsize = u.structs.get(box, {}).get('size') or (16 if _w(u) == '32' else 8)
        from .geometry import linear as _lin
        for c in f.calls():
            if c.callee in ('memcmp',) and len(c.a) >= 3:
                l = _lin(f, c.a[2])
                per = None
                if l is not None:
                    nz = {t: cf for t, cf in l.items() if t != ()}
                    if len(nz) == 1 and not l.get((), 0):
                        per = list(nz.values())[0]
                if per == boxsize:
                    rect |= {'x1', 'y1', 'x2', 'y2'}
                else:
                    ck.violation(R, f.name, 'memcmp of the rectangle arrays', '%s compares %s bytes per rectangle, a rectangle has %d: later rectangles are not compared and different regions compare equal' % (f.name, per, boxsize), c.loc())
        for m in ('x1', 'y1', 'x2', 'y2'):
            if m in ext:
                ck.ok(R, '%s compares extents.%s' % (f.name, m))
            else:
                ck.violation(R, f.name, 'extents.' + m, '%s does not compare extents.%s' % (f.name, m), '%s:%d' % (u.name, f.line))
            if m in rect:
                ck.ok(R, '%s compares rect.%s' % (f.name, m))
            else:
                ck.violation(R, f.name, 'rect.' + m, '%s does not compare the %s of each rectangle pair: different regions compare equal' % (f.name, m), '%s:%d' % (u.name, f.line))
        if count:
            ck.ok(R, '%s compares the rectangle counts' % f.name)
        else:
            ck.violation(R, f.name, 'count', '%s does not compare the rectangle counts' % f.name, '%s:%d' % (u.name, f.line))


def r6_4_normalisation(ck, P):
    R = ck.rule('C06-R4', 'wherever a function may decrease numRects and then normalises the single-rectangle case, it also normalises the empty case (numRects == 0 -> empty sentinel)', floor=2)
    for u in units(P):
        data = _reg(u) + '_data.numRects'
        for f in u.functions.values():
            decs = [x for x in f.insts() if x.op == 'store' and f.last_field(f.path(x.a[1])) == data and _decrement(f, x)]
            if not decs:
                continue
            single = None; empty = None
            for b in f.blocks:
                t = b.term
                if t.op == 'br' and t.a:
                    c = f.v(t.a[0])
                    if c is not None and c.op == 'icmp' and c.pred in ('eq', 'ne') and ('field', data) in f.atoms(t.a[0]):
                        k = [int(o[1]) for o in c.a if o[0] == 'c']
                        if k == [1]:
                            single = t
                        if k == [0]:
                            # only counts if it leads to storing the empty sentinel
                            tgt = t.d['succ'][0] if c.pred == 'eq' else t.d['succ'][1]
                            for bb in f.reachable_blocks(tgt):
                                for y in f.blocks[bb].insts:
                                    if y.op == 'store' and f.last_field(f.path(y.a[1])) == _reg(u) + '.data' and _is_global_load(f, y.a[0], 'pixman_region_empty_data'):
                                        if any(f.dominates(d, t) or d.bb.id in f.reachable_blocks(0) and t.bb.id in f.reachable_blocks(d.bb.id) for d in decs):
                                            empty = t
            if single is None:
                continue
            if not any(single.bb.id in f.reachable_blocks(d.bb.id) for d in decs):
                continue
            ck.saw(f)
            if empty is not None:
                ck.ok(R, '%s/%s: empty case normalised' % (u.name, f.name))
            else:
                ck.violation(R, f.name, 'empty normalisation (%s)' % _w(u), '%s can discard every rectangle (numRects reaches 0) but only normalises the single-rectangle case: the region is left with zero rectangles, allocated data and stale extents, which is not the canonical empty region' % f.name, single.loc())


def _decrement(f, x):
    y = f.v(x.a[0])
    return y is not None and y.op in ('add', 'sub') and any(o[0] == 'c' and (int(o[1]) < 0 if y.op == 'add' else int(o[1]) > 0) for o in y.a)


def r7_1_overflow_width(ck, P, rid='C07-R1'):
    R = ck.rule(rid, 'every value assigned to an overflow_int_t variable is computed at that type\'s width (no narrower add/sub/mul hidden under the widening cast)', floor=8)
    for u in units(P):
        for f in u.functions.values():
            for x in f.insts():
                if not x.dt or 'overflow_int_t' not in x.dt.split('>'):
                    continue
                if x.op not in ('sext', 'zext'):
                    if x.op in ('add', 'sub', 'mul'):
                        ck.ok(R, '%s/%s: %s computed at full width' % (u.name, f.name, x.dv))
                    continue
                ck.saw(f)
                src = f.v(x.a[0])
                if src is not None and src.op in ('add', 'sub', 'mul'):
                    ck.violation(R, f.name, 'overflow variable %s (%s)' % (x.dv, _w(u)), '%s: %s (%s) is assigned a %s computed in %s and only then widened to %s, so the overflow it exists to detect wraps unseen and coordinates wrap around' % (f.name, x.dv, 'overflow_int_t', src.op, src.ty, x.ty), x.loc())
                else:
                    ck.ok(R, '%s/%s: %s widened before arithmetic' % (u.name, f.name, x.dv))


def r15_4_sentinels(ck, P):
    R = ck.rule('C15-R4', 'the empty/broken sentinels are constant objects of size 0 and every free of region data is guarded by data && data->size', floor=20)
    for u in units(P):
        for nm in ('pixman_region_empty_data', 'pixman_broken_data'):
            g = u.globals.get(nm)
            if g is None:
                ck.incomplete(R, '%s missing in %s' % (nm, u.name)); continue
            tgt = g.get('init')
            tname = tgt.get('g') if isinstance(tgt, dict) else None
            tg = u.globals.get(tname) if tname else None
            if tg is None:
                ck.violation(R, nm, 'sentinel target (%s)' % _w(u), '%s does not point to a static object' % nm, u.name); continue
            size0 = isinstance(tg.get('init'), list) and tg['init'][0] == 0
            if tg['const'] and size0:
                ck.ok(R, '%s/%s -> constant object with size 0' % (u.name, nm))
            else:
                ck.violation(R, nm, 'sentinel target (%s)' % _w(u), '%s points to %s (const=%s, size field=%s): a sentinel that is writable or has size != 0 gets freed or written' % (nm, tname, tg['const'], tg.get('init')), u.name)
        dfield = _reg(u) + '.data'; sfield = _reg(u) + '_data.size'
        for f in u.functions.values():
            for c in f.calls('free'):
                y = f.v(f.strip_casts(c.a[0]))
                if y is None or y.op != 'load' or f.last_field(f.path(y.a[0])) != dfield:
                    continue
                ck.saw(f)
                ats = set()
                for br, succ in f.guard_edges(c.bb.id):
                    if br.a:
                        ats |= f.atoms(br.a[0])
                nonzero_rects = False
                for br, succ in f.guard_edges(c.bb.id):
                    if not br.a:
                        continue
                    cc, pred, ops = f.cond(br.a[0])
                    if cc is not None and cc.op == 'icmp' and ('field', _reg(u) + '_data.numRects') in f.atoms(br.a[0]):
                        k = [int(o[1]) for o in ops if o[0] == 'c']
                        taken_true = br.d['succ'][0] == succ
                        if k and ((pred == 'eq' and taken_true and k[0] >= 1) or (pred == 'ne' and not taken_true and k[0] >= 1) or (pred == 'ne' and taken_true and k[0] == 0) or (pred == 'eq' and not taken_true and k[0] == 0)):
                            nonzero_rects = True
                if ('field', sfield) in ats:
                    ck.ok(R, '%s/%s: free(data) at %s guarded by data->size' % (u.name, f.name, c.loc()))
                elif nonzero_rects:
                    ck.ok(R, '%s/%s: free(data) at %s guarded by numRects >= 1 (the sentinels hold no rectangles)' % (u.name, f.name, c.loc()))
                else:
                    ck.violation(R, f.name, 'free of region data (%s)' % _w(u), '%s frees region data without testing data->size: the static empty/broken sentinel would be passed to free()' % f.name, c.loc())


def _extent_events(P, u, f, k):
    """instructions of f that (re)establish all of extents of region param k: a callee storing all four extent members of its
    parameter, a memcpy into &extents, or the last of four direct member stores"""
    box = 'pixman_box' + _w(u)
    setters = set()
    for g in u.functions.values():
        flds = set()
        for x in g.insts():
            if x.op == 'store':
                p = g.path(x.a[1])
                if len(p[1]) >= 2 and p[1][-2] == _reg(u) + '.extents' and g.root(p) == ('arg', 0):
                    flds.add(p[1][-1])
        if len(flds) == 4:
            setters.add(g)
    ev = []
    seen = set()
    for x in f.insts():
        if x.op == 'call':
            g = u.functions.get(x.callee or '')
            if g in setters and x.a and any(r == ('arg', k) for r in common.roots(f, x.a[0])):
                ev.append(x)
            if (x.callee or '').startswith('llvm.memcpy') and f.last_field(f.path(x.a[0])) == _reg(u) + '.extents' and f.root(f.path(x.a[0])) == ('arg', k):
                ev.append(x)
        elif x.op == 'store':
            p = f.path(x.a[1])
            if len(p[1]) >= 2 and p[1][-2] == _reg(u) + '.extents' and f.root(p) == ('arg', k):
                seen.add(p[1][-1])
                if len(seen) == 4:
                    ev.append(x)
    return ev


def r6_2_extents_after_op(ck, P):
    R = ck.rule('C06-R2', 'every exported operation that runs the band sweep on its result re-establishes the result\'s extents on every success path', floor=6)
    for u in units(P):
        op = find_op(u)
        for f in u.functions.values():
            if not f.exported:
                continue
            for c in f.calls(op.name):
                if not any(r == ('arg', 0) for r in common.roots(f, c.a[0])):
                    continue
                ck.saw(f)
                ev = _extent_events(P, u, f, 0)
                evb = {x.i for x in ev}
                # start after the success edge of the test on the sweep's result
                start_blocks = list(c.bb.succ)
                t = c.bb.term
                if t.op == 'br' and t.a:
                    cc, pred, ops = f.cond(t.a[0])
                    if cc is not None and any(f.strip_casts(o) == ['v', c.i] for o in (ops or [])):
                        start_blocks = [t.d['succ'][0] if pred == 'ne' else t.d['succ'][1]]
                # within the call block after the call
                idx = c.bb.insts.index(c)
                if any(x.i in evb for x in c.bb.insts[idx + 1:]):
                    ck.ok(R, '%s: extents re-established after the sweep' % f.name); continue
                seen = set(); work = list(start_blocks); leak = None
                while work:
                    b = work.pop()
                    if b in seen:
                        continue
                    seen.add(b)
                    blk = f.blocks[b]
                    if any(x.i in evb for x in blk.insts):
                        continue
                    if blk.term.op == 'ret':
                        leak = blk.term; break
                    work.extend(blk.succ)
                if leak is None:
                    ck.ok(R, '%s: extents re-established after the sweep' % f.name)
                else:
                    ck.violation(R, f.name, 'extents after band sweep', '%s returns after a successful band sweep without recomputing the result\'s extents: the region is not canonical and equal()/extent checks go wrong' % f.name, c.loc())


def r6_3_coalesce(ck, P):
    R = ck.rule('C06-R3', 'inside the band sweep every band-producing step is followed by the coalesce step, and the result is normalised (0 -> empty sentinel, 1 -> inline rectangle, else downsize) on the success path', floor=6)
    for u in units(P):
        op = find_op(u); ck.saw(op)
        # coalesce role: internal function taking (region, prev_start, cur_start) returning int, called from the sweep
        co = None
        for g in u.functions.values():
            if g.internal and len(g.params) == 3 and g.params[1][1] == 'i32' and g.params[2][1] == 'i32' and g.type.startswith('i32') and any(c.callee == g.name for c in op.calls()):
                co = g
        if co is None:
            ck.incomplete(R, '%s: coalesce function not recognised' % u.name); continue
        producers = [c for c in op.calls() if (c.callee is None and 'callee' in c.d) or (c.callee and u.functions.get(c.callee) is not None and 'append' in c.callee)]
        producers = [c for c in op.calls() if (c.callee is None and 'callee' in c.d) or (u.functions.get(c.callee or '') is not None and u.functions[c.callee].internal and len(u.functions[c.callee].params) == 5)]
        for c in producers:
            # on the success edge of the producer's own result test a coalesce call follows before the block is left for good:
            # the first call reached after the producer (other than on its failure exit) must be the coalesce step
            t = c.bb.term
            start = list(c.bb.succ)
            if t.op == 'br' and t.a:
                cc, pred, ops = op.cond(t.a[0])
                if cc is not None and any(op.strip_casts(o) == ['v', c.i] for o in (ops or [])):
                    start = [t.d['succ'][0] if pred == 'ne' else t.d['succ'][1]]
            # a coalesce call that the success edge dominates and that is reached before any other band step
            prod_ids = {y.i for y in producers}
            found = None
            for y in op.calls(co.name):
                if not all(op.dominates_block(sb, y.bb.id) for sb in start):
                    continue
                # reachable from start without passing another producer
                seen = set(); work = list(start); hit = False
                while work:
                    b = work.pop()
                    if b in seen:
                        continue
                    seen.add(b)
                    if b == y.bb.id:
                        hit = True; break
                    if any(q.i in prod_ids for q in op.blocks[b].insts):
                        continue
                    work.extend(op.blocks[b].succ)
                if hit:
                    found = y
            if found is not None:
                ck.ok(R, '%s: band step at %s followed by coalesce' % (u.name, c.loc()))
            else:
                ck.violation(R, op.name, 'coalesce after band step at %s (%s)' % (c.loc(), _w(u)), 'after appending a band the sweep does not run the coalesce step before the next band: identical adjacent bands stay unmerged and the region is not canonical', c.loc())
        # final normalisation
        data = _reg(u) + '.data'
        has_empty = any(x.op == 'store' and op.last_field(op.path(x.a[1])) == data and _is_global_load(op, x.a[0], 'pixman_region_empty_data') for x in op.insts())
        has_inline = any(x.op == 'store' and op.last_field(op.path(x.a[1])) == data and x.a[0][0] == 'n' for x in op.insts())
        has_down = any((c.callee or '') == 'realloc' for c in op.calls())
        for nm, ok in (('empty result -> empty sentinel', has_empty), ('single rectangle -> inline', has_inline), ('downsize', has_down)):
            if ok:
                ck.ok(R, '%s/%s: %s' % (u.name, op.name, nm))
            else:
                ck.violation(R, op.name, 'normalisation: %s (%s)' % (nm, _w(u)), 'the band sweep no longer normalises its result (%s)' % nm, '%s:%d' % (u.name, op.line))


def r6_1b_equal_empty(ck, P):
    R = ck.rule('C06-R1b', 'region equality decides emptiness of both regions before it compares extents (the extents of an empty region are arbitrary)', floor=2)
    for u in units(P):
        f = None
        for g in u.functions.values():
            if g.exported and g.name.endswith('_equal'):
                f = g
        ck.saw(f)
        box = 'pixman_box' + _w(u); num = _reg(u) + '_data.numRects'
        first = None
        for b in f.blocks:
            t = b.term
            if t.op == 'br' and t.a:
                ats = f.atoms(t.a[0])
                if any(a[0] == 'field' and a[1].startswith(box + '.') for a in ats) and ('via', _reg(u) + '.extents') in ats:
                    if first is None or f.dominates_block(b.id, first.id):
                        first = b
        if first is None:
            ck.incomplete(R, '%s: no extents comparison found' % f.name); continue
        who = set()
        for br, succ in f.control_conditions(first.id) | f.guard_edges(first.id):
            if br.a:
                ats = f.atoms(br.a[0])
                if ('field', num) in ats or ('field', _reg(u) + '.data') in ats:
                    who |= {a[1] for a in ats if a[0] == 'argmem'}
        if who >= {0, 1}:
            ck.ok(R, '%s: emptiness of both operands tested before the extents' % f.name)
        else:
            ck.violation(R, f.name, 'extents compared before emptiness (%s)' % _w(u), '%s compares the extents of its operands without first establishing that they are non-empty: two empty regions whose stale extents differ compare unequal' % f.name, first.term.loc())


def r7_3_queries(ck, P):
    R = ck.rule('C07-R3', 'contains_rectangle returns only the three overlap enumerators; init_from_image reads pixels only from BITS images of format a1', floor=4)
    en = P.enum('pixman_region_overlap_t')
    vals = set(en.values())
    a1 = P.enum_const('PIXMAN_a1')
    for u in units(P):
        for f in u.functions.values():
            if f.exported and f.name.endswith('_contains_rectangle'):
                ck.saw(f)
                got = set(); other = False
                def walk(o, d=0):
                    nonlocal other
                    if o[0] == 'c':
                        got.add(int(o[1])); return
                    y = f.v(o)
                    if y is not None and y.op == 'phi' and d < 6:
                        for a in y.a:
                            walk(a, d + 1)
                    elif y is not None and y.op == 'select' and d < 6:
                        walk(y.a[1], d + 1); walk(y.a[2], d + 1)
                    else:
                        other = True
                for r in f.rets():
                    if r.a:
                        walk(r.a[0])
                if got <= vals and not other and len(got) == 3:
                    ck.ok(R, '%s returns exactly %s' % (f.name, sorted(en)))
                else:
                    ck.violation(R, f.name, 'return values', '%s can return %s%s; the API promises only %s' % (f.name, sorted(got), ' or a computed value' if other else '', sorted(en.items(), key=lambda kv: kv[1])), '%s:%d' % (u.name, f.line))
            if f.exported and f.name.endswith('_init_from_image'):
                ck.saw(f)
                reads = [x for x in f.insts() if (x.op == 'load' and f.last_field(f.path(x.a[0])) == 'bits_image.bits') or (x.op == 'call' and x.callee == 'pixman_image_get_data')]
                ok = False
                for x in reads:
                    ats = set()
                    for br, succ in f.guard_edges(x.bb.id) | f.control_conditions(x.bb.id):
                        if br.a:
                            ats |= f.atoms(br.a[0])
                    if ('field', 'bits_image.format') in ats and ('const', a1) in ats:
                        ok = True
                if reads and ok:
                    ck.ok(R, '%s: pixel reads guarded by format == a1' % f.name)
                else:
                    ck.violation(R, f.name, 'format guard', '%s reads the bitmap without requiring the a1 format' % f.name, '%s:%d' % (u.name, f.line))



def r6_2b_extents_after_drop(ck, P):
    R = ck.rule('C06-R2b', 'where translation detects that rectangles were dropped (output cursor != input cursor) every path to return re-establishes the extents or the empty region', floor=2)
    for u in units(P):
        data = _reg(u) + '_data.numRects'
        for f in u.functions.values():
            decs = [x for x in f.insts() if x.op == 'store' and f.last_field(f.path(x.a[1])) == data and _decrement(f, x)]
            if not decs or not f.exported:
                continue
            # the drop-detection test: comparison of two loop-carried pointers of the box type
            T = None
            for b in f.blocks:
                t = b.term
                if t.op == 'br' and t.a:
                    c, pred, ops = f.cond(t.a[0])
                    if c is not None and c.op == 'icmp' and pred in ('eq', 'ne') and len(ops) == 2:
                        ys = [f.v(f.strip_casts(o)) for o in ops]
                        if all(y is not None and y.op == 'phi' and 'pixman_box' in y.ty for y in ys) and all(b.id in f.reachable_blocks(d.bb.id) for d in decs):
                            T = (t, pred)
            if T is None:
                continue
            ck.saw(f)
            t, pred = T
            start = t.d['succ'][0] if pred == 'ne' else t.d['succ'][1]
            ev = {x.i for x in _extent_events(P, u, f, 0)}
            # also: storing the empty sentinel (with x2 = x1, y2 = y1) normalises an emptied region
            for x in f.insts():
                if x.op == 'store' and f.last_field(f.path(x.a[1])) == _reg(u) + '.data' and _is_global_load(f, x.a[0], 'pixman_region_empty_data'):
                    ev.add(x.i)
            seen = set(); work = [start]; leak = None
            while work:
                b = work.pop()
                if b in seen:
                    continue
                seen.add(b)
                blk = f.blocks[b]
                if any(x.i in ev for x in blk.insts):
                    continue
                if blk.term.op == 'ret':
                    leak = blk.term; break
                work.extend(blk.succ)
            if leak is None:
                ck.ok(R, '%s/%s: extents recomputed after rectangles were dropped' % (u.name, f.name))
            else:
                ck.violation(R, f.name, 'extents after dropped rectangles (%s)' % _w(u), '%s can return after discarding rectangles without recomputing the extents of the survivors: the region is not canonical (extents too large), equal() and selfcheck fail' % f.name, t.loc())


def r5_4_success_writes_result(ck, P):
    """T-MPT: a region-producing function that reports success has produced its result"""
    R = ck.rule('C05-R4', 'every path on which a region-producing function returns TRUE passes a store to its result region, a call that hands the result to a writer, or the `result is the operand` test of a copy: success is never reported with the previous contents left in place', floor=18)
    W = param_write_summaries(P)
    cands = []
    for u in list(units(P)) + [P.units[n] for n in ('pixman-utils.c',) if n in P.units]:
        for f in u.functions.values():
            if f.internal or not f.params or not (f.exported or u.name == 'pixman-utils.c'):
                continue
            pt = f.params[0][1]
            if 'pixman_region' not in pt or not pt.endswith('*'):
                continue
            if 0 not in W.get(f, ()):
                continue                    # predicates and queries: they never write their first parameter
            rets = [t for t in f.rets() if t.a]
            if not rets or not all(f.by_id.get(t.a[0][1]).ty == 'i32' if t.a[0][0] == 'v' else True for t in rets):
                continue
            if f.name.endswith(('_n_rects', '_not_empty', '_selfcheck', '_contains_point', '_contains_rectangle', '_equal', '_rectangles', '_extents')):
                continue
            cands.append(f)
    for f in cands:
        ck.saw(f)

        def writes_result(y):
            if y.op == 'store' and any(r == ('arg', 0) for r in common.roots(f, y.a[1])):
                return True
            if y.op == 'call':
                g = P.resolve(f, y.callee) if isinstance(y.callee, str) else None
                for k, a in enumerate(y.a):
                    if a[0] in ('v', 'a') and any(r == ('arg', 0) for r in common.roots(f, a)) and f.path(a)[0][0] != 'load':
                        if g is None or k in W.get(g, ()):
                            return True
            return False

        # success exits: ret of a constant non-zero, or a phi feeding ret with constant non-zero incomings
        targets = []      # (block id to reach, description)
        for t in f.rets():
            o = t.a[0]
            if o[0] == 'c':
                if int(o[1]) != 0:
                    targets.append((t.bb.id, None, t))
                continue
            x = f.v(o)
            if x is not None and x.op == 'phi':
                for a, bb in zip(x.a, x.d['bb']):
                    if a[0] == 'c' and int(a[1]) != 0:
                        targets.append((x.bb.id, bb, t))
                    elif a[0] == 'v':
                        targets.append((x.bb.id, bb, t))     # a status handed on from a callee: the callee call is the writer on that path
            else:
                targets.append((t.bb.id, None, t))
        bad = None
        for tb, via, t in targets:
            # search a path entry -> (via ->) tb that passes no writer and no dst==operand alias edge
            seen = set(); work = [(0, None)]
            while work and bad is None:
                b, prev = work.pop()
                if (b, prev if b == tb else None) in seen:
                    continue
                seen.add((b, prev if b == tb else None))
                if b == tb and (via is None or prev == via):
                    if not any(writes_result(y) for y in f.blocks[b].insts if via is None):
                        bad = (t, via); break
                    continue
                blk = f.blocks[b]
                if any(writes_result(y) for y in blk.insts):
                    continue
                tt = blk.term
                nxt = list(blk.succ)
                if tt.op == 'br' and tt.a:
                    c, pred, ops = f.cond(tt.a[0])
                    if c is not None and c.op == 'icmp' and pred in ('eq', 'ne'):
                        s_ = {tuple(f.strip_casts(o)) for o in ops}
                        if ('a', 0) in s_ and any(o[0] == 'a' and o[1] != 0 for o in s_):
                            alias_side = tt.d['succ'][0] if pred == 'eq' else tt.d['succ'][1]
                            nxt = [n_ for n_ in nxt if n_ != alias_side]     # result is the operand: nothing to produce
                for n_ in nxt:
                    work.append((n_, b))
        if bad:
            ck.violation(R, f.name, 'success without producing the result', '%s can return TRUE along a path that neither stores to its result region nor hands it to a function that does: the caller is told the result is ready while the old contents are still there' % f.name, bad[0].loc())
        else:
            ck.ok(R, '%s: every success path produces the result' % f.name)


def r7_4_compaction_cursors(ck, P):
    """T-IND: a loop that compacts an array in place reads through the cursor that advances every iteration and writes only through the one that advances when an element is kept"""
    from .factors import _loops_of
    R = ck.rule('C07-R4', 'in every in-place compaction loop (two cursors with the same start, one advanced on every iteration, one only when an element is kept) all stores go through the conditional output cursor; the input cursor is only read', floor=2)
    for u in units(P):
        L = _loops_of(u)
        for fn, loops in L.items():
            f = u.functions.get(fn)
            if f is None:
                continue
            for lp in loops:
                ptr = [p for p in lp['phis'] if p['ty'].endswith('*')]
                rd = [p for p in ptr if p['step']]
                wr = [p for p in ptr if not p['step']]
                for r in rd:
                    for w in wr:
                        pr, pw = f.by_id[r['v']], f.by_id[w['v']]
                        if pr.ty != pw.ty:
                            continue
                        # same start: the incoming values from outside the loop coincide
                        out_r = [a for a, bb in zip(pr.a, pr.d['bb']) if bb not in lp['blocks']]
                        out_w = [a for a, bb in zip(pw.a, pw.d['bb']) if bb not in lp['blocks']]
                        if not out_r or out_r != out_w:
                            continue
                        ck.saw(f)
                        bad = None; n = 0
                        for b in lp['blocks']:
                            for x in f.blocks[b].insts:
                                if x.op != 'store':
                                    continue
                                base = f.root(f.path(x.a[1]))
                                if base == ('phi', pr.i):
                                    bad = x
                                elif base == ('phi', pw.i):
                                    n += 1
                        where = '%s/%s loop at block %d (%s -> %s)' % (u.name, f.name, lp['header'], pr.dv or 'input cursor', pw.dv or 'output cursor')
                        if bad is not None:
                            ck.violation(R, f.name, 'store through the input cursor (%s)' % _w(u), '%s stores through %s, the cursor that advances on every iteration; once an element has been dropped the kept element lives at %s and never receives this value' % (f.name, pr.dv or 'the input cursor', pw.dv or 'the output cursor'), bad.loc())
                        elif n == 0:
                            ck.incomplete(R, '%s: no store through the output cursor found' % where)
                        else:
                            ck.ok(R, where, '%d stores, all through the output cursor' % n)


def r7_5_independent_clamps(ck, P):
    """T-GRD: clamping a coordinate of one axis never depends on what happened to the other axis"""
    R = ck.rule('C07-R5', 'a store that clamps an x coordinate (to the region minimum/maximum) is guarded only by range tests of x coordinates, and likewise for y: when a translation overflows in both axes both are clamped', floor=8)
    for u in units(P):
        w = _w(u)
        lim = {(-(1 << 31), 'min'), ((1 << 31) - 1, 'max')} if w == '32' else {(-(1 << 15), 'min'), ((1 << 15) - 1, 'max')}
        limv = {k for k, _ in lim}
        for f in u.functions.values():
            if not f.name.endswith('_translate'):
                continue
            ck.saw(f)
            for x in f.insts():
                if x.op != 'store' or x.a[0][0] != 'c' or int(x.a[0][1]) not in limv:
                    continue
                lf = f.last_field(f.path(x.a[1])) or ''
                fld = lf.split('.')[-1]
                if fld not in ('x1', 'x2', 'y1', 'y2'):
                    continue
                axis = fld[0]
                bad = None
                for t, s_ in f.guard_edges(x.bb.id):
                    if t.op != 'br' or not t.a:
                        continue
                    c, pred, ops = f.cond(t.a[0])
                    if c is None or c.op != 'icmp' or pred not in ('slt', 'sgt', 'sle', 'sge'):
                        continue
                    if not any(o[0] == 'c' and int(o[1]) in limv for o in ops):
                        continue
                    # which coordinate is compared: the fields in the value slice of the non-constant operand
                    flds = set()
                    for o in ops:
                        if o[0] == 'v':
                            flds |= {a[1].split('.')[-1] for a in f.atoms(o) if a[0] == 'field' and a[1].split('.')[-1] in ('x1', 'x2', 'y1', 'y2')}
                    axes = {q[0] for q in flds}
                    if axes and axis not in axes:
                        # a test of the whole box (x2 <= MIN || y2 <= MIN || ...: every axis sends the box to the same place, where it
                        # is discarded) is not a decision about one axis: the edge not taken leaves no box to clamp
                        other = [q for q in t.d['succ'] if q != s_]
                        whole_box = False
                        for b2 in f.blocks:
                            t2 = b2.term
                            if t2 is t or t2.op != 'br' or not t2.a or not other or other[0] not in t2.d['succ']:
                                continue
                            c2, p2, o2 = f.cond(t2.a[0])
                            if c2 is None or c2.op != 'icmp':
                                continue
                            f2 = set()
                            for o in o2:
                                if o[0] == 'v':
                                    f2 |= {a[1].split('.')[-1] for a in f.atoms(o) if a[0] == 'field' and a[1].split('.')[-1] in ('x1', 'x2', 'y1', 'y2')}
                            if axis in {q[0] for q in f2}:
                                whole_box = True
                        if whole_box:
                            continue
                        bad = (t, sorted(flds)); break
                where = '%s: clamp of %s at %s' % (f.name, lf, x.loc())
                if bad:
                    ck.violation(R, f.name, 'clamp of %s depends on the other axis (%s)' % (fld, w), '%s clamps %s only on paths decided by a range test of %s: when both axes overflow one of them keeps its wrapped value and the box is malformed' % (f.name, fld, '/'.join(bad[1])), x.loc())
                else:
                    ck.ok(R, where)


def r6_5_touching_merges(ck, P):
    """canonical form: rectangles of one band never touch"""
    R = ck.rule('C06-R5', 'every merge-or-append decision of the band code compares the new rectangle\'s x1 with the current right edge so that equality merges (x1 <= x2): touching rectangles of a band are coalesced, which canonical form and equal() rely on', floor=8)
    for u in units(P):
        for f in u.functions.values():
            for b in f.blocks:
                t = b.term
                if t.op != 'br' or not t.a:
                    continue
                c = f.v(t.a[0])
                if c is None or c.op != 'icmp' or c.d['p'] not in ('sle', 'slt', 'sgt', 'sge'):
                    continue

                def fld(o, seen=None):
                    seen = seen if seen is not None else set()
                    if o[0] != 'v' or o[1] in seen:
                        return set()
                    seen.add(o[1])
                    s_ = {a[1].split('.')[-1] for a in f.atoms(o) if a[0] == 'field' and a[1].split('.')[-1] in ('x1', 'x2', 'y1', 'y2')}
                    y = f.v(o)
                    if not s_ and y is not None and y.dv in ('x1', 'x2'):
                        s_ = {y.dv}
                    if not s_ and y is not None and y.op == 'phi' and len(y.a) < 6:
                        s_ = {q for a in y.a for q in fld(a, seen)}
                    return s_
                l, r = fld(c.a[0]), fld(c.a[1])
                if not ((l == {'x1'} and r == {'x2'}) or (l == {'x2'} and r == {'x1'})):
                    continue
                # the branch that extends the right edge: contains a comparison of two x2 values and no call
                def is_merge(bid, depth=0):
                    blk = f.blocks[bid]
                    if any(y.op == 'call' and not (y.callee or '').startswith('llvm.dbg') for y in blk.insts):
                        return False
                    for y in blk.insts:
                        if y.op == 'icmp':
                            a_, b_ = (fld(o) for o in y.a)
                            if a_ == {'x2'} and b_ == {'x2'}:
                                return True
                    return False
                s_true, s_false = t.d['succ']
                mt, mf = is_merge(s_true), is_merge(s_false)
                if mt == mf:
                    continue                     # not a merge-or-append decision
                pred = c.d['p']
                if l == {'x2'}:                  # x2 OP x1  ->  x1 OP' x2
                    pred = {'sle': 'sge', 'slt': 'sgt', 'sgt': 'slt', 'sge': 'sle'}[pred]
                eq_goes_true = pred in ('sle', 'sge')
                ck.saw(f)
                where = '%s (%s): merge test at %s' % (f.name, _w(u), c.loc())
                if eq_goes_true == mt:
                    ck.ok(R, where, 'x1 == x2 merges')
                else:
                    ck.violation(R, f.name, 'merge test strict on touching rectangles (%s)' % _w(u), '%s appends a rectangle whose x1 equals the current right edge instead of merging it: the band then holds two touching rectangles, a representation no other operation produces, and equal() fails against the same point set' % f.name, c.loc())


def r5_5_copy_sets_count(ck, P):
    """copy: the rectangle count travels with the rectangles on every path"""
    R = ck.rule('C05-R5', 'in region copy every path that reaches the copy of the rectangle array has stored the source\'s rectangle count into the destination (also when the destination\'s array is large enough to be reused)', floor=2)
    for u in units(P):
        for f in u.functions.values():
            if not (f.exported and f.name.endswith('_copy') and len(f.params) == 2):
                continue
            ck.saw(f)
            mv = [c for c in f.calls() if (c.callee or '').startswith(('llvm.memmove', 'llvm.memcpy')) and not (f.last_field(f.path(c.a[0])) or '').endswith('.extents')]
            if not mv:
                ck.incomplete(R, '%s: no array copy found' % f.name); continue
            first = f.blocks[0].insts[0]
            def is_count_store(y):
                if y.op != 'store':
                    return False
                p = f.path(y.a[1]); lf = f.last_field(p) or ''
                return lf.endswith('.numRects') and any(r == ('arg', 0) for r in common.roots(f, y.a[1]))
            esc = f.reach_avoiding(first, is_count_store, lambda y: y in mv) if not is_count_store(first) else None
            if esc is None:
                ck.ok(R, '%s (%s): count stored on every path to the array copy' % (f.name, _w(u)))
            else:
                ck.violation(R, f.name, 'rectangle count not copied (%s)' % _w(u), '%s can reach the copy of the rectangle array (%s) without storing the source\'s count into the destination: when the destination already has a large enough array its old count survives and stale rectangles stay in the copy' % (f.name, esc.loc()), esc.loc())


def r5_6_subsumption_single_rect(ck, P):
    """extents subsume extents says something about the regions only if the subsuming one IS its extents"""
    R = ck.rule('C05-R6', 'every shortcut that concludes "region A contains region B" from A\'s extents containing B\'s extents is taken only when A is a single rectangle (A->data == NULL): the data test names the same operand as the subsuming side of the comparison', floor=4)
    n = 0
    for u in units(P):
        reg = _reg(u)
        for f in u.functions.values():
            if not f.exported:
                continue
            for b in f.blocks:
                ge = f.guard_edges(b.id)
                # who subsumes whom: A.x1 <= B.x1 taken true (or the symmetric form), from extents fields of two parameters
                sub = set(); nodata = set()
                for t, s_ in ge:
                    if t.op != 'br' or not t.a:
                        continue
                    c = f.v(t.a[0])
                    if c is None or c.op != 'icmp':
                        continue
                    taken = t.d['succ'][0] == s_
                    pred = c.d['p'] if taken else f.INV.get(c.d['p'], c.d['p'])
                    if any(o[0] == 'n' for o in c.a):
                        y = f.v(f.strip_casts([o for o in c.a if o[0] != 'n'][0])) if [o for o in c.a if o[0] == 'v'] else None
                        if y is not None and y.op == 'load' and (f.last_field(f.path(y.a[0])) or '') == reg + '.data' and pred == 'eq':
                            r = f.root(f.path(y.a[0]))
                            if r[0] == 'arg':
                                nodata.add(r[1])
                        continue
                    ys = [f.v(f.strip_casts(o)) if o[0] == 'v' else None for o in c.a]
                    if any(y is None or y.op != 'load' for y in ys):
                        continue
                    fl = [f.fields_of(f.path(y.a[0])) for y in ys]
                    rt = [f.root(f.path(y.a[0])) for y in ys]
                    if not all(q and len(q) >= 2 and q[-2] == reg + '.extents' for q in fl) or rt[0] == rt[1] or rt[0][0] != 'arg' or rt[1][0] != 'arg':
                        continue
                    coord = fl[0][-1].split('.')[-1]
                    if fl[1][-1].split('.')[-1] != coord:
                        continue
                    # A.x1 <= B.x1 or A.x2 >= B.x2  => A is the subsuming side
                    if (coord in ('x1', 'y1') and pred == 'sle') or (coord in ('x2', 'y2') and pred == 'sge'):
                        sub.add((rt[0][1], rt[1][1], coord))
                    elif (coord in ('x1', 'y1') and pred == 'sge') or (coord in ('x2', 'y2') and pred == 'sle'):
                        sub.add((rt[1][1], rt[0][1], coord))
                pairs = {(a, bb) for a, bb, cc in sub}
                for a, bb in pairs:
                    if {cc for a2, b2, cc in sub if (a2, b2) == (a, bb)} != {'x1', 'x2', 'y1', 'y2'}:
                        continue
                    # only the block entered right after the four tests (not everything dominated by them)
                    if not any(x.op in ('call', 'ret', 'store') for x in b.insts):
                        continue
                    key = (f.name, a, bb)
                    n += 1; ck.saw(f)
                    if a in nodata:
                        ck.ok(R, '%s (%s): extents of %s contain those of %s and %s has no rectangle array' % (f.name, _w(u), f.params[a][0], f.params[bb][0], f.params[a][0]))
                    else:
                        ck.violation(R, f.name, 'subsumption shortcut without a single-rectangle test (%s)' % _w(u), '%s takes the "%s contains %s" shortcut from the extents alone without testing that %s is a single rectangle%s: a multi-rectangle %s with holes does not contain everything inside its bounding box, and the part of %s in a hole is lost' % (f.name, f.params[a][0], f.params[bb][0], f.params[a][0], (' (it tests %s instead)' % ', '.join(f.params[k][0] for k in sorted(nodata))) if nodata else '', f.params[a][0], f.params[bb][0]), b.insts[0].loc())
                    break
    if n == 0:
        ck.incomplete(R, 'no extents-subsumption shortcut found')


def r7_6_previous_band_updates(ck, P):
    """T-MPT, path-sensitive: a loop that remembers where the previous band starts (an index carried round the loop, -1 before the
    first band) may keep that index across an iteration only when the iteration extended the previous band in place (stores through
    it); on every other path the index moves on to the band just produced."""
    from .factors import _loops_of
    R = ck.rule('C07-R6', 'in the scanline loop that builds a region from a bitmap, the remembered start of the previous band (loop-carried index, -1 before the first band) is kept across an iteration only on paths that extended that band in place; every other path through the iteration replaces it (partial evaluation over the iteration\'s flags)', floor=2)
    for u in units(P):
        L = _loops_of(u)
        for fn, loops in L.items():
            f = u.functions.get(fn)
            if f is None:
                continue
            for lp in loops:
                hdr = lp['header']; blocks = set(lp['blocks'])
                for ph in lp['phis']:
                    H = f.by_id[ph['v']]
                    if not (H.ty.startswith('i') and H.ty != 'i1'):
                        continue
                    outs = [a for a, bb in zip(H.a, H.d['bb']) if bb not in blocks]
                    if not outs or any(not (a[0] == 'c' and int(a[1]) == -1) for a in outs):
                        continue
                    # stores through an address computed from H: the previous band is modified in place
                    def from_h(o, seen, d=0):
                        if d > 25 or o[0] != 'v' or o[1] in seen:
                            return False
                        if o[1] == H.i:
                            return True
                        seen.add(o[1])
                        x = f.by_id[o[1]]
                        if x.op in ('load', 'call'):
                            return False
                        ops = list(x.a) + [st[1] for st in x.d.get('path', []) if st and st[0] == 'p' and isinstance(st[1], list)]
                        return any(from_h(a, seen, d + 1) for a in ops if a and a[0] == 'v')
                    merge = {x.bb.id for b in blocks for x in f.blocks[b].insts if x.op == 'store' and from_h(x.a[1], set())}
                    if not merge:
                        continue
                    # a store inside an inner loop stands for that whole loop (its header is entered even when the band is empty)
                    for mb in list(merge):
                        inner = [set(l2['blocks']) for l2 in loops if mb in l2['blocks'] and set(l2['blocks']) < blocks]
                        if inner:
                            merge |= min(inner, key=len)
                    ck.saw(f)
                    # phis (inside the loop) the back-edge value is assembled from
                    tree = set(); work = [a for a, bb in zip(H.a, H.d['bb']) if bb in blocks]
                    while work:
                        a = work.pop()
                        x = f.v(a)
                        if x is not None and x.op == 'phi' and x.i != H.i and x.i not in tree and x.bb.id in blocks:
                            tree.add(x.i); work.extend(x.a)
                    back = {(bb, hdr) for bb in H.d['bb'] if bb in blocks}
                    kept = []
                    def on_edge(p, b, pv):
                        if (p, b) not in back:
                            return
                        for a, bb in zip(H.a, H.d['bb']):
                            if bb != p:
                                continue
                            tok = ('val', tuple(a))
                            if a[0] == 'v' and a[1] in tree:
                                tok = pv.get(a[1])
                            if tok == ('val', ('v', H.i)):
                                kept.append(p)
                    common.reach_under(f, lambda x: None, set(), start=hdr, avoid=merge, cut=back, carry=tree, on_edge=on_edge)
                    where = '%s/%s: loop at block %d, previous-band index %s' % (u.name, f.name, hdr, H.dv or '(unnamed)')
                    if kept:
                        loc = next((y.loc() for y in f.blocks[kept[0]].insts if y.d.get('l')), f.blocks[hdr].insts[0].loc())
                        ck.violation(R, f.name, 'previous-band index %s (%s)' % (H.dv or '', _w(u)), 'there is a path through one iteration of the scanline loop that neither extends the previous band in place nor moves %s on to the band of this line: the next line is then compared with, and merged into, a band that is not adjacent to it' % (H.dv or 'the index'), loc)
                    else:
                        ck.ok(R, where, 'kept only on paths through blocks %s' % sorted(merge))


def r5_7_sort_key_fields(ck, P):
    """sibling agreement inside the sort: every comparison between two boxes compares one field with the same field"""
    R = ck.rule('C05-R7', 'in the rectangle sort every comparison between two boxes (scan from the left, scan from the right, the two-element case) compares a field with the same field of the other box — y1 with y1, x1 with x1 — so that all scans order by the same (y1, x1) key', floor=18)
    for u in units(P):
        f = next((g for n, g in u.functions.items() if n.startswith('quick_sort_rects')), None)
        if f is None:
            ck.incomplete(R, 'quick_sort_rects not found in ' + u.name); continue
        ck.saw(f)
        def fld(o):
            x = f.v(o)
            while x is not None and x.op in ('sext', 'zext', 'trunc'):
                x = f.v(x.a[0])
            if x is None or x.op != 'load':
                return None
            p = f.path(x.a[0])
            return p[1][-1] if p[1] and isinstance(p[1][-1], str) and '.' in p[1][-1] else None
        for x in f.insts():
            if x.op != 'icmp':
                continue
            a, b = fld(x.a[0]), fld(x.a[1])
            if a is None or b is None:
                continue
            where = '%s/%s %s: %s %s %s' % (u.name, f.name, x.loc(), a, x.d['p'], b)
            if a != b:
                ck.violation(R, f.name, 'comparison at line %s (%s)' % (x.loc().split(':')[-1], _w(u)), 'the sort compares %s of one box with %s of the other: this scan orders rectangles by a different key than the other scans of the same partition step, so the array can come out unsorted and the band merge that follows drops or duplicates area' % (a.split('.')[-1], b.split('.')[-1]), x.loc())
            else:
                ck.ok(R, where)


_SWAP = {'slt': 'sgt', 'sgt': 'slt', 'sle': 'sge', 'sge': 'sle', 'eq': 'eq', 'ne': 'ne', 'ult': 'ugt', 'ugt': 'ult', 'ule': 'uge', 'uge': 'ule'}


def r_equality_sides(ck, P, rid):
    """contradiction rule (Engler): two tests of the same pair of coordinates that are evaluated independently of each other (neither
    is only reached after the other) put the equal case on the same side.  `a > b` here and `a < b` there leaves a == b 'not above'
    for one and 'not below' for the other — for half-open boxes exactly one of them is wrong."""
    R = ck.rule(rid, 'within one region function, two independent comparisons of the same pair of coordinates (same variable / same box field; neither comparison is control-dependent on the other) never are strict in opposite directions: the boundary case a == b is classified the same way by both (half-open boxes: a >= b here means a < b there)', floor=90)
    for u in units(P):
        for fn, f in sorted(u.functions.items()):
            G = defaultdict(list)
            def key(o):
                x = f.v(o)
                while x is not None and x.op in ('sext', 'zext', 'trunc') and not x.dv:
                    o = x.a[0]; x = f.v(o)
                if x is None:
                    return ('arg', o[1]) if o[0] == 'a' else None
                if x.dv:
                    return ('var', x.dv)               # the value of a source variable (also when it was just loaded from a box)
                if x.op == 'load':
                    pth = f.path(x.a[0]); r_ = f.root(pth)
                    if r_[0] in ('phi', 'select'):
                        nm_ = f.by_id[r_[1]].dv
                        if not nm_:
                            return None
                        return ('ld', nm_ + '->' + '/'.join(str(t) for t in pth[1]))
                    return ('ld', f.pstr(pth))
                return None
            def is_minmax(x):
                # MIN / MAX: the comparison only chooses which of its own two operands is used; the equal case has no side
                us = f.users(x)
                if not us:
                    return False
                for t in us:
                    if t.op == 'select' and {tuple(t.a[1]), tuple(t.a[2])} == {tuple(x.a[0]), tuple(x.a[1])}:
                        continue
                    if t.op == 'br' and len(t.d.get('succ', [])) == 2:
                        ends = set()
                        for s_ in t.d['succ']:
                            blk = f.blocks[s_]
                            if all(y.op == 'phi' for y in blk.insts[:-1]) and any(y.op == 'phi' for y in blk.insts):
                                ends.add(s_)
                            elif len(blk.insts) == 1 and blk.term.op == 'br' and len(blk.succ) == 1:
                                ends.add(blk.succ[0])
                            elif all(y.op in ('sext', 'zext', 'trunc', 'load', 'getelementptr', 'br') for y in blk.insts) and len(blk.succ) == 1:
                                ends.add(blk.succ[0])
                            else:
                                return False
                        if len(ends) != 1:
                            return False
                        want = {key(x.a[0]), key(x.a[1])}
                        phis = [y for y in f.blocks[next(iter(ends))].insts if y.op == 'phi']
                        if None in want or not any({key(a_) for a_ in y.a} == want for y in phis):
                            return False
                        continue
                    return False
                return True
            for x in f.insts():
                if x.op != 'icmp' or x.d['p'] not in _SWAP or is_minmax(x):
                    continue
                a, b = key(x.a[0]), key(x.a[1])
                if a is None or b is None or a == b:
                    continue
                p = x.d['p']
                if repr(a) > repr(b):
                    a, b = b, a; p = _SWAP[p]
                G[(a, b)].append((p, x))
            for (a, b), v in sorted(G.items(), key=lambda kv: repr(kv[0])):
                if len(v) < 2:
                    continue
                ck.saw(f)
                bad = None
                def dep(x, y):
                    # y is only evaluated because of how x (or a test in x's short-circuit chain) came out
                    return x.bb.id == y.bb.id or any(t.bb.id == x.bb.id for t, s_ in f.control_conditions(y.bb.id))
                for p, x in v:
                    for q, y in v:
                        if p in ('sgt', 'ugt') and q in ('slt', 'ult') and not dep(x, y) and not dep(y, x):
                            bad = (x, y)
                nm = lambda k: k[1] if k[0] != 'arg' else (f.params[k[1]][0] or 'parameter %d' % k[1])
                where = '%s/%s: %s vs %s (%d comparisons)' % (u.name, fn, nm(a), nm(b), len(v))
                if bad:
                    x, y = bad
                    ck.violation(R, fn, '%s vs %s (%s)' % (nm(a).split('/')[-1], nm(b).split('/')[-1], _w(u)), '%s is tested strictly greater than %s at %s and strictly less at %s, and neither test is control-dependent on the other: when the two are equal the first treats the span as not yet finished and the second as already finished, so a boundary that falls exactly on a box edge is handled inconsistently (empty rectangles emitted / wrong overlap class)' % (nm(a).split('/')[-1], nm(b).split('/')[-1], x.loc(), y.loc()), x.loc())
                else:
                    ck.ok(R, where)


def r_instantiation_signedness(ck, P, rid):
    """sibling agreement between the two instantiations of pixman-region.c: the same source line compares, divides and shifts with the same
    signedness in the 16-bit and in the 32-bit unit.  overflow_int_t is int in one and int64_t in the other: an expression that mixes
    it with an unsigned operand is compared as unsigned in the 16-bit unit only."""
    R = ck.rule(rid, 'every source line of pixman-region.c compiles to comparisons / divisions / right shifts of the same signedness in pixman-region16.c and pixman-region32.c (the usual arithmetic conversions must not turn a signed coordinate comparison into an unsigned one in the instantiation whose overflow_int_t is only as wide as unsigned int)', floor=380)
    us = units(P)
    if len(us) != 2:
        raise AnalysisBroken('expected the two region units')
    u16, u32 = us
    def sig(f):
        d = defaultdict(list)
        for x in f.insts():
            k = None
            if x.op == 'icmp':
                p = x.d['p']; k = 'signed' if p[0] == 's' else 'unsigned' if p[0] == 'u' else 'equality'
                k = 'compare ' + k
            elif x.op in ('sdiv', 'srem', 'ashr'):
                k = 'signed ' + {'sdiv': 'division', 'srem': 'remainder', 'ashr': 'shift'}[x.op]
            elif x.op in ('udiv', 'urem', 'lshr'):
                k = 'unsigned ' + {'udiv': 'division', 'urem': 'remainder', 'lshr': 'shift'}[x.op]
            if k:
                d[x.d.get('l')].append((k, x))
        return d
    for fn, f in sorted(u16.functions.items()):
        g = u32.functions.get(fn.replace('pixman_region_', 'pixman_region32_')) or u32.functions.get(fn)
        if g is None:
            continue
        ck.saw(f); ck.saw(g)
        a, b = sig(f), sig(g)
        for l in sorted(set(a) | set(b), key=lambda v: v or 0):
            ka = [k for k, _ in a.get(l, [])]; kb = [k for k, _ in b.get(l, [])]
            where = '%s / %s line %s' % (fn, g.name, l)
            if ka == kb:
                ck.ok(R, where)
            elif sorted(k.split()[0] if k.startswith('compare') else k for k in ka) == sorted(k.split()[0] if k.startswith('compare') else k for k in kb) and len(ka) == len(kb):
                x = next(x for (k, x), k2 in zip(a[l], kb) if k != k2)
                k16 = next(k for (k, _), k2 in zip(a[l], kb) if k != k2); k32 = next(k2 for (k, _), k2 in zip(a[l], kb) if k != k2)
                ck.violation(R, fn, 'line %s of pixman-region.c' % l, 'the same source line is a %s in the 16-bit instantiation and a %s in the 32-bit one: the two libraries order (or scale) the same coordinates differently, and the one that treats a negative coordinate as a large unsigned number is wrong' % (k16, k32), x.loc())
            else:
                ck.incomplete(R, '%s: the two instantiations have different operations on this line (%s vs %s)' % (where, ka, kb))


def r5_8_cached_field_follows_cursor(ck, P, rid='C05-R8'):
    """sibling agreement between the advance sites of one cursor: a loop variable that is re-read from the element the cursor has just
    moved to (x1 = r1->x1 after r1++) is re-read at every site that moves the cursor."""
    from .factors import _loops_of
    R = ck.rule(rid, 'in the band loops, a loop-carried variable that is reloaded from the element a cursor has just advanced to (the left fence x1 = r1->x1 after r1++ in subtract) is reloaded at every advance of that cursor: an advance that keeps the old value leaves the fence inside the previous rectangle', floor=4)
    for u in units(P):
        L = _loops_of(u)
        for fn, loops in sorted(L.items()):
            f = u.functions.get(fn)
            if f is None:
                continue
            for lp in loops:
                blocks = set(lp['blocks']); hdr = lp['header']
                pps = [f.by_id[p['v']] for p in lp['phis'] if p['ty'].endswith('*')]
                xps = [f.by_id[p['v']] for p in lp['phis'] if not p['ty'].endswith('*')]
                for Pp in pps:
                    adv = []; seen = set(); work = [a for a, bb in zip(Pp.a, Pp.d['bb']) if bb in blocks]
                    while work:
                        o = work.pop(); x = f.v(o)
                        if x is None or x.i in seen:
                            continue
                        seen.add(x.i)
                        if x.op == 'phi' and x.bb.id in blocks and x.i != Pp.i:
                            work.extend(x.a)
                        elif x.op == 'getelementptr' and x.a[0] == ['v', Pp.i] and len(x.d.get('path', [])) == 1 and x.d['path'][0][0] == 'p' and x.d['path'][0][1][0] == 'c':
                            adv.append(x)
                    if not adv:
                        continue
                    for Xp in xps:
                        res = []; cached_fields = set()
                        for A in adv:
                            ok = False
                            for y in f.users(A):
                                if y.op != 'getelementptr':
                                    continue
                                fkey = tuple(tuple(st[1:3]) for st in y.d.get('path', []) if st and st[0] == 'f')
                                for z in f.users(y):
                                    if z.op != 'load':
                                        continue
                                    s2 = set(); w2 = [z]
                                    while w2 and not ok:
                                        q = w2.pop()
                                        for r in f.users(q):
                                            if r.i in s2:
                                                continue
                                            s2.add(r.i)
                                            if r.i == Xp.i:
                                                ok = True; cached_fields.add(fkey)
                                            elif r.op in ('phi', 'sext', 'zext', 'trunc') and r.bb.id in blocks:
                                                w2.append(r)
                            res.append(ok)
                        if not any(res):
                            continue
                        ck.saw(f)
                        where = '%s/%s loop at block %d: %s cached from %s (%d advance sites)' % (u.name, fn, hdr, Xp.dv or 'value', Pp.dv or 'cursor', len(adv))
                        # the cache is the authority inside the loop: the raw field of the current element is not read again
                        raw = None
                        if all(res):
                            for b in sorted(blocks):
                                for z in f.blocks[b].insts:
                                    if z.op != 'load':
                                        continue
                                    y = f.v(z.a[0])
                                    if y is None or y.op != 'getelementptr' or y.a[0] != ['v', Pp.i]:
                                        continue
                                    if tuple(tuple(st[1:3]) for st in y.d.get('path', []) if st and st[0] == 'f') not in cached_fields:
                                        continue
                                    s3 = set(); w3 = [z]; into = False
                                    while w3 and not into:
                                        q = w3.pop()
                                        for r in f.users(q):
                                            if r.i in s3:
                                                continue
                                            s3.add(r.i)
                                            if r.i == Xp.i:
                                                into = True
                                            elif r.op in ('phi', 'sext', 'zext', 'trunc') and r.bb.id in blocks:
                                                w3.append(r)
                                    if not into:
                                        raw = z
                        if all(res) and raw is None:
                            ck.ok(R, where)
                        elif all(res):
                            ck.violation(R, fn, 'raw read of the cached field at %s (%s)' % (raw.loc(), _w(u)), '%s keeps %s as its own running copy of a field of the element %s points to (it is moved on inside the loop, e.g. past a subtrahend), yet at %s the field is read from the element again and used directly: that value ignores everything the loop has already consumed of this element' % (fn, Xp.dv or 'a variable', Pp.dv or 'the cursor', raw.loc()), raw.loc())
                        else:
                            A = adv[res.index(False)]
                            ck.violation(R, fn, 'advance of %s at %s (%s)' % (Pp.dv or 'the cursor', A.loc(), _w(u)), '%s is re-read from the new element at %d of the %d places that advance %s, but not after the advance at %s: on that path it keeps a value taken from the previous rectangle, so the next rectangle is processed from a left edge that is not its own' % (Xp.dv or 'the cached value', sum(res), len(res), Pp.dv or 'the cursor', A.loc()), A.loc())


def r7_8_range_test_siblings(ck, P):
    """sibling agreement: translate decides "entirely outside the coordinate range" twice, for the extents and for every box, with
    an or of four differences; both tests pair the same edge with the same limit."""
    R = ck.rule('C07-R8', 'in translate, the test that a rectangle lies entirely outside the representable range is the same expression for the extents and for each box: (x2 - MIN) | (y2 - MIN) | (MAX - x1) | (MAX - y1) pairs each limit with the opposite edge; the two or-trees that are compared the same way against 0 consist of the same (limit, edge) pairs', floor=2)
    for u in units(P):
        for fn, f in sorted(u.functions.items()):
            if not fn.endswith('_translate'):
                continue
            def edge(o, d=0):
                """the box field a translated coordinate comes from"""
                x = f.v(o)
                if x is None or d > 8:
                    return None
                if x.op in ('sext', 'zext', 'trunc'):
                    return edge(x.a[0], d + 1)
                if x.op == 'add':
                    return edge(x.a[0], d + 1) or edge(x.a[1], d + 1)
                if x.op == 'load':
                    p = f.path(x.a[0])
                    fs = [s for s in p[1] if isinstance(s, str) and '.' in s]
                    return fs[-1].split('.')[-1] if fs and fs[-1].split('.')[-1] in ('x1', 'x2', 'y1', 'y2') else None
                return None
            def leaves(o, d=0):
                x = f.v(o)
                if x is not None and x.op == 'or' and d < 6:
                    return leaves(x.a[0], d + 1) + leaves(x.a[1], d + 1)
                return [o]
            tests = defaultdict(list)
            for x in f.insts():
                if x.op != 'icmp' or not (x.a[1][0] == 'c' and int(x.a[1][1]) == 0):
                    continue
                lv = leaves(x.a[0])
                if len(lv) < 4:
                    continue
                sig = []
                for o in lv:
                    y = f.v(o)
                    if y is None or y.op != 'sub':
                        sig = None; break
                    a, b = y.a
                    if a[0] == 'c':
                        e = edge(b); sig.append(('limit %s - ' % ('MAX' if int(a[1]) > 0 else 'MIN')) + str(e))
                    elif b[0] == 'c':
                        e = edge(a); sig.append(str(e) + (' - limit %s' % ('MAX' if int(b[1]) > 0 else 'MIN')))
                    else:
                        sig = None; break
                    if e is None:
                        sig = None; break
                if sig is not None:
                    tests[x.d['p']].append((sorted(sig), x))
            # the same tests written as a short-circuit chain (x2 <= MIN || y2 <= MIN || ...): comparisons of one edge with one limit
            # whose branches all lead to the same block
            SWP = {'slt': 'sgt', 'sgt': 'slt', 'sle': 'sge', 'sge': 'sle'}
            chains = defaultdict(list)
            for b in f.blocks:
                t = b.term
                if t.op != 'br' or not t.a:
                    continue
                c = f.v(t.a[0])
                if c is None or c.op != 'icmp' or c.d['p'] not in SWP:
                    continue
                a, b_ = c.a
                pr = c.d['p']
                if a[0] == 'c':
                    a, b_ = b_, a; pr = SWP[pr]
                if b_[0] != 'c' or abs(int(b_[1])) < 30000:
                    continue
                e = edge(a)
                if e is None:
                    continue
                chains[t.d['succ'][0]].append(('%s %s limit %s' % (e, pr, 'MAX' if int(b_[1]) > 0 else 'MIN'), c))
            for tgt, items in chains.items():
                if len(items) >= 4:
                    tests['chain'].append((sorted(k for k, _ in items), items[0][1]))
            ck.saw(f)
            n = 0
            for pr, ts in sorted(tests.items()):
                if len(ts) < 2:
                    continue
                n += 1
                ref, x0 = ts[0]
                diff = [(s, x) for s, x in ts[1:] if s != ref]
                where = '%s/%s: %d range tests compared %s 0' % (u.name, fn, len(ts), pr)
                if diff:
                    s, x = diff[0]
                    ck.violation(R, fn, 'range test at %s (%s)' % (x.loc(), _w(u)), 'the range test at %s combines {%s} while its sibling at %s combines {%s}: one of them pairs a limit with the wrong edge, so a rectangle that only straddles the limit is treated like one that lies wholly beyond it (or the reverse)' % (x.loc(), ', '.join(s), x0.loc(), ', '.join(ref)), x.loc())
                else:
                    ck.ok(R, where)
            if n == 0:
                ck.incomplete(R, '%s/%s: no pair of sibling range tests found' % (u.name, fn))


def r7_9_word_skip_depends_on_run_state(ck, P):
    """sibling agreement between the word loops of init_from_image: whether the per-bit loop (the only place where runs are opened and
    closed) can be skipped for a word depends on the word AND on whether a run is open; a skip decided from the pixel data alone
    leaves an open run open across a word of zeros."""
    from .factors import _loops_of
    R = ck.rule('C07-R9', 'in init_from_image every branch that decides from the bitmap word whether the per-bit loop runs for that word is taken under a test of the run state (in_box): a word of zeros may only be skipped when no run is open, a word of ones only when one is', floor=4)
    for u in units(P):
        L = _loops_of(u)
        for fn, loops in sorted(L.items()):
            if not fn.endswith('_init_from_image'):
                continue
            f = u.functions[fn]
            ck.saw(f)
            # run-state phis: header phis of a loop whose in-loop incoming leaves are constants
            state = set(); bitloops = []
            for lp in loops:
                blocks = set(lp['blocks'])
                for p in lp['phis']:
                    ph = f.by_id[p['v']]
                    if not ph.ty.startswith('i') or ph.ty == 'i1':
                        continue
                    leaves = []; seen = set(); work = [a for a, bb in zip(ph.a, ph.d['bb']) if bb in blocks]
                    while work:
                        o = work.pop(); x = f.v(o)
                        if x is not None and x.op == 'phi' and x.bb.id in blocks:
                            if x.i not in seen and x.i != ph.i:
                                seen.add(x.i); work.extend(x.a)
                        else:
                            leaves.append(o)
                    shifts = any(f.by_id[q['v']].ty.startswith('i') and any((f.v(a) is not None and f.v(a).op in ('shl', 'lshr')) for a, bb in zip(f.by_id[q['v']].a, f.by_id[q['v']].d['bb']) if bb in blocks) for q in lp['phis'])
                    if leaves and all(o[0] == 'c' for o in leaves) and len({int(o[1]) for o in leaves}) >= 2 and shifts:
                        state.add(ph.i)
                        if lp not in bitloops:
                            bitloops.append(lp)
            # the family of the state phis (connected through phis)
            grew = True
            while grew:
                grew = False
                for x in f.insts():
                    if x.op == 'phi' and x.i not in state and any(a[0] == 'v' and a[1] in state for a in x.a):
                        state.add(x.i); grew = True
                    elif x.op == 'phi' and x.i in state:
                        for a in x.a:
                            y = f.v(a)
                            if y is not None and y.op == 'phi' and y.i not in state:
                                state.add(y.i); grew = True
            if not bitloops:
                ck.incomplete(R, '%s/%s: no per-bit loop with a run-state flag found' % (u.name, fn)); continue

            def slice_has(o, pred, d=0, seen=None):
                seen = set() if seen is None else seen
                x = f.v(o)
                if x is None or x.i in seen or d > 12:
                    return False
                seen.add(x.i)
                if pred(x):
                    return True
                if x.op in ('load', 'call', 'phi'):
                    return False
                return any(slice_has(a, pred, d + 1, seen) for a in x.a if a and a[0] == 'v')

            def innermost_header(b):
                ls = [lp for lp in loops if b in lp['blocks']]
                return min(ls, key=lambda lp: len(lp['blocks']))['header'] if ls else None

            for lp in bitloops:
                H = lp['header']; n = 0; bad = None
                for b in f.blocks:
                    t = b.term
                    if t.op != 'br' or not t.a or b.id in lp['blocks']:
                        continue
                    # within the current iteration of every enclosing loop
                    avoid = {l2['header'] for l2 in loops if b.id in l2['blocks'] and l2['header'] != b.id}
                    rs = [(s == H) or (H in f.reachable_blocks(s, avoid=avoid)) for s in t.d['succ']]
                    if rs.count(True) != 1:
                        continue
                    data = slice_has(t.a[0], lambda x: x.op == 'load' and f.root(f.path(x.a[0]))[0] == 'phi')
                    if not data:
                        continue
                    n += 1
                    dep = slice_has(t.a[0], lambda x: x.i in state) or any(tt.a and (slice_has(tt.a[0], lambda x: x.op == 'phi' and x.i in state) or (f.v(tt.a[0]) is not None and any(a[0] == 'v' and a[1] in state for a in f.v(tt.a[0]).a))) for tt, s_ in f.control_conditions(b.id, transitive=False))
                    if not dep:
                        bad = t
                where = '%s/%s: per-bit loop at block %d, %d word tests' % (u.name, fn, H, n)
                if bad is not None:
                    ck.violation(R, fn, 'word test at %s (%s)' % (bad.loc(), _w(u)), 'whether the per-bit loop at block %d runs is decided at %s from the bitmap word alone, without a test of the run state: a word that cannot open a run can still have to close the one that is open (and the reverse), so skipping it extends or drops a run' % (H, bad.loc()), bad.loc())
                else:
                    ck.ok(R, where)


_AXIS_EXEMPT = {
    # (function, (A, side, B, side)): reason
    ('validate', ('box', 'start', 'rit', 'end')): 'structure, not geometry: within a band a box that touches the previous one is merged (x1 <= x2), while a box whose top touches the bottom of the band opens a new band (y1 >= y2)',
}


def r7_10_axis_symmetry(ck, P):
    """sibling agreement between the two axes: where a function compares a start edge of one box with an end edge of another in x and in
    y, both comparisons put the touching case on the same side (boxes are half-open in both directions)."""
    R = ck.rule('C07-R10', 'wherever a region function compares the same pair of boxes edge against edge in both axes (x1 of A with x2 of B, and y1 of A with y2 of B), the two comparisons classify the touching case a == b the same way: half-open boxes that merely touch are disjoint in y exactly as they are in x', floor=50)
    SW = {'slt': 'sgt', 'sgt': 'slt', 'sle': 'sge', 'sge': 'sle'}
    EQ = {'slt': 0, 'sge': 0, 'sle': 1, 'sgt': 1}
    for u in units(P):
        for fn, f in sorted(u.functions.items()):
            G = defaultdict(list)
            def key(o):
                x = f.v(o)
                while x is not None and x.op in ('sext', 'zext', 'trunc') and not x.dv:
                    o = x.a[0]; x = f.v(o)
                if x is None or x.op != 'load':
                    return None
                p = f.path(x.a[0]); r = f.root(p)
                fs = [s for s in p[1] if isinstance(s, str) and '.' in s]
                if not fs:
                    return None
                fld = fs[-1].split('.')[-1]
                if fld not in ('x1', 'x2', 'y1', 'y2'):
                    return None
                if r[0] == 'phi':
                    nm = f.by_id[r[1]].dv or 'phi%d' % r[1]
                elif r[0] == 'arg':
                    nm = (f.params[r[1]][0] or 'arg%d' % r[1]) + ''.join('/' + str(s) for s in p[1][:-1])
                else:
                    nm = str(r)
                return (nm, fld[0], 'start' if fld[1] == '1' else 'end')
            for x in f.insts():
                if x.op != 'icmp' or x.d['p'] not in SW:
                    continue
                a, b = key(x.a[0]), key(x.a[1])
                if a is None or b is None or a[1] != b[1]:
                    continue
                p = x.d['p']
                if (a[0], a[2]) > (b[0], b[2]):
                    a, b = b, a; p = SW[p]
                G[(a[0], a[2], b[0], b[2])].append((a[1], EQ[p], x))
            for k, v in sorted(G.items()):
                ax = defaultdict(set)
                for axis, e, x in v:
                    ax[axis].add(e)
                if len(ax) != 2:
                    continue
                ck.saw(f)
                base = fn.replace('pixman_region32_', '').replace('pixman_region_', '')
                where = '%s/%s: %s.%s vs %s.%s' % (u.name, fn, k[0], k[1], k[2], k[3])
                if ax['x'] == ax['y']:
                    ck.ok(R, where)
                elif (base, k) in _AXIS_EXEMPT or (fn, k) in _AXIS_EXEMPT:
                    ck.ok(R, where, 'exempt: ' + _AXIS_EXEMPT.get((base, k), _AXIS_EXEMPT.get((fn, k))))
                else:
                    xs = [x for a_, e, x in v if a_ == 'x']; ys = [x for a_, e, x in v if a_ == 'y']
                    ck.violation(R, fn, '%s %s edge vs %s %s edge (%s)' % (k[0], k[1], k[2], k[3], _w(u)), 'the x comparison at %s and the y comparison at %s between the %s edge of %s and the %s edge of %s put the touching case on opposite sides: two boxes that merely touch are treated as overlapping in one axis and as disjoint in the other' % (xs[0].loc(), ys[0].loc(), k[1], k[0], k[3], k[2]), ys[0].loc())


def r6_7_normalise_after_last_change(ck, P, rid='C06-R7'):
    """T-MPT (ordering): the test that turns a one-rectangle region into its canonical form (data == NULL) is not followed, for the same
    region and within the same loop iteration, by a call that can still reduce the number of rectangles."""
    from .factors import _loops_of
    R = ck.rule(rid, 'where a function normalises the single-rectangle case of a region (numRects == 1: free the data, data = NULL), no call that can still decrease that region\'s numRects (band coalescing) follows on the path on which the test found more than one rectangle: otherwise a region can end up with allocated data and a single rectangle, which the band operations take for the opposite (they save the rectangle array only when numRects > 1)', floor=12)
    for u in units(P):
        data = _reg(u) + '_data.numRects'
        def _dec(f, x):
            if _decrement(f, x):
                return True
            y = f.v(x.a[0])
            if y is not None and y.op == 'sub':
                z = f.v(y.a[0])
                return z is not None and z.op == 'load' and f.last_field(f.path(z.a[0])) == data
            return False
        dec = {f.name for f in u.functions.values() if any(x.op == 'store' and f.last_field(f.path(x.a[1])) == data and _dec(f, x) for x in f.insts())}
        L = _loops_of(u)
        for fn, f in sorted(u.functions.items()):
            loops = L.get(fn, [])
            for b in f.blocks:
                t = b.term
                if t.op != 'br' or not t.a:
                    continue
                c = f.v(t.a[0])
                if c is None or c.op != 'icmp' or c.d['p'] not in ('eq', 'ne') or ('field', data) not in f.atoms(t.a[0]):
                    continue
                if [int(o[1]) for o in c.a if o[0] == 'c'] != [1]:
                    continue
                one_edge = t.d['succ'][0] if c.d['p'] == 'eq' else t.d['succ'][1]
                more_edge = t.d['succ'][1] if c.d['p'] == 'eq' else t.d['succ'][0]
                # only a normalising test: the == 1 side clears region.data
                if not any(y.op == 'store' and f.last_field(f.path(y.a[1])) == _reg(u) + '.data' and y.a[0][0] == 'n' for bb in ({one_edge} | f.reachable_blocks(one_edge, avoid={more_edge})) for y in f.blocks[bb].insts):
                    continue
                ck.saw(f)
                ld = [a for a in f.atoms(t.a[0]) if a[0] == 'field']
                hdrs = {lp['header'] for lp in loops if b.id in lp['blocks']}
                reach = {more_edge} | f.reachable_blocks(more_edge, avoid=hdrs)
                bad = None
                for bb in reach:
                    for y in f.blocks[bb].insts:
                        if y.op == 'call' and y.callee in dec:
                            bad = y
                where = '%s/%s: single-rectangle normalisation at %s' % (u.name, fn, t.loc())
                if bad is not None:
                    ck.violation(R, fn, 'normalisation at %s (%s)' % (t.loc(), _w(u)), '%s tests numRects == 1 at %s and afterwards still calls %s (%s), which can merge bands and bring the region down to one rectangle: the region then keeps its data block with numRects == 1, and pixman_op, which saves the rectangle array of an aliased operand only when numRects > 1, overwrites the rectangles it is still reading' % (fn, t.loc(), bad.callee, bad.loc()), bad.loc())
                else:
                    ck.ok(R, where)


def r6_8_extents_before_data_is_dropped(ck, P, rid='C06-R8'):
    """typestate: the routine that recomputes the extents from the rectangle list does nothing for a region without a list
    (data == NULL).  Once a function has set data = NULL, a call of that routine on the same region is a no-op: the single rectangle has
    to be copied into the extents before its list is released."""
    R = ck.rule(rid, 'no path leads from a store of NULL into a region\'s data pointer to a call of the extents-recomputing routine on that region (which returns at once when data == NULL): the extents of a region that has just been reduced to one rectangle are taken from that rectangle before the list is dropped', floor=8)
    for u in units(P):
        dataf = _reg(u) + '.data'
        # role: the routine that returns early on data == NULL and stores into the extents
        ext = [g for g in u.functions.values() if g.name.endswith('set_extents')]
        if len(ext) != 1:
            ck.incomplete(R, '%s: extents routine not recognised' % u.name); continue
        ext = ext[0]
        n = 0
        for fn, f in sorted(u.functions.items()):
            calls = [c for c in f.calls(ext.name)]
            if not calls:
                continue
            nulls = [x for x in f.insts() if x.op == 'store' and x.a[0][0] == 'n' and f.last_field(f.path(x.a[1])) == dataf]
            ck.saw(f)
            n += 1
            bad = None
            for x in nulls:
                relive = {y.bb.id for y in f.insts() if y.op == 'store' and y.a[0][0] != 'n' and f.last_field(f.path(y.a[1])) == dataf and y is not x}
                reach = f.reachable_blocks(x.bb.id, avoid=relive)
                for c in calls:
                    same = f.root(f.path(c.a[0])) == f.root(f.path(x.a[1]))
                    after_in_block = c.bb.id == x.bb.id and c.i > x.i
                    if same and (after_in_block or c.bb.id in reach):
                        bad = (x, c)
            if bad:
                x, c = bad
                ck.violation(R, fn, 'extents after data = NULL (%s)' % _w(u), '%s sets the region\'s data pointer to NULL at %s and then calls %s (%s), which returns immediately for a region without a rectangle list: the extents keep the bounding box of the rectangles that have just been discarded, and since data == NULL means "the region is its extents" the region now contains points that were dropped' % (fn, x.loc(), ext.name, c.loc()), c.loc())
            else:
                ck.ok(R, '%s/%s: %d calls of %s, none after data = NULL' % (u.name, fn, len(calls), ext.name))


def r7_11_limits_are_type_limits(ck, P, rid='C07-R11'):
    """T-TAB against the types: the constants translate clamps box coordinates to are the smallest and the largest value of the box
    coordinate type of that instantiation (16-bit boxes: -32768 / 32767, 32-bit boxes: INT32_MIN / INT32_MAX)."""
    R = ck.rule(rid, 'in translate, every constant that is stored into a box coordinate as a clamp is the minimum or the maximum of the coordinate\'s integer type, and both occur: the representable range of a region is exactly the range of its box type (a limit one unit short drops a representable column or row)', floor=2)
    for u in units(P):
        for fn, f in sorted(u.functions.items()):
            if not fn.endswith('_translate'):
                continue
            ck.saw(f)
            vals = {}
            for x in f.insts():
                if x.op != 'store' or x.a[0][0] != 'c':
                    continue
                p = f.path(x.a[1])
                fs = [s for s in p[1] if isinstance(s, str) and '.' in s]
                if not fs or fs[-1].split('.')[-1] not in ('x1', 'x2', 'y1', 'y2'):
                    continue
                w = int(x.a[0][2]) if len(x.a[0]) > 2 else 32
                v = int(x.a[0][1])
                if v >= 1 << (w - 1):
                    v -= 1 << w
                # a clamp: the store happens under an ordered comparison with a constant (if (c < K) box->c = K); a constant stored
                # unconditionally or under other tests (extents zeroed to mark the list as unchecked) is not one
                clamp = False
                for pb in [b for b in f.blocks if x.bb.id in b.succ]:
                    t = pb.term
                    if t.op != 'br' or not t.a:
                        continue
                    c, pr, ops = f.cond(t.a[0])
                    if c is not None and c.op == 'icmp' and pr in ('slt', 'sgt', 'sle', 'sge'):
                        for o in ops:
                            if o[0] != 'c':
                                continue
                            ww = int(o[2]) if len(o) > 2 else 32
                            kk = int(o[1]) & ((1 << w) - 1)
                            if kk >= 1 << (w - 1):
                                kk -= 1 << w
                            if kk == v:
                                clamp = True          # if (coordinate < K) field = K
                if not clamp:
                    continue
                vals.setdefault((w, v), x)
            if not vals:
                ck.incomplete(R, '%s/%s: no clamp store found' % (u.name, fn)); continue
            w = next(iter(vals))[0]
            lo, hi = -(1 << (w - 1)), (1 << (w - 1)) - 1
            wrong = [(v, x) for (w_, v), x in vals.items() if v not in (lo, hi)]
            have = {v for (w_, v) in vals}
            if wrong:
                v, x = wrong[0]
                ck.violation(R, fn, 'clamp constant %d (%s)' % (v, _w(u)), '%s clamps a box coordinate to %d; the coordinate type is %d bits wide and ranges over [%d, %d]: the region is cut one unit (or more) short of what its boxes can represent, or past it' % (fn, v, w, lo, hi), x.loc())
            elif have != {lo, hi}:
                ck.violation(R, fn, 'missing clamp (%s)' % _w(u), '%s clamps only to %s of the limits [%d, %d] of its coordinate type' % (fn, sorted(have), lo, hi), next(iter(vals.values())).loc())
            else:
                ck.ok(R, '%s/%s: clamps to [%d, %d]' % (u.name, fn, lo, hi))


def r7_13_or_trick_exactness(ck, P, rid='C07-R13'):
    """T-BIT (soundness of a bit trick): the or of several signed differences is negative iff one of them is, and non-negative iff all
    are - but it is zero only if ALL are zero.  `(a | b | c | d) >= 0` and `< 0` are exact per-term tests; `<= 0` and `> 0` are not:
    one term equal to 0 among positive ones goes undetected."""
    R = ck.rule(rid, 'wherever the region code tests several coordinate differences at once by or-ing them, the comparison with 0 is one the trick is exact for (>= 0: all non-negative; < 0: one negative); a test "<= 0" / "> 0" on the or misses a single difference that is exactly 0, i.e. a box that lands exactly on the coordinate limit', floor=2)
    n = 0
    for u in units(P):
        for fn, f in sorted(u.functions.items()):
            for x in f.insts():
                if x.op != 'icmp' or not (x.a[1][0] == 'c' and int(x.a[1][1]) == 0):
                    continue
                leaves = []; work = [x.a[0]]
                while work:
                    o = work.pop(); y = f.v(o)
                    if y is not None and y.op == 'or':
                        work.extend(y.a)
                    else:
                        leaves.append(o)
                subs = [o for o in leaves if f.v(o) is not None and f.v(o).op == 'sub']
                if len(leaves) < 2 or len(subs) != len(leaves):
                    continue
                n += 1; ck.saw(f)
                where = '%s/%s: or of %d differences %s 0 at %s' % (u.name, fn, len(leaves), x.d['p'], x.loc())
                if x.d['p'] in ('sge', 'slt'):
                    ck.ok(R, where)
                else:
                    ck.violation(R, fn, 'or-ed range test at %s (%s)' % (x.loc(), _w(u)), '%s compares the or of %d differences with 0 using "%s": the or is 0 only when every difference is 0, so a single difference that is exactly 0 (an edge landing exactly on the limit) is not seen while the others are positive - the rectangle is kept, clamped to zero width, and the region reports points it does not have' % (fn, len(leaves), {'sle': '<=', 'sgt': '>', 'eq': '==', 'ne': '!='}.get(x.d['p'], x.d['p'])), x.loc())
    if n == 0:
        ck.incomplete(R, 'no or-ed difference test found')


def r5_11_constructed_rectangle_validated(ck, P, rid='C05-R11'):
    """sibling agreement: every exported function that makes a one-rectangle region out of caller-supplied numbers (x, y, width, height,
    or a box pointer) checks that the rectangle has points before it uses it as a region."""
    R = ck.rule(rid, 'every exported region function that builds a single-rectangle region from its arguments (x, y, width, height or a caller\'s box copied into an extents field together with data = NULL) compares x1 with x2 and y1 with y2 of that rectangle first: a rectangle without points is the empty region, not a region with one rectangle', floor=8)
    for u in units(P):
        for fn, f in sorted(u.functions.items()):
            if not f.exported:
                continue
            # stores of argument-derived values into some region's extents
            ext = []
            for x in f.insts():
                if x.op != 'store':
                    continue
                st = [str(s) for s in f.path(x.a[1])[1]]
                if len(st) >= 2 and st[-2].endswith('.extents') and st[-1].split('.')[-1] in ('x1', 'x2', 'y1', 'y2'):
                    roots = common.value_arg_roots(f, x.a[0])
                    dest_root = f.root(f.path(x.a[1]))
                    if any(r[0] == 'arg' for r in roots) and not (dest_root[0] == 'arg' and ('arg', dest_root[1]) in roots):
                        ext.append((x, st[-1].split('.')[-1]))
            # whole-struct copies of a caller's box into an extents field
            for c in f.calls():
                if (c.callee or '').startswith('llvm.memcpy') and len(c.a) >= 2:
                    dst = [str(s) for s in f.path(c.a[0])[1]]; srcr = f.root(f.path(c.a[1]))
                    if dst and dst[-1].endswith('.extents') and srcr[0] == 'arg' and 'box' in f.params[srcr[1]][1]:
                        ext.append((c, 'box'))
            fields = {k for _, k in ext}
            if not ({'x1', 'x2', 'y1', 'y2'} <= fields or 'box' in fields):
                continue
            # only constructors of a single-rectangle region: data = NULL is stored, or the local region is handed to another region function
            if not any(x.op == 'store' and x.a[0][0] == 'n' and (f.last_field(f.path(x.a[1])) or '').endswith('.data') for x in f.insts()):
                continue
            ck.saw(f)
            cmpd = set()
            for x in f.insts():
                if x.op != 'icmp' or x.d['p'] in ('eq', 'ne'):
                    continue
                ks = []
                for o in x.a:
                    y = f.v(o)
                    while y is not None and y.op in ('sext', 'zext', 'trunc'):
                        y = f.v(y.a[0])
                    if y is not None and y.op == 'load':
                        st = [str(s) for s in f.path(y.a[0])[1]]
                        ks.append(st[-1].split('.')[-1] if st else None)
                    else:
                        ks.append(None)
                if set(ks) == {'x1', 'x2'}:
                    cmpd.add('x')
                if set(ks) == {'y1', 'y2'}:
                    cmpd.add('y')
            where = '%s/%s' % (u.name, fn)
            # the comparison has to exclude the rectangle that is empty *on that axis alone*: with x1 == x2 (then y1 == y2) and nothing else
            # known, no path reaches the store that makes the region a single rectangle (data = NULL)
            single = {x.bb.id for x in f.insts() if x.op == 'store' and x.a[0][0] == 'n' and (f.last_field(f.path(x.a[1])) or '').endswith('.data')}
            slipped = None
            if cmpd == {'x', 'y'} and single:
                for axis in ('x', 'y'):
                    def known(x, axis=axis):
                        if x.op != 'icmp':
                            return None
                        ks = []
                        for o in x.a:
                            y = f.v(o)
                            while y is not None and y.op in ('sext', 'zext', 'trunc'):
                                y = f.v(y.a[0])
                            if y is not None and y.op == 'load':
                                st = [str(q) for q in f.path(y.a[0])[1]]
                                ks.append(st[-1].split('.')[-1] if st else None)
                            else:
                                ks.append(None)
                        if set(ks) != {axis + '1', axis + '2'}:
                            return None
                        return int({'eq': True, 'ne': False, 'slt': False, 'sgt': False, 'sle': True, 'sge': True, 'ult': False, 'ugt': False, 'ule': True, 'uge': True}[x.d['p']])
                    # paths on which the library has declared the argument a caller's bug (critical_if_fail logs and goes on) do not count
                    logged = {b.id for b in f.blocks if common.is_log_error_block(f, b.id)}
                    for sb in sorted(common.reach_under(f, known, single, avoid=logged)):
                        st_ = [x for x in f.blocks[sb].insts if x.op == 'store' and x.a[0][0] == 'n' and (f.last_field(f.path(x.a[1])) or '').endswith('.data')][0]
                        root_ = f.root(f.path(st_.a[1]))
                        # a later store to the same data field (the empty sentinel) repairs it: is a use / return reachable without one?
                        later = {x.bb.id for x in f.insts() if x.op == 'store' and x is not st_ and (f.last_field(f.path(x.a[1])) or '').endswith('.data') and f.root(f.path(x.a[1])) == root_ and not (x.bb.id == sb and x.i < st_.i)}
                        uses = {x.bb.id for x in f.insts() if (x.op == 'ret') or (x.op == 'call' and x.callee and not x.callee.startswith('llvm.') and any(a and a[0] == 'v' and f.root(f.path(a)) == root_ for a in x.a))}
                        uses -= {sb} if not any(x.op == 'ret' for x in f.blocks[sb].insts) else set()
                        if common.reach_under(f, known, uses - later, start=sb, avoid=(later | logged) - {sb}):
                            slipped = axis
            if slipped:
                ck.violation(R, fn, 'empty rectangle accepted (%s)' % _w(u), '%s compares the coordinates of the rectangle it is given, but with %s1 == %s2 (a rectangle without points) and nothing else known it still reaches the store that makes the region a single rectangle (data = NULL): the result has no points, yet it is not the empty region - not_empty() is TRUE, equal (r, empty) is FALSE, and a union with it inserts an empty band' % (fn, slipped, slipped), ext[0][0].loc())
            elif cmpd == {'x', 'y'}:
                ck.ok(R, where, 'x1/x2 and y1/y2 compared')
            else:
                ck.violation(R, fn, 'rectangle from arguments (%s)' % _w(u), '%s builds a one-rectangle region from its arguments without comparing %s: with a zero width or height (or an empty box) it produces a region that has no points but is reported non-empty, has one rectangle and is not equal to the empty region; the sibling constructors (init_rect, union_rect, init_with_extents) test the rectangle first' % (fn, ' and '.join(sorted({'x': 'x1 with x2', 'y': 'y1 with y2'}[k] for k in {'x', 'y'} - cmpd))), ext[0][0].loc())


def r7_14_running_extremes_independent(ck, P, rid='C07-R14'):
    """T-GRD: a running minimum / maximum kept in a region's extents (if (v < ext.F) ext.F = v) is updated whatever happened to the other
    extents fields: the update of F is not on the else side (or under the then side) of a test of another field G of the same extents."""
    R = ck.rule(rid, 'every update of an extents field F that is guarded by a comparison with the current value of the same field (running minimum / maximum) is guarded by no comparison that reads a different field of the same extents: "if (x1 < ext.x1) ... else if (x2 > ext.x2) ..." leaves ext.x2 stale whenever the same rectangle also lowers ext.x1', floor=20)
    n = 0
    for u in units(P):
        for f in u.functions.values():
            for x in f.insts():
                if x.op != 'store':
                    continue
                p = f.path(x.a[1]); fl = f.fields_of(p)
                if len(fl) < 2 or not fl[-2].endswith('.extents') or not fl[-1].startswith('pixman_box'):
                    continue
                root = f.root(p); F = fl[-1].split('.')[1]
                own = False; other = None
                for t, s_ in f.guard_edges(x.bb.id):
                    if t.op != 'br' or not t.a:
                        continue
                    c, pred, ops = f.cond(t.a[0])
                    if c is None or c.op != 'icmp' or pred not in ('slt', 'sgt', 'sle', 'sge'):
                        continue
                    for o in ops:
                        y = f.v(f.strip_casts(o))
                        if y is None or y.op != 'load':
                            continue
                        q = f.path(y.a[0]); qf = f.fields_of(q)
                        if len(qf) >= 2 and qf[-2].endswith('.extents') and qf[-1].startswith('pixman_box') and f.root(q) == root:
                            G = qf[-1].split('.')[1]
                            if G == F:
                                own = True
                            else:
                                other = (G, c)
                if not own:
                    continue
                n += 1; ck.saw(f)
                where = '%s (%s): extents.%s at %s' % (f.name, _w(u), F, x.loc())
                if other:
                    ck.violation(R, f.name, 'running extreme extents.%s (%s)' % (F, _w(u)), '%s updates extents.%s (a running minimum / maximum: the store is guarded by a comparison with extents.%s) only on paths decided by a comparison with extents.%s at %s: a rectangle that moves both fields updates one of them only, so the extents no longer enclose the rectangles' % (f.name, F, F, other[0], other[1].loc()), x.loc())
                else:
                    ck.ok(R, where)
    if n == 0:
        raise AnalysisBroken('%s: no running minimum / maximum over an extents field found' % rid)


def r5_12_degenerate_rectangle_follows_the_operator(ck, P, rid='C05-R12'):
    """T-PATH (partial evaluation): an exported function that builds a rectangle from its arguments and combines it with a source region
    treats a rectangle without points as the empty set of *its* operator: source ∩ {} = {}, source ∪ {} = source.  Evaluated by following
    only the branches consistent with 'x1 >= x2' (then with 'y1 >= y2')."""
    R = ck.rule(rid, 'in every exported region function that compares x1 with x2 / y1 with y2 of a rectangle built from its arguments and hands that rectangle to the intersection or the union of the library, the paths on which the rectangle has no points end as the operator requires: an intersecting function never copies the source region into the result there (source ∩ {} is empty), a uniting function never reaches the union with the malformed rectangle (source ∪ {} is the source)', floor=8)
    n = 0
    for u in units(P):
        for fn, f in sorted(u.functions.items()):
            if not f.exported:
                continue
            ops = [c for c in f.calls() if c.callee and c.callee.endswith(('_intersect', '_union')) and any(a[0] == 'v' and f.root(f.path(a))[0] == 'alloca' for a in c.a)]
            if not ops:
                continue
            kind = 'intersect' if ops[0].callee.endswith('_intersect') else 'union'
            def fld(o):
                y = f.v(o)
                while y is not None and y.op in ('sext', 'zext', 'trunc'):
                    y = f.v(y.a[0])
                if y is not None and y.op == 'load':
                    st = [str(s) for s in f.path(y.a[0])[1]]
                    if st and f.root(f.path(y.a[0]))[0] == 'alloca':
                        return st[-1].split('.')[-1]
                return None
            tests = {}
            for x in f.insts():
                if x.op != 'icmp':
                    continue
                a, b = fld(x.a[0]), fld(x.a[1])
                if not a or not b or a[0] != b[0] or {a[1], b[1]} != {'1', '2'}:
                    continue
                p = x.d['p']
                if (a[1], b[1]) == ('2', '1'):
                    p = {'slt': 'sgt', 'sgt': 'slt', 'sle': 'sge', 'sge': 'sle'}.get(p, p)
                # p now reads  c1 <p> c2 ; value of the comparison when the rectangle has no points on this axis (c1 >= c2)
                val = {'slt': 0, 'sge': 1}.get(p)
                if val is not None:
                    tests.setdefault(a[0], {})[x.i] = val
            if set(tests) != {'x', 'y'}:
                continue
            copies = {c.bb.id: c for c in f.calls() if c.callee and c.callee.endswith('_copy') and sum(1 for a in c.a if a[0] == 'a') >= 2}
            opb = {c.bb.id: c for c in ops}
            for axis in ('x', 'y'):
                n += 1; ck.saw(f)
                known = lambda x, t=tests[axis]: t.get(x.i)
                hit = common.reach_under(f, known, set(copies) | set(opb))
                where = '%s (%s): rectangle without points in %s' % (fn, _w(u), axis)
                if kind == 'intersect' and hit & set(copies):
                    c = copies[sorted(hit & set(copies))[0]]
                    ck.violation(R, fn, 'empty rectangle in %s (%s)' % (axis, _w(u)), '%s intersects its source with a rectangle; on the path where %s1 >= %s2 (the rectangle has no points) it reaches %s (result, source) at %s: the intersection with the empty set is empty, not the source' % (fn, axis, axis, c.callee, c.loc()), c.loc())
                elif kind == 'union' and hit & set(opb):
                    c = opb[sorted(hit & set(opb))[0]]
                    ck.violation(R, fn, 'empty rectangle in %s (%s)' % (axis, _w(u)), '%s unites its source with a rectangle; on the path where %s1 >= %s2 (the rectangle has no points) it still reaches %s with that rectangle at %s: the operand is a malformed one-rectangle region, the result is not the source' % (fn, axis, axis, c.callee, c.loc()), c.loc())
                elif kind == 'union' and not (hit & set(copies)):
                    ck.violation(R, fn, 'empty rectangle in %s (%s)' % (axis, _w(u)), '%s unites its source with a rectangle; on the path where %s1 >= %s2 it never copies the source into the result: the union with the empty set is the source' % (fn, axis, axis), ops[0].loc())
                else:
                    ck.ok(R, where, kind)
    if n == 0:
        raise AnalysisBroken('%s: no exported function that tests and combines a rectangle built from its arguments found' % rid)


def r5_13_box_difference_keeps_its_width(ck, P, rid='C05-R13'):
    """T-WID: x2 - x1 of an N-bit box needs N+1 bits.  Wherever the library subtracts two coordinates of the same axis of a box, the
    difference is used in the wider type it was computed in - it is not truncated back to N bits (int16_t w = box.x2 - box.x1)."""
    R = ck.rule(rid, 'no difference of two coordinates of the same axis loaded from pixman_box16 / pixman_box32 fields is truncated to the width of the coordinates (16 / 32 bits) before it is used as a size: the width of a valid box can exceed the positive range of its coordinate type (x1 = -20000, x2 = 20000), and the wrapped size turns a valid rectangle into an invalid or empty one', floor=18)
    n = 0
    def coord(f, o):
        y = f.v(o)
        while y is not None and y.op in ('sext', 'zext'):
            y = f.v(y.a[0])
        if y is not None and y.op == 'load':
            lf = f.last_field(f.path(y.a[0])) or ''
            m = re.match(r'pixman_box(16|32)\.([xy])([12])$', lf)
            if m:
                return int(m.group(1)), m.group(2)
        return None
    for f in P.functions():
        for x in f.insts():
            if x.op != 'sub':
                continue
            a, b = coord(f, x.a[0]), coord(f, x.a[1])
            if not a or not b or a != b:
                continue
            n += 1; ck.saw(f)
            bits = a[0]
            bad = None
            for z in f.users(x):
                if z.op == 'trunc' and (deadcmp_width(z.ty) or 99) <= bits:
                    # a wrapped difference stored back into a coordinate field is a translation idiom, not a size
                    if all(q.op == 'store' and re.match(r'pixman_box', f.last_field(f.path(q.a[1])) or '') for q in f.users(z)):
                        continue
                    bad = z
            where = '%s: %s2 - %s1 at %s' % (f.name, a[1], a[1], x.loc())
            if bad is not None:
                ck.violation(R, f.name, 'box difference at %s' % x.loc(), '%s computes the difference of two %d-bit box coordinates at %s and truncates it to %s: a box wider than %d wraps to a negative size, so a valid rectangle is rebuilt as an invalid (empty) one' % (f.name, bits, x.loc(), bad.ty, (1 << (bits - 1)) - 1), bad.loc())
            else:
                ck.ok(R, where)
    if n == 0:
        raise AnalysisBroken('%s: no difference of box coordinates found' % rid)


def deadcmp_width(t):
    return int(t[1:]) if t and t.startswith('i') and t[1:].isdigit() else None


def r6_12_clamped_boxes_revalidated(ck, P, rid='C06-R12'):
    """T-ORD (must-pass-through): a rectangle of the list that has been clamped to a coordinate limit may have become identical in x to the
    band above or below it; canonical form is restored only by the validation pass, so every path from such a clamp to the return of the
    function goes through it."""
    R = ck.rule(rid, 'in the translate functions, every path from a store that clamps a coordinate of a rectangle of the list (not the extents) to the region minimum / maximum to the return of the function passes through a call of validate: clamping can make stacked bands identical in x, and only the validation pass coalesces them, which equal() and the canonical form rely on', floor=8)
    n = 0
    for u in units(P):
        w = _w(u)
        limv = {-(1 << 31), (1 << 31) - 1} if w == '32' else {-(1 << 15), (1 << 15) - 1}
        for f in u.functions.values():
            if not f.name.endswith('_translate'):
                continue
            for x in f.insts():
                if x.op != 'store' or x.a[0][0] != 'c' or int(x.a[0][1]) not in limv:
                    continue
                fl = f.fields_of(f.path(x.a[1]))
                if not fl or not fl[-1].startswith('pixman_box') or any(q.endswith('.extents') for q in fl):
                    continue
                n += 1; ck.saw(f)
                def exempt_edge(b, s_):
                    """leaving towards the return because at most one rectangle is left (nothing to coalesce)"""
                    t = f.blocks[b].term
                    if t.op != 'br' or not t.a:
                        return False
                    c, p, ops = f.cond(t.a[0])
                    if c is None:
                        return False
                    zs = [f.v(f.strip_casts(o)) for o in ops]
                    lfs = [f.last_field(f.path(z.a[0])) if z is not None and z.op == 'load' else None for z in zs]
                    taken = t.d['succ'][0] == s_
                    if any(l and l.endswith('.numRects') for l in lfs) and c.op == 'icmp':
                        k = [int(o[1]) for o in ops if o[0] == 'c']
                        if k and p in ('sgt', 'sge', 'slt', 'sle', 'ugt', 'uge', 'ult', 'ule'):
                            more = {'sgt': k[0] >= 1, 'ugt': k[0] >= 1, 'sge': k[0] >= 2, 'uge': k[0] >= 2}.get(p)
                            if more and not taken:
                                return True            # not (numRects > 1)
                            less = {'slt': k[0] <= 2, 'ult': k[0] <= 2, 'sle': k[0] <= 1, 'ule': k[0] <= 1}.get(p)
                            if less and taken:
                                return True
                    if any(l and l.endswith('.data') for l in lfs) and any(o[0] == 'n' or (o[0] == 'c' and int(o[1]) == 0) for o in ops):
                        if (p in ('eq', 'not')) == taken:
                            return True                # data == NULL: a single rectangle
                    return False
                hit = None
                seen = set(); work = []
                idx = x.bb.insts.index(x)
                if not any(y.op == 'call' and y.callee == 'validate' for y in x.bb.insts[idx + 1:]):
                    work = [(x.bb.id, s_) for s_ in x.bb.succ]
                    if x.bb.term.op == 'ret':
                        hit = x.bb.term
                while work and hit is None:
                    b, nb = work.pop()
                    if (b, nb) in seen or exempt_edge(b, nb):
                        continue
                    seen.add((b, nb))
                    blk = f.blocks[nb]
                    if any(y.op == 'call' and y.callee == 'validate' for y in blk.insts):
                        continue
                    if blk.term.op == 'ret':
                        hit = blk.term; break
                    work.extend((nb, s_) for s_ in blk.succ)
                where = '%s (%s): clamp of %s at %s' % (f.name, w, fl[-1], x.loc())
                if hit is None:
                    ck.ok(R, where, 'validate on every path to the return')
                else:
                    ck.violation(R, f.name, 'clamped rectangle not re-validated (%s)' % w, '%s clamps %s of a rectangle of the list to the coordinate limit at %s and can return without running the list through validate: two stacked bands that have become identical in x stay two rectangles, so the region is not canonical and not equal() to the same set of points built otherwise' % (f.name, fl[-1].split('.')[-1], x.loc()), x.loc())
    if n == 0:
        raise AnalysisBroken('%s: no clamp of a list rectangle to the coordinate limits found in translate' % rid)


def r7_17_translation_amount_unchanged(ck, P, rid='C07-R17'):
    """T-ARG: translate adds the caller's x to every x coordinate and the caller's y to every y coordinate - the parameters themselves, not a
    clamped or otherwise rewritten copy (a shift clamped to the coordinate range is a different shift for every |dx| > 32767 that still
    leaves part of a 16-bit region in range), and not the amount of the other axis."""
    R = ck.rule(rid, 'in the translate functions every sum of a box coordinate (x1, x2 / y1, y2 loaded from a rectangle or the extents) with a translation amount adds the function\'s own x parameter to x coordinates and its y parameter to y coordinates, unchanged (only widened): a clamped copy of the amount moves the region by less than requested, the other axis\' amount moves it sideways', floor=20)
    n = 0
    for u in units(P):
        for f in u.functions.values():
            if not f.name.endswith('_translate'):
                continue
            pn = {i: nm for i, (nm, ty) in enumerate(f.params)}
            for x in f.insts():
                if x.op != 'add':
                    continue
                sides = []
                for o in x.a:
                    y = f.v(f.strip_casts(o))
                    if y is not None and y.op == 'load':
                        lf = f.last_field(f.path(y.a[0])) or ''
                        m = re.match(r'pixman_box(16|32)\.([xy])[12]$', lf)
                        sides.append(('coord', m.group(2)) if m else ('other', None))
                    else:
                        sides.append(('val', o))
                if [s_[0] for s_ in sides].count('coord') != 1:
                    continue
                axis = [s_[1] for s_ in sides if s_[0] == 'coord'][0]
                other = [s_[1] for s_ in sides if s_[0] == 'val']
                if not other:
                    continue
                n += 1; ck.saw(f)
                o = f.strip_casts(other[0])
                where = '%s (%s): %s coordinate + amount at %s' % (f.name, _w(u), axis, x.loc())
                if o[0] == 'a' and pn.get(o[1]) == axis:
                    ck.ok(R, where)
                elif o[0] == 'a':
                    ck.violation(R, f.name, 'amount of the other axis (%s)' % _w(u), '%s adds its parameter %s to an %s coordinate at %s' % (f.name, pn.get(o[1]), axis, x.loc()), x.loc())
                else:
                    y = f.v(o)
                    ck.violation(R, f.name, 'translation amount rewritten (%s)' % _w(u), '%s adds to an %s coordinate at %s a value (%s) that is not its %s parameter itself: the amount has been clamped or recomputed on the way, so the region is moved by something else than the caller asked for (for a 16-bit region a shift of 40000 clamped to 32767 leaves rectangles 7233 columns short of where they belong)' % (f.name, axis, x.loc(), y.op if y is not None else 'constant', axis), x.loc())
    if n == 0:
        raise AnalysisBroken('%s: no sum of a box coordinate and a translation amount found' % rid)


def r7_19_bitmap_read_only_with_pixels(ck, P, rid='C07-R19'):
    """T-GRD: the bitmap import looks at the first word of each row before its column loop; that word exists only if the image has at
    least one column (and the row exists only if it has rows).  Every read of the bitmap is therefore guarded by width > 0."""
    R = ck.rule(rid, 'in the bitmap import of both region widths, every load from the image\'s pixel data (a pointer derived from pixman_image_get_data) is reached only under a comparison that establishes width > 0 (the value of pixman_image_get_width compared with a constant, taken on the side where it is positive): a 0x3 a1 image has stride 0 and no storage, and the unconditional read of each row\'s first word faults', floor=4)
    n = 0
    for u in units(P):
        for fn, f in sorted(u.functions.items()):
            data = list(f.calls('pixman_image_get_data'))
            wid = list(f.calls('pixman_image_get_width'))
            if not data or not wid:
                continue
            W = wid[0]
            for x in f.insts():
                if x.op != 'load':
                    continue
                roots = common.roots(f, x.a[0])
                if not any(r[0] == 'call' and r[1] == 'pixman_image_get_data' for r in roots):
                    continue
                n += 1; ck.saw(f)
                ok = False
                for t, s in f.guard_edges(x.bb.id):
                    if t.op != 'br' or not t.a:
                        continue
                    c, p, ops = f.cond(t.a[0])
                    if c is None or c.op != 'icmp' or len(ops) != 2:
                        continue
                    eff = p if t.d['succ'][0] == s else f.INV.get(p, p)
                    a0, a1 = ops
                    if a0[0] == 'c':
                        a0, a1 = a1, a0; eff = {'slt': 'sgt', 'sgt': 'slt', 'sle': 'sge', 'sge': 'sle'}.get(eff, eff)
                    if list(f.strip_casts(a0)) == ['v', W.i] and a1[0] == 'c':
                        k = int(a1[1])
                        if (eff == 'sgt' and k >= 0) or (eff == 'sge' and k >= 1) or (eff == 'ne' and k == 0):
                            ok = True          # an image's width is never negative: != 0 excludes the one value that has no first word
                where = '%s (%s): bitmap read at %s' % (fn, u.name, x.loc())
                if ok:
                    ck.ok(R, where, 'under width > 0')
                else:
                    ck.violation(R, fn, 'bitmap read without width > 0 (%s)' % _w(u), '%s reads the bitmap at %s on a path where the image width has not been found positive: for an image without pixels (width 0: stride 0, no storage at all) the first word of a row does not exist' % (fn, x.loc()), x.loc())
    if n == 0:
        raise AnalysisBroken('%s: no read of bitmap data found in the region units' % rid)


def r6_14_no_coalesce_after_bulk_append(ck, P, rid='C06-R14'):
    """T-ORD: the band merger coalesces a band with the previous one by comparing their sizes, 'the rectangles from cur_band to the end of
    the list'.  Once the remaining rectangles of an operand have been appended wholesale (a memmove into the top of the list), that count
    spans many bands: a coalesce attempted afterwards never matches, and two vertically adjacent bands with identical spans stay apart -
    the same points, not the canonical list."""
    R = ck.rule(rid, 'in the band-merging worker of the region operators (both widths) no path leads from the bulk append of an operand\'s remaining rectangles (the memmove into the top of the result) to a call of the coalescing helper: the first left-over band is coalesced before the rest is appended, in the tail of the first and of the second operand alike', floor=4)
    n = 0
    for u in units(P):
        for fn, f in sorted(u.functions.items()):
            co = [c for c in f.calls() if isinstance(c.callee, str) and c.callee == 'pixman_coalesce']
            mv = [c for c in f.calls() if isinstance(c.callee, str) and c.callee.startswith(('memmove', 'memcpy', 'llvm.memmove', 'llvm.memcpy'))]
            if not co or not mv or not any(isinstance(c.callee, str) and c.callee == 'pixman_region_append_non_o' for c in f.calls()):
                continue
            for m in mv:
                n += 1; ck.saw(f)
                hit = f.reach_avoiding(m, lambda q: False, lambda q: q.op == 'call' and q.callee == 'pixman_coalesce')
                where = '%s (%s): bulk append at %s' % (fn, u.name, m.loc())
                if hit is None:
                    ck.ok(R, where, 'nothing is coalesced afterwards')
                else:
                    ck.violation(R, fn, 'coalesce after the bulk append (%s)' % _w(u), '%s can reach the coalescing of a band (%s) after it has appended the remaining rectangles of an operand wholesale (%s): the size test of the coalescing helper compares the previous band with everything appended since, never matches, and a band that has the same spans as the one above it and touches it is left as a separate band - a region that is not in canonical form' % (fn, hit.loc(), m.loc()), m.loc())
    if n == 0:
        raise AnalysisBroken('%s: no bulk append next to a coalescing call found in the region units' % rid)


def r7_20_partial_word_read_needs_partial_word(ck, P, rid='C04-R20'):
    """T-GRD: a row of a 1-bpp image has ceil (width / 32) words.  The bitmap import reads the full words in a loop bounded by width >> 5;
    the one further read, of the trailing partial word, exists only when width is not a multiple of 32."""
    R = ck.rule(rid, 'in the bitmap import of both region widths, at least one read of the bitmap is guarded by the test (width & 31) != 0, and every read of the bitmap that is not inside the full-word loop and not the row\'s first word is: with the guard gone the word behind every row of an image whose width is a multiple of 32 is read - 4 bytes past the end of the bitmap for the last row', floor=2)
    n = 0
    for u in units(P):
        for fn, f in sorted(u.functions.items()):
            if not list(f.calls('pixman_image_get_data')) or not list(f.calls('pixman_image_get_width')):
                continue
            W = list(f.calls('pixman_image_get_width'))[0]
            loads = [x for x in f.insts() if x.op == 'load' and any(r[0] == 'call' and r[1] == 'pixman_image_get_data' for r in common.roots(f, x.a[0]))]
            if not loads:
                continue
            n += 1; ck.saw(f)
            def partial_guard(x):
                for t, s in f.guard_edges(x.bb.id):
                    if t.op != 'br' or not t.a:
                        continue
                    c, p, ops = f.cond(t.a[0])
                    if c is None:
                        continue
                    for o in (ops or []):
                        y = f.v(f.strip_casts(o)) if o[0] == 'v' else None
                        if y is not None and y.op == 'and' and any(a[0] == 'c' and int(a[1]) == 31 for a in y.a) and any(list(f.strip_casts(a)) == ['v', W.i] for a in y.a):
                            taken_true = t.d['succ'][0] == s
                            if (p in ('ne', 'is') and taken_true) or (p in ('eq', 'not') and not taken_true):
                                return True
                return False
            guarded = [x for x in loads if partial_guard(x)]
            where = '%s (%s): trailing partial word' % (fn, u.name)
            if guarded:
                ck.ok(R, where, 'read under (width & 31) != 0')
            else:
                ck.violation(R, fn, 'partial-word read without its guard (%s)' % _w(u), '%s reads the bitmap at %d places, none of them under the test (width & 31) != 0: the read that follows the full-word loop of each row is made also when the row has no partial word, i.e. one word past the row - past the bitmap for the last row' % (fn, len(loads)), loads[-1].loc())
    if n == 0:
        raise AnalysisBroken('%s: no bitmap import found in the region units' % rid)


def r7_21_box_coordinates_computed_per_box(ck, P, rid='C07-R21'):
    """T-DEP (memoryless loop): translate rewrites the rectangle list in place, reading box i and writing box i' <= i.  A coordinate written
    for a box is computed from that box's own fields in the same iteration; a value carried over from the previous iteration (the
    vertical part 'of the same band') was computed from a neighbour whose stored fields may already have been translated."""
    R = ck.rule(rid, 'in the translate functions of both region widths no value stored into a rectangle coordinate is loop-carried: following the stored value back through merges never returns to a merge it has already passed (a phi of the box loop); each box gets the sum of its own field and the amount', floor=8)
    n = 0
    for u in units(P):
        for fn, f in sorted(u.functions.items()):
            if not fn.endswith('_translate'):
                continue
            for x in f.insts():
                if x.op != 'store':
                    continue
                lf = f.last_field(f.path(x.a[1])) or ''
                if not lf.startswith(('pixman_box16.', 'pixman_box32.')) or x.a[0][0] != 'v':
                    continue
                n += 1; ck.saw(f)
                # search for a phi cycle in the value's slice (through casts and phis only)
                carried = None
                work = [(x.a[0], ())]
                guard = 0
                while work and carried is None and guard < 400:
                    guard += 1
                    o, trail = work.pop()
                    y = f.v(f.strip_casts(o)) if o[0] == 'v' else None
                    if y is None or y.op != 'phi':
                        continue
                    if y.i in trail:
                        carried = y; break
                    for a in y.a:
                        if a[0] == 'v':
                            work.append((a, trail + (y.i,)))
                where = '%s (%s): %s stored at %s' % (fn, u.name, lf, x.loc())
                if carried is None:
                    ck.ok(R, where, 'computed for this box')
                else:
                    ck.violation(R, fn, 'loop-carried coordinate (%s)' % _w(u), '%s stores into %s (%s) a value that is carried round the box loop (merge at %s) instead of being computed from the box at hand: the list is rewritten in place, so "same band as the previous box" is judged on fields that may already hold translated values, and a band whose original y1 equals the previous band\'s translated y1 gets the previous band\'s rows' % (fn, lf, x.loc(), carried.loc()), x.loc())
    if n == 0:
        raise AnalysisBroken('%s: no coordinate store found in the translate functions' % rid)


def r5_14_extents_cover_only_for_single_rectangles(ck, P, rid='C05-R14'):
    """Belief rule made explicit: 'A's extents contain B's extents' says that A covers B only when A *is* its extents, a single rectangle
    (A->data == NULL).  The shortcuts of union and intersect test exactly that region for being a single rectangle; a shortcut that tests
    the contained one instead (or none) takes the bounding box of a region with holes for the region."""
    R = ck.rule(rid, 'wherever a region function acts under the four comparisons "the extents of region A contain the extents of region B" (both extents fields of two different region parameters), the same path has found A->data == NULL: subtracting a frame-shaped S from a rectangle M that lies inside S\'s bounding box is not empty although S\'s extents subsume M', floor=4)
    n = 0
    for u in units(P):
        reg = _reg(u)
        for fn, f in sorted(u.functions.items()):
            done = set()
            # facts are collected per branch edge (what guards the branching block, plus the edge itself): a shortcut written as
            # `a == b || (single && subsumes)` joins its two reasons in the acting block, which neither of them dominates
            edge_sets = []
            for b0 in f.blocks:
                t0 = b0.term
                if t0.op == 'br' and t0.a and len(set(t0.d['succ'])) == 2:
                    for s0 in set(t0.d['succ']):
                        edge_sets.append((b0, set(f.guard_edges(b0.id)) | {(t0, s0)}))
            for b, ge in edge_sets:
                cont = {}
                for t, s in ge:
                    if t.op != 'br' or not t.a:
                        continue
                    c, p, ops = f.cond(t.a[0])
                    if c is None or c.op != 'icmp' or len(ops) != 2 or p not in ('sle', 'sge', 'slt', 'sgt'):
                        continue
                    eff = p if t.d['succ'][0] == s else f.INV.get(p, p)
                    ys = [f.v(f.strip_casts(o)) if o[0] == 'v' else None for o in ops]
                    if any(y is None or y.op != 'load' for y in ys):
                        continue
                    pas = [f.path(y.a[0]) for y in ys]
                    fl = [f.last_field(pa) or '' for pa in pas]
                    if not all(x_.startswith(('pixman_box16.', 'pixman_box32.')) for x_ in fl) or fl[0].split('.')[1] != fl[1].split('.')[1]:
                        continue
                    if not all((reg + '.extents') in pa[1] for pa in pas):
                        continue
                    r0, r1 = f.root(pas[0]), f.root(pas[1])
                    if r0 == r1 or r0[0] != 'arg' or r1[0] != 'arg':
                        continue
                    k = fl[0].split('.')[1]
                    # ops[0] (eff) ops[1]
                    if k in ('x1', 'y1'):
                        A = r0 if eff in ('sle', 'slt') else r1
                    else:
                        A = r0 if eff in ('sge', 'sgt') else r1
                    Bk = r1 if A == r0 else r0
                    cont.setdefault((A, Bk), set()).add(k)
                for (A, Bk), ks in cont.items():
                    if ks != {'x1', 'y1', 'x2', 'y2'} or (fn, A, Bk) in done:
                        continue
                    done.add((fn, A, Bk))
                    n += 1; ck.saw(f)
                    single = False
                    for t, s in ge:
                        if t.op != 'br' or not t.a:
                            continue
                        c, p, ops = f.cond(t.a[0])
                        if c is None or c.op != 'icmp' or p not in ('eq', 'ne') or not any(o[0] == 'n' for o in (ops or [])):
                            continue
                        if (p == 'eq') != (t.d['succ'][0] == s):
                            continue
                        for o in ops:
                            y = f.v(f.strip_casts(o)) if o[0] == 'v' else None
                            if y is not None and y.op == 'load' and f.last_field(f.path(y.a[0])) == reg + '.data' and f.root(f.path(y.a[0])) == A:
                                single = True
                    where = '%s (%s): extents of %s contain extents of %s' % (fn, u.name, f.params[A[1]][0], f.params[Bk[1]][0])
                    if single:
                        ck.ok(R, where, 'and %s is a single rectangle' % f.params[A[1]][0])
                    else:
                        ck.violation(R, fn, 'extents containment taken for coverage (%s)' % _w(u), '%s acts on "the extents of %s contain the extents of %s" (block at %s) without having established that %s is a single rectangle (%s->data == NULL): a region with several rectangles does not cover its bounding box, so what lies in the gaps is lost' % (fn, f.params[A[1]][0], f.params[Bk[1]][0], b.term.loc(), f.params[A[1]][0], f.params[A[1]][0]), b.term.loc())
    if n == 0:
        raise AnalysisBroken('%s: no extents-containment shortcut found in the region units' % rid)


def r5_15_extents_never_assigned_without_data(ck, P, rid='C05-R15'):
    """Representation invariant: a region is (extents, data) - data == NULL says 'exactly the extents', anything else is the rectangle list.
    Code outside the region implementation that assigns a region's extents fields directly has to settle its data as well (store it, or
    hand the region to a region function) before it returns; otherwise the new extents come with whatever list the object held before."""
    R = ck.rule(rid, 'outside pixman-region16.c / pixman-region32.c, every path from a direct store into the extents of a region reached through a pointer parameter to a return passes a store into the same region\'s data field or a call that receives that region: the 32-to-16-bit conversion that writes the extents of a single-rectangle result and returns leaves the rectangle list of the previous request in place - three rectangles reported where there is one, lying outside the clip', floor=4)
    n = 0; seen_any = False
    for f in P.functions():
        if f.unit.name in ('pixman-region16.c', 'pixman-region32.c'):
            continue
        for x in f.insts():
            if x.op != 'store':
                continue
            pa = f.path(x.a[1])
            if f.root(pa)[0] != 'arg' or not any(isinstance(st, str) and st.endswith('.extents') for st in pa[1]):
                continue
            seen_any = True
            root = f.root(pa)
            n += 1; ck.saw(f)
            def settles(q):
                if q.op == 'store':
                    qa = f.path(q.a[1])
                    return f.root(qa) == root and (f.last_field(qa) or '').endswith('.data')
                if q.op == 'call':
                    return any(a and a[0] in ('v', 'a') and root in common.roots(f, a) for a in q.a)
                return False
            hit = f.reach_avoiding(x, settles, lambda q: q.op == 'ret')
            if hit is not None and any(q.op == 'store' and settles(q) and f.dominates(q, x) for q in f.insts()):
                hit = None          # the function has already given the region its data on every path to this store
            where = '%s: extents of %s assigned at %s' % (f.name, f.params[root[1]][0], x.loc())
            if hit is None:
                ck.ok(R, where, 'data settled before the return')
            else:
                ck.violation(R, f.name, 'extents assigned, data left as it was', '%s stores into the extents of the region %s (%s) and can return without storing its data field or handing it to a region function: the object keeps the rectangle list (and the allocation) it had before, so its rectangles no longer have anything to do with its extents' % (f.name, f.params[root[1]][0], x.loc()), x.loc())
    # zero instances on the unchanged tree is the expected state (no such direct assignment exists); the positive example is the
    # seeded change seeded/C03-27, which the thorough tier applies on every run
    R_ = ck.rules[rid]
    if n == 0:
        ck.ok(R, 'no direct assignment of region extents outside the region implementation')


def r7_22_bitmap_read_word_by_word(ck, P, rid='C07-R22'):
    """Who-may-read: the bitmap import decides every bit of the image; it reads the image through its own word loads (READ), which see
    every bit of every word up to the width.  A library routine that is handed the bitmap (memcmp of two rows 'to skip a repeated
    scanline') compares whole bytes: the last width & 7 pixels of a row are not looked at, and rows that differ only there are taken for
    equal."""
    R = ck.rule(rid, 'in the bitmap import of both region widths no call receives a pointer derived from the image\'s pixel data (pixman_image_get_data): every bit of the bitmap reaches the region through the function\'s own loads', floor=2)
    n = 0
    for u in units(P):
        for fn, f in sorted(u.functions.items()):
            if not list(f.calls('pixman_image_get_data')):
                continue
            n += 1; ck.saw(f)
            bad = None
            for c in f.calls():
                if isinstance(c.callee, str) and c.callee in ('pixman_image_get_data',):
                    continue
                for a in c.a:
                    if a and a[0] == 'v' and any(r[0] == 'call' and r[1] == 'pixman_image_get_data' for r in common.roots(f, a)):
                        bad = c
            where = '%s (%s)' % (fn, u.name)
            if bad is None:
                ck.ok(R, where, 'reads the bitmap itself')
            else:
                ck.violation(R, fn, 'bitmap handed to a library routine (%s)' % _w(u), '%s passes a pointer into the bitmap to %s (%s): whatever that routine concludes about the rows is concluded from whole bytes (or words), not from the width pixels the image has, and the region no longer holds exactly the set bits' % (fn, bad.callee, bad.loc()), bad.loc())
    if n == 0:
        raise AnalysisBroken('%s: no bitmap import found' % rid)


def r6_17_extents_recomputed_after_subtraction(ck, P, rid='C06-R17'):
    """Must-pass-through: subtraction can remove the rectangles that defined any side of the bounding box - also the top or bottom band of
    a multi-band minuend while the subtrahend stays inside it horizontally.  After the band merger has run, the extents are recomputed
    on every path to a successful return."""
    R = ck.rule(rid, 'in the subtract and inverse operators of both region widths every path from the call of the band merger to a return passes the call that recomputes the extents (or marks the region broken): keeping the minuend\'s extents because "the subtrahend reaches neither side" is wrong for a minuend whose first or last band is narrower than its bounding box', floor=2)
    n = 0
    for u in units(P):
        for fn, f in sorted(u.functions.items()):
            if not fn.endswith(('_subtract', '_inverse')):
                continue
            ops = [c for c in f.calls() if isinstance(c.callee, str) and c.callee == 'pixman_op']
            for c in ops:
                n += 1; ck.saw(f)
                hit = f.reach_avoiding(c, lambda q: q.op == 'call' and isinstance(q.callee, str) and q.callee in ('pixman_set_extents', 'pixman_break'), lambda q: q.op == 'ret')
                # the failure return right after the merger (it returned FALSE) needs no extents
                ok = hit is None
                if not ok:
                    # accept when the only bypass is the edge taken on a FALSE result of the merger
                    br = [u_ for u_ in f.users(c) if u_.op in ('icmp', 'br')]
                    fail_blocks = set()
                    for t, s_ in [(b.term, s) for b in f.blocks for s in set(b.succ) if b.term.op == 'br' and b.term.a]:
                        cc, p, ops_ = f.cond(t.a[0])
                        if cc is c or (cc is not None and any(list(o) == ['v', c.i] for o in (ops_ or []))):
                            truth = t.d['succ'][0] == s_
                            zero = (p in ('not', 'eq') and truth) or (p in ('is', 'ne') and not truth)
                            if zero:
                                fail_blocks.add(s_)
                    seen = set(); work = list(f.blocks[c.bb.id].succ) if c is f.blocks[c.bb.id].insts[-2] else [c.bb.id]
                    hit2 = f.reach_avoiding(c, lambda q: (q.op == 'call' and isinstance(q.callee, str) and q.callee in ('pixman_set_extents', 'pixman_break')) or q.bb.id in fail_blocks, lambda q: q.op == 'ret')
                    ok = hit2 is None
                where = '%s (%s): after the band merger at %s' % (fn, u.name, c.loc())
                if ok:
                    ck.ok(R, where, 'extents recomputed')
                else:
                    ck.violation(R, fn, 'extents kept after a subtraction (%s)' % _w(u), '%s can return successfully after the band merger (%s) without recomputing the extents: what was subtracted may have removed the band that defined the top or the bottom of the bounding box, so the extents are no longer tight, and when one rectangle remains the stale extents become the rectangle' % (fn, c.loc()), c.loc())
    if n == 0:
        raise AnalysisBroken('%s: no subtract / inverse calling the band merger found' % rid)
