"""Operator-factor analysis of the SIMD and C combiners (C02-R9, C01-R4): symbolic execution of each combiner over a small
algebra (pixel := polynomial in S, D, M and their alphas) using the repository's own helper vocabulary, compared with the
Porter-Duff factor table of the operator slot the combiner is registered under.  Rounding and saturation are not modelled."""
import sympy
from collections import defaultdict
from ..build import AnalysisBroken
from . import common, algebra

S, SA, D, DA, M, MA = sympy.symbols('S SA D DA M MA')
ACH = sympy.Symbol('ACH')        # channel indicator: 1 in the alpha channel, 0 in a colour channel (only produced by forcing a pixel opaque)
ALPHA = {S: SA, D: DA, M: MA, ACH: 1}


def force_opaque(v):
    """the pixel v with its alpha channel replaced by 1 (x888 | 0xff000000)"""
    return sympy.expand(v * (1 - ACH) + ACH)


class Unknown(Exception):
    pass


class Fork(Unknown):
    """a helper call with several outcomes that differ in memory: the caller's path is split, one continuation per outcome"""
    def __init__(self, alts):
        Unknown.__init__(self, 'helper with several outcomes'); self.alts = alts


def alpha(e):
    """alpha channel of a pixel expression: the same expression over the alphas"""
    if e is None:
        raise Unknown('alpha of unknown')
    return sympy.expand(e.subs(ALPHA, simultaneous=True))


class Ptr:
    def __init__(self, role):
        self.role = role      # 'd', 's', 'm', None (null), or ('local', id)

    def __repr__(self):
        return 'Ptr(%s)' % (self.role,)


ROLE_SYM = {'s': S, 'd': D, 'm': M}
AMASK = ('amask',)      # a constant whose only set bits are the full alpha channel: or-ing it in forces the pixel opaque


def _classify_const(bits, width):
    """meaning of a replicated constant of `width` bits in the 8-bit-per-channel fixed-point vocabulary"""
    bits &= (1 << width) - 1
    if bits == 0:
        return sympy.Integer(0)
    lanes16 = [(bits >> k) & 0xffff for k in range(0, width, 16)]
    if all(l == 0x00ff for l in lanes16):
        return sympy.Integer(1)
    lanes32 = [(bits >> k) & 0xffffffff for k in range(0, width, 32)]
    if all(l == 0xff000000 for l in lanes32):
        return AMASK
    if width >= 64 and all(((bits >> k) & 0xffffffffffffffff) == 0x00ff000000000000 for k in range(0, width, 64)):
        return AMASK
    return None


_GC = {}


def unit_consts(P, u):
    """constants the unit keeps in globals, resolved from their initialisers (MMX: const struct c) or from the only stores to them (SSE2: create_mask_* in the constructor)"""
    if u.name in _GC:
        return _GC[u.name]
    out = {}
    for name, g in u.globals.items():
        init = g.get('init')
        if g.get('const') and isinstance(init, list) and g.get('type', '').startswith('%struct.'):
            st = u.structs.get(g['type'][len('%struct.'):])
            offs = [fl[1] for fl in st['fields']] if st and len(st['fields']) == len(init) else None
            for i, v in enumerate(init):
                try:
                    # keyed by byte offset: that is what a field step of an access path carries
                    out[(name, offs[i] if offs else i * 8)] = _classify_const(int(v), 64)
                except (TypeError, ValueError):
                    pass
    stores = defaultdict(list)
    for f in u.functions.values():
        for b in f.blocks:
            for x in b.insts:
                if x.op == 'store' and x.a[1][0] == 'g':
                    stores[x.a[1][1]].append((f, x))
    for name, sts in stores.items():
        vals = set()
        for f, x in sts:
            v = None
            if x.a[0][0] == 'v':
                c = f.by_id[x.a[0][1]]
                if c.op == 'call' and c.callee == 'create_mask_16_128' and c.a[0][0] == 'c':
                    k = int(c.a[0][1]) & 0xffff
                    v = _classify_const(k | k << 16 | k << 32 | k << 48, 64)
                elif c.op == 'call' and c.callee == 'create_mask_2x32_128' and c.a[0][0] == 'c' and c.a[1][0] == 'c':
                    v = _classify_const((int(c.a[0][1]) & 0xffffffff) << 32 | (int(c.a[1][1]) & 0xffffffff), 64)
            vals.add(v)
        if len(vals) == 1 and None not in vals:
            out[(name, None)] = vals.pop()
    _GC[u.name] = out
    return out

# ---- helper vocabularies: name -> function(ex, call, args) -> returned symbolic value (writes go through ex.mem)
def _v(ex, a):
    return ex.val(a)


def _ld(ex, p):
    return ex.load_ptr(p)


def _st(ex, p, v):
    ex.store_ptr(p, v)


def _or(ex, c, a):
    x, y = ex.val(a[0]), ex.val(a[1])
    if y == AMASK:
        return ex.opaque(x)
    if x == AMASK:
        return ex.opaque(y)
    if _is_expr(x) and _is_expr(y) and sympy.expand(x - y) == 0:
        return x
    raise Unknown('bitwise or of two different values')


def _xor(ex, c, a):
    x, y = ex.val(a[0]), ex.val(a[1])
    if _is_expr(y) and y == 1 and _is_expr(x):
        return 1 - x
    if _is_expr(x) and x == 1 and _is_expr(y):
        return 1 - y
    raise Unknown('bitwise xor the rule does not interpret')


def _all_equal(vals):
    """several pixels packed into one vector: one value when they agree, otherwise every distinct value is a pixel that is written"""
    if not vals or not all(_is_expr(v) for v in vals):
        raise Unknown('pack of untracked values')
    distinct = []
    for v in vals:
        if not any(sympy.expand(v - w) == 0 for w in distinct):
            distinct.append(v)
    if len(distinct) == 1:
        return distinct[0]
    return ('cases', [({}, v, []) for v in distinct])


def _spread(k):
    """helper(value, &out0 .. &out{k-1} [, flag]) that unpacks one vector of pixels into k vectors"""
    def h(ex, c, a):
        v = ex.val(a[0])
        if len(a) > k + 1 and a[k + 1][0] == 'c' and int(a[k + 1][1]) != 0:
            v = ex.opaque(v)              # the trailing full_alpha flag of the 565 expanders
        for i in range(k):
            _st(ex, ex.val(a[1 + i]), v)
    return h


def _unpack_zero(ex, c, a):
    x, y = ex.val(a[0]), ex.val(a[1])
    if _is_expr(y) and y == 0:
        return x
    if _is_expr(x) and _is_expr(y) and sympy.expand(x - y) == 0:
        return x
    raise Unknown('interleave of two different values')


def voc_sse2():
    V = {}
    ident = lambda ex, c, a: ex.val(a[0])
    for n in ('unpack_32_1x128', 'pack_1x128_32', '_mm_cvtsi32_si128', '_mm_cvtsi128_si32', 'load_128_aligned', 'load_128_unaligned'):
        V[n] = ident
    V['load_128_aligned'] = V['load_128_unaligned'] = lambda ex, c, a: ex.load_ptr(ex.val(a[0]))
    V['save_128_aligned'] = V['save_128_unaligned'] = V['save_128_write_combining'] = lambda ex, c, a: ex.store_ptr(ex.val(a[0]), ex.val(a[1]))
    V['expand_alpha_1x128'] = lambda ex, c, a: alpha(ex.val(a[0]))
    V['negate_1x128'] = lambda ex, c, a: 1 - ex.val(a[0])
    V['pix_multiply_1x128'] = lambda ex, c, a: sympy.expand(ex.val(a[0]) * ex.val(a[1]))
    V['pix_add_multiply_1x128'] = lambda ex, c, a: sympy.expand(_ld(ex, ex.val(a[0])) * _ld(ex, ex.val(a[1])) + _ld(ex, ex.val(a[2])) * _ld(ex, ex.val(a[3])))
    V['over_1x128'] = lambda ex, c, a: sympy.expand(ex.val(a[0]) + ex.val(a[2]) * (1 - ex.val(a[1])))
    V['in_over_1x128'] = lambda ex, c, a: sympy.expand(_ld(ex, ex.val(a[0])) * _ld(ex, ex.val(a[2])) + _ld(ex, ex.val(a[3])) * (1 - _ld(ex, ex.val(a[1])) * _ld(ex, ex.val(a[2]))))
    V['_mm_adds_epu8'] = V['_mm_adds_epu16'] = lambda ex, c, a: sympy.expand(ex.val(a[0]) + ex.val(a[1]))
    V['_mm_setzero_si128'] = lambda ex, c, a: sympy.Integer(0)
    V['_mm_and_si128'] = lambda ex, c, a: ('band', ex.val(a[0]), ex.val(a[1]))
    V['_mm_or_si128'] = _or
    V['_mm_xor_si128'] = _xor
    V['create_mask_16_128'] = lambda ex, c, a: ex.val(a[0])
    V['load_32_1x128'] = lambda ex, c, a: ex.val(a[0])
    V['_mm_set_epi32'] = V['_mm_set_epi16'] = lambda ex, c, a: _all_equal([ex.val(o) for o in a])
    V['_mm_unpacklo_epi8'] = V['_mm_unpacklo_epi16'] = V['_mm_unpackhi_epi8'] = V['_mm_unpackhi_epi16'] = _unpack_zero
    V['unpack_565_128_4x128'] = _spread(4)
    V['pack_565_4x128_128'] = lambda ex, c, a: _all_equal([_ld(ex, ex.val(o)) for o in a[:4]])
    V['pack_565_2packedx128_128'] = V['pack_565_2x128_128'] = lambda ex, c, a: _all_equal([ex.val(o) for o in a[:2]])
    V['convert_8888_to_0565'] = V['convert_0565_to_0888'] = lambda ex, c, a: ex.val(a[0])
    V['convert_0565_to_8888'] = lambda ex, c, a: ex.opaque(ex.val(a[0]))

    def cmpeq(ex, c, a):
        x, y = ex.val(a[0]), ex.val(a[1])
        if _is_expr(y) and y == 0 and _is_expr(x):
            return ('pred', 'zero', x)
        if _is_expr(x) and x == 0 and _is_expr(y):
            return ('pred', 'zero', y)
        raise Unknown('vector comparison the rule does not interpret')
    V['_mm_cmpeq_epi32'] = V['_mm_cmpeq_epi8'] = V['_mm_cmpeq_epi16'] = cmpeq

    def movemask(ex, c, a):
        x = ex.val(a[0])
        if isinstance(x, tuple) and x[0] == 'pred':
            return ('predmask', x[1], x[2])
        raise Unknown('movemask of a value that is not a comparison')
    V['_mm_movemask_epi8'] = movemask
    for n in ('expand_pixel_32_1x128', 'expand565_16_1x128', 'pack_565_32_16', 'unpack_565_to_8888', 'expand_pixel_32_2x128', '_mm_set1_epi32', 'create_mask_2x32_128'):
        V[n] = lambda ex, c, a: ex.val(a[0])
    V['expand_pixel_8_1x128'] = lambda ex, c, a: ex.val(a[0])
    V['expand_alpha_rev_1x128'] = lambda ex, c, a: ex.val(a[0])    # broadcast of the low lane
    V['_mm_store_si128'] = V['_mm_storeu_si128'] = lambda ex, c, a: ex.store_ptr(ex.val(a[0]), ex.val(a[1]))
    V['_mm_load_si128'] = V['_mm_loadu_si128'] = lambda ex, c, a: ex.load_ptr(ex.val(a[0]))

    def earev2(ex, c, a):
        _st(ex, ex.val(a[2]), ex.val(a[0])); _st(ex, ex.val(a[3]), ex.val(a[1]))
    V['expand_alpha_rev_2x128'] = earev2

    def unpack2(ex, c, a):
        v = ex.val(a[0]); _st(ex, ex.val(a[1]), v); _st(ex, ex.val(a[2]), v)
    V['unpack_128_2x128'] = unpack2

    V['pack_2x128_128'] = lambda ex, c, a: _all_equal([ex.val(a[0]), ex.val(a[1])])

    def ea2(ex, c, a):
        _st(ex, ex.val(a[2]), alpha(ex.val(a[0]))); _st(ex, ex.val(a[3]), alpha(ex.val(a[1])))
    V['expand_alpha_2x128'] = ea2

    def neg2(ex, c, a):
        _st(ex, ex.val(a[2]), 1 - ex.val(a[0])); _st(ex, ex.val(a[3]), 1 - ex.val(a[1]))
    V['negate_2x128'] = neg2

    def mul2(ex, c, a):
        for i in (0, 1):
            _st(ex, ex.val(a[4 + i]), sympy.expand(_ld(ex, ex.val(a[i])) * _ld(ex, ex.val(a[2 + i]))))
    V['pix_multiply_2x128'] = mul2

    def addmul2(ex, c, a):
        for i in (0, 1):
            _st(ex, ex.val(a[8 + i]), sympy.expand(_ld(ex, ex.val(a[i])) * _ld(ex, ex.val(a[2 + i])) + _ld(ex, ex.val(a[4 + i])) * _ld(ex, ex.val(a[6 + i]))))
    V['pix_add_multiply_2x128'] = addmul2

    def over2(ex, c, a):
        for i in (0, 1):
            _st(ex, ex.val(a[4 + i]), sympy.expand(_ld(ex, ex.val(a[i])) + _ld(ex, ex.val(a[4 + i])) * (1 - _ld(ex, ex.val(a[2 + i])))))
    V['over_2x128'] = over2

    def inover2(ex, c, a):
        for i in (0, 1):
            s_, al, m_, d_ = (_ld(ex, ex.val(a[2 * k + i])) for k in range(4))
            _st(ex, ex.val(a[6 + i]), sympy.expand(s_ * m_ + d_ * (1 - al * m_)))
    V['in_over_2x128'] = inover2
    ARITY = {'unpack_128_2x128': 3, 'pack_2x128_128': 2, 'expand_alpha_2x128': 4, 'negate_2x128': 4, 'pix_multiply_2x128': 6, 'pix_add_multiply_2x128': 10, 'over_2x128': 6,
             'in_over_2x128': 8, 'pix_add_multiply_1x128': 4, 'over_1x128': 3, 'in_over_1x128': 4, 'pix_multiply_1x128': 2}
    PRED = {'is_zero': 'zero', 'is_opaque': 'opaque', 'is_transparent': 'transparent'}
    return V, ARITY, PRED


LANE0 = sympy.Function('lane0')
P16 = sympy.Function('packed16')


def _pack16(v):
    """a pixel narrowed to 16 bits: it sits wholly in lane 0 of the register"""
    try:
        if v is not None and _is_expr(v) and getattr(v, 'free_symbols', None):
            return P16(v)
    except Exception:
        pass
    return v


def _lane0_broadcast(ex, c, a):
    """expand_alpha_rev: every lane receives lane 0 of the argument.  For a value that is its own alpha in every lane (an a8 mask byte) that
    is the identity; for a colour pixel it is the blue channel, not the alpha - kept as an opaque term so that it cannot pass for alpha"""
    v = ex.val(a[0])
    try:
        if v is not None and _is_expr(v) and getattr(v, 'func', None) == P16:
            return v.args[0]                     # four copies of the packed pixel
        if v is None or not _is_expr(v) or not getattr(v, 'free_symbols', None):
            return v
        if vanishes(sympy.expand(v - alpha(v)), getattr(ex, 'base', None) or {}):
            return v
    except Unknown:
        return v
    # a packed 16-bit pixel sits wholly in lane 0: broadcasting it replicates the pixel (four r5g6b5 pixels at once)
    f = getattr(ex, 'f', None)
    if f is not None:
        seen = set(); work = [a[0]]
        while work:
            o = work.pop()
            y = f.v(o) if o and o[0] == 'v' else None
            if y is None or y.i in seen:
                continue
            seen.add(y.i)
            if y.op in ('zext', 'sext', 'trunc', 'bitcast'):
                src = f.v(y.a[0])
                if (src is not None and src.ty == 'i16') or y.ty == 'i16':
                    return v
                work.append(y.a[0])
            elif y.op == 'call' and y.callee:
                if '0565' in y.callee or '565' in y.callee and 'pack' in y.callee:
                    return v
                if y.callee in ('to_m64', 'to_uint64'):
                    work.extend(q for q in y.a if q and q[0] == 'v')
            elif y.op in ('phi', 'select'):
                work.extend(q for q in (y.a if y.op == 'phi' else y.a[1:]) if q and q[0] == 'v')
            elif y.op == 'load' and y.ty == 'i16':
                return v
    return LANE0(v)


def voc_mmx():
    V = {}
    V['load8888'] = lambda ex, c, a: ex.load_ptr(ex.val(a[0]))
    V['load'] = lambda ex, c, a: ex.load_ptr(ex.val(a[0]))
    V['ldq_u'] = lambda ex, c, a: ex.load_ptr(ex.val(a[0]))
    V['store8888'] = lambda ex, c, a: ex.store_ptr(ex.val(a[0]), ex.val(a[1]))
    V['store'] = lambda ex, c, a: ex.store_ptr(ex.val(a[0]), ex.val(a[1]))
    V['expand_alpha'] = lambda ex, c, a: alpha(ex.val(a[0]))
    V['negate'] = lambda ex, c, a: 1 - ex.val(a[0])
    V['pix_multiply'] = lambda ex, c, a: sympy.expand(ex.val(a[0]) * ex.val(a[1]))
    V['pix_add'] = V['_mm_adds_pu8'] = V['_mm_adds_pu16'] = lambda ex, c, a: sympy.expand(ex.val(a[0]) + ex.val(a[1]))
    V['pix_add_mul'] = lambda ex, c, a: sympy.expand(ex.val(a[0]) * ex.val(a[1]) + ex.val(a[2]) * ex.val(a[3]))
    V['over'] = lambda ex, c, a: sympy.expand(ex.val(a[0]) + ex.val(a[2]) * (1 - ex.val(a[1])))
    V['in_over'] = lambda ex, c, a: sympy.expand(ex.val(a[0]) * ex.val(a[2]) + ex.val(a[3]) * (1 - ex.val(a[1]) * ex.val(a[2])))
    V['in'] = lambda ex, c, a: sympy.expand(ex.val(a[0]) * ex.val(a[1]))
    V['_mm_setzero_si64'] = lambda ex, c, a: sympy.Integer(0)
    V['_mm_empty'] = lambda ex, c, a: None
    V['_mm_or_si64'] = _or
    V['_mm_xor_si64'] = _xor
    V['_mm_unpacklo_pi8'] = V['_mm_unpackhi_pi8'] = V['_mm_unpacklo_pi16'] = V['_mm_unpackhi_pi16'] = _unpack_zero
    for n in ('expand8888', 'expand565', 'to_m64', 'to_uint64', 'expand4444'):
        V[n] = lambda ex, c, a: ex.val(a[0])
    V['expandx888'] = lambda ex, c, a: ex.opaque(ex.val(a[0]))
    V['load8888u'] = lambda ex, c, a: ex.load_ptr(ex.val(a[0]))
    V['expand_alpha_rev'] = _lane0_broadcast                    # broadcast of the low lane: an a8 mask byte, or a packed 565 pixel
    V['pack_565'] = lambda ex, c, a: _pack16(ex.val(a[0]))
    V['expand_4x565'] = _spread(4)
    V['expand_4xpacked565'] = _spread(2)
    V['pack_4x565'] = lambda ex, c, a: _all_equal([ex.val(o) for o in a[:4]])
    V['pack_4xpacked565'] = lambda ex, c, a: _all_equal([ex.val(o) for o in a[:2]])
    V['convert_8888_to_0565'] = V['convert_0565_to_0888'] = lambda ex, c, a: ex.val(a[0])
    V['convert_0565_to_8888'] = lambda ex, c, a: ex.opaque(ex.val(a[0]))

    V['pack8888'] = lambda ex, c, a: _all_equal([ex.val(a[0]), ex.val(a[1])])
    ARITY = {'pix_multiply': 2, 'pix_add_mul': 4, 'over': 3, 'in_over': 4, 'expand_alpha': 1, 'negate': 1}
    PRED = {'is_zero': 'zero', 'is_opaque': 'opaque', 'is_equal': None}
    return V, ARITY, PRED


def voc_c():
    """the pixman-combine32.h primitives, made opaque by the derived header (px_* externs)"""
    V = {}
    V['px_mul_un8'] = lambda ex, c, a: sympy.expand(ex.val(a[0]) * ex.val(a[1]))                       # x * a
    V['px_mul_un8x4'] = lambda ex, c, a: sympy.expand(ex.val(a[0]) * ex.val(a[1]))                     # x * a (component-wise)
    V['px_add_un8x4'] = lambda ex, c, a: sympy.expand(ex.val(a[0]) + ex.val(a[1]))
    V['px_mul_un8_add_un8x4'] = lambda ex, c, a: sympy.expand(ex.val(a[0]) * ex.val(a[1]) + ex.val(a[2]))
    V['px_mul_un8x4_add_un8x4'] = lambda ex, c, a: sympy.expand(ex.val(a[0]) * ex.val(a[1]) + ex.val(a[2]))
    V['px_mul_un8_add_un8x4_mul_un8'] = lambda ex, c, a: sympy.expand(ex.val(a[0]) * ex.val(a[1]) + ex.val(a[2]) * ex.val(a[3]))
    V['px_mul_un8x4_add_un8x4_mul_un8'] = lambda ex, c, a: sympy.expand(ex.val(a[0]) * ex.val(a[1]) + ex.val(a[2]) * ex.val(a[3]))
    V['px_mul_un8x4_add_un8x4_mul_un8x4'] = lambda ex, c, a: sympy.expand(ex.val(a[0]) * ex.val(a[1]) + ex.val(a[2]) * ex.val(a[3]))
    return V, {}, {}


def voc_cfast():
    """pixman-fast-path.c: the opaque combine32.h primitives plus the format converters (bit layout decided by C02-R6/C10)"""
    V, A, PR = voc_c()
    V['convert_8888_to_0565'] = V['convert_0565_to_0888'] = V['convert_8888_to_8888'] = lambda ex, c, a: ex.val(a[0])
    V['convert_0565_to_8888'] = V['convert_x888_to_8888'] = lambda ex, c, a: ex.opaque(ex.val(a[0]))
    V['fetch_24'] = lambda ex, c, a: ex.load_ptr(ex.val(a[0]))
    # a convex combination of four source pixels is a source pixel (which one, and with which weights, is C08's concern)
    V['bilinear_interpolation'] = lambda ex, c, a: _all_equal([ex.val(o) for o in a[:4]])
    V['store_24'] = lambda ex, c, a: ex.store_ptr(ex.val(a[0]), ex.val(a[1]))
    return V, A, PR


class Exec:
    """path-wise symbolic execution of one function; internal non-vocabulary callees are executed recursively"""

    def __init__(self, P, u, voc, has_mask):
        self.P = P; self.u = u; self.V, self.ARITY, self.PRED = voc; self.has_mask = has_mask
        self.depth = 0

    # --- running a path
    def run_paths(self, f, argvals, region=None, start=0, stop_at_back=None):
        """enumerate acyclic paths of f from `start`; region = set of allowed blocks (a loop body) or None (whole function).
        yields (assumptions dict, return value or None, writes [(role, value)], notes)"""
        results = []
        limit = [0]

        def walk(b, state, prev, visited, start_idx=0):
            limit[0] += 1
            if limit[0] > getattr(self, "path_limit", 400):
                raise Unknown('too many paths in %s' % f.name)
            env, mem, assum, writes, notes = state
            env = dict(env); mem = dict(mem); assum = dict(assum); writes = list(writes); notes = list(notes)
            self.f = f; self.env = env; self.mem = mem; self.argvals = argvals; self.writes = writes; self.assum = assum
            blk = f.blocks[b]
            for idx, x in enumerate(blk.insts):
                if idx < start_idx:
                    continue
                if x.op == 'phi':
                    for a, bb in zip(x.a, x.d['bb']):
                        if bb == prev:
                            env[x.i] = self.val(a)
                    continue
                if x.op == 'ret':
                    results.append((assum, self.val(x.a[0]) if x.a else None, writes, notes, dict(mem))); return
                if x.op in ('br', 'switch'):
                    break
                try:
                    self.step(x)
                except Fork as fk:
                    for a_, v_, m_, n_ in fk.alts:
                        e2 = dict(env); e2[x.i] = v_
                        m2 = dict(mem); m2.update(m_)
                        a2 = dict(assum); a2.update(a_ or {})
                        walk(b, (e2, m2, a2, writes, notes + list(n_ or [])), prev, visited, idx + 1)
                    return
                self.f = f; self.env = env; self.mem = mem; self.argvals = argvals; self.writes = writes; self.assum = assum
            t = blk.term
            succs = list(blk.succ)
            if t.op == 'br' and t.a:
                dec = self.decide(t)
                for sidx, s_ in enumerate(t.d['succ']):
                    if dec is not None and dec[0] == 'const':
                        if (sidx == 0) != dec[1]:
                            continue
                    a2 = dict(assum); n2 = list(notes)
                    if dec is not None and dec[0] == 'assume':
                        sub = dec[1] if sidx == 0 else dec[2]
                        if sub == 'infeasible':
                            continue
                        a2.update(sub or {})
                    elif dec is not None and dec[0] == 'pixelcond':
                        n2.append('unrecognised condition on pixel values')
                    self._next(f, s_, b, (env, mem, a2, writes, n2), visited, region, results, walk)
                return
            for s_ in succs:
                self._next(f, s_, b, (env, mem, assum, writes, notes), visited, region, results, walk)

        inits = getattr(self, 'init_states', None)
        if inits:
            for st in inits[:6]:
                env0, mem0, as0, notes0, prev0 = st
                walk(start, (env0, mem0, as0, [], notes0), prev0, frozenset())
        else:
            walk(start, ({}, dict(getattr(self, 'init_mem', {})), {}, [], []), None, frozenset())
        return results

    def prefix_states(self, f, argvals, header):
        """symbolic states on arrival at `header` along acyclic paths from the function entry (values computed before the loop)"""
        out = []
        limit = [0]

        def walk(b, state, prev, visited):
            limit[0] += 1
            if limit[0] > 300 or len(out) >= 6:
                return
            env, mem, assum, notes = state
            if b == header:
                # assumptions made on the way about per-pixel values (pixels of earlier loops) say nothing about this loop's pixels
                keep = getattr(self, 'solid_syms', set())
                a_in = {k: v for k, v in assum.items() if getattr(k, 'free_symbols', set()) <= keep}
                out.append((dict(env), dict(mem), a_in, list(notes), prev)); return
            env = dict(env); mem = dict(mem); assum = dict(assum); notes = list(notes)
            self.f = f; self.env = env; self.mem = mem; self.argvals = argvals; self.writes = []; self.assum = assum
            blk = f.blocks[b]
            for x in blk.insts:
                if x.op == 'phi':
                    for a, bb in zip(x.a, x.d['bb']):
                        if bb == prev:
                            env[x.i] = self.val(a)
                    continue
                if x.op in ('ret', 'br', 'switch', 'unreachable'):
                    break
                try:
                    self.step(x)
                except Unknown:
                    env[x.i] = None
                self.f = f; self.env = env; self.mem = mem; self.argvals = argvals; self.assum = assum
            t = blk.term
            if t.op == 'br' and t.a:
                try:
                    dec = self.decide(t)
                except Unknown:
                    dec = None
                for sidx, s_ in enumerate(t.d['succ']):
                    if dec is not None and dec[0] == 'const' and (sidx == 0) != dec[1]:
                        continue
                    a2 = dict(assum)
                    if dec is not None and dec[0] == 'assume':
                        a2.update((dec[1] if sidx == 0 else dec[2]) or {})
                    if (b, s_) in visited:
                        continue
                    walk(s_, (env, mem, a2, notes), b, visited | {(b, s_)})
                return
            for s_ in blk.succ:
                if (b, s_) in visited:
                    continue
                walk(s_, (env, mem, assum, notes), b, visited | {(b, s_)})

        walk(0, ({}, {}, {}, []), None, frozenset())
        return out

    def early_returns(self, f, argvals, headers):
        """assumptions under which the function returns without entering any pixel loop: [(assumptions, touched)] where touched says
        that a call the vocabulary does not model (fill, blt, another routine) was made on the way"""
        out = []
        limit = [0]

        def walk(b, state, prev, visited):
            limit[0] += 1
            if limit[0] > 300 or b in headers:
                return
            env, mem, assum, touched = state
            env = dict(env); mem = dict(mem); assum = dict(assum)
            self.f = f; self.env = env; self.mem = mem; self.argvals = argvals; self.writes = []; self.assum = assum
            blk = f.blocks[b]
            for x in blk.insts:
                if x.op == 'phi':
                    for a, bb in zip(x.a, x.d['bb']):
                        if bb == prev:
                            env[x.i] = self.val(a)
                    continue
                if x.op == 'ret':
                    out.append((assum, touched or bool(self.writes))); return
                if x.op in ('br', 'switch', 'unreachable'):
                    break
                try:
                    self.step(x)
                except Unknown:
                    env[x.i] = None
                    if x.op == 'call' and not (isinstance(x.callee, str) and (x.callee.startswith('llvm.') or x.callee in ('_pixman_log_error',))):
                        touched = True
                self.f = f; self.env = env; self.mem = mem; self.argvals = argvals; self.assum = assum
            t = blk.term
            if t.op == 'br' and t.a:
                try:
                    dec = self.decide(t)
                except Unknown:
                    dec = None
                for sidx, s_ in enumerate(t.d['succ']):
                    if dec is not None and dec[0] == 'const' and (sidx == 0) != dec[1]:
                        continue
                    a2 = dict(assum)
                    if dec is not None and dec[0] == 'assume':
                        a2.update((dec[1] if sidx == 0 else dec[2]) or {})
                    if (b, s_) in visited:
                        continue
                    walk(s_, (env, mem, a2, touched), b, visited | {(b, s_)})
                return
            for s_ in blk.succ:
                if (b, s_) not in visited:
                    walk(s_, (env, mem, assum, touched), b, visited | {(b, s_)})

        walk(0, ({}, {}, {}, False), None, frozenset())
        return out

    def _next(self, f, s_, b, state, visited, region, results, walk):
        env, mem, assum, writes, notes = state
        if region is not None and s_ == self.loop_header:
            results.append((assum, None, writes, notes, dict(mem))); return      # one complete iteration
        if region is not None and s_ not in region:
            return                                                   # leaving the loop: not an iteration
        if (b, s_) in visited:
            return
        walk(s_, state, b, visited | {(b, s_)})

    # --- values
    def val(self, o):
        f = self.f
        k = o[0]
        if k == 'c':
            return sympy.Integer(int(o[1]))
        if k == 'n':
            return Ptr(None)
        if k == 'a':
            return self.argvals[o[1]] if o[1] < len(self.argvals) else None
        if k == 'v':
            if o[1] in self.env:
                return self.env[o[1]]
            x = f.by_id[o[1]]
            if x.op == 'alloca':
                return Ptr(('local', f.name, x.i))
            if x.ty.endswith('*'):
                # a pointer defined outside the path (loop-carried cursor): its role is that of the parameter(s) it derives from
                roles = set()
                for r in common.roots(f, o):
                    if r[0] == 'arg' and r[1] < len(self.argvals) and isinstance(self.argvals[r[1]], Ptr):
                        roles.add(self.argvals[r[1]].role)
                    elif r[0] == 'alloca':
                        roles.add(('local', f.name, r[1]))
                    else:
                        roles.add('?')
                if len(roles) == 1 and '?' not in roles:
                    return Ptr(next(iter(roles)))
            return None
        if k == 'u':
            return None
        if k == 'g':
            return Ptr(('global', o[1], None))
        if k == 'ce' and o[1] == 'getelementptr' and o[2] and o[2][0][0] == 'g':
            fs = [st for st in (o[3] if len(o) > 3 else []) if st[0] == 'f']
            if len(fs) == 1:
                return Ptr(('global', o[2][0][1], fs[0][3]))
        return None

    def opaque(self, v):
        """v | <alpha mask>: the same colour, alpha 1"""
        if not _is_expr(v):
            raise Unknown('alpha forced on an untracked value')
        return force_opaque(v)

    def load_ptr(self, p):
        if not isinstance(p, Ptr):
            raise Unknown('load through a non-pointer')
        if p.role in ROLE_SYM:
            return ROLE_SYM[p.role]
        if isinstance(p.role, tuple) and p.role[0] == 'global':
            v = unit_consts(self.P, self.u).get((p.role[1], p.role[2]))
            if v is None:
                raise Unknown('load of a global the rule does not interpret')
            return v
        if isinstance(p.role, tuple):
            v = self.mem.get(p.role)
            if v is None:
                raise Unknown('read of an uninitialised local')
            return v
        raise Unknown('load through null')

    def store_ptr(self, p, v):
        if not isinstance(p, Ptr):
            raise Unknown('store through a non-pointer')
        if p.role == 'd':
            self.writes.append(('d', v)); return None
        if isinstance(p.role, tuple) and p.role[0] == 'local':
            self.mem[p.role] = v; return None
        raise Unknown('store to source, mask or a global')

    def step(self, x):
        f = self.f; env = self.env
        op = x.op
        if op == 'alloca':
            env[x.i] = Ptr(('local', f.name, x.i)); return
        if op in ('bitcast', 'zext', 'sext', 'trunc', 'freeze', 'ptrtoint', 'inttoptr'):
            env[x.i] = self.val(x.a[0]); return
        if op == 'getelementptr':
            env[x.i] = self.val(x.a[0]); return        # pointer arithmetic keeps the role
        if op == 'load':
            p = self.val(x.a[0])
            try:
                env[x.i] = self.load_ptr(p) if isinstance(p, Ptr) else None
            except Unknown:
                env[x.i] = None
            return
        if op == 'store':
            p = self.val(x.a[1]); v = self.val(x.a[0])
            if isinstance(p, Ptr):
                if p.role == 'd':
                    self.writes.append(('d', v))
                elif isinstance(p.role, tuple) and p.role[0] == 'local':
                    self.mem[p.role] = v
            return
        if op == 'or' and any(o[0] == 'c' and (int(o[1]) & 0xffffffff) == 0xff000000 for o in x.a):
            env[x.i] = self.opaque(self.val([o for o in x.a if o[0] != 'c'][0])); return
        if op == 'or':
            sat = self._sat_add(x)
            if sat is not None:
                env[x.i] = sat; return
        if op in ('lshr', 'ashr') and x.a[1][0] == 'c' and int(x.a[1][1]) == 8:
            m = self._mul_un8(x)
            if m is not None:
                env[x.i] = m; return
        if op == 'lshr' and x.a[1][0] == 'c' and int(x.a[1][1]) == 24:
            v = self.val(x.a[0])
            env[x.i] = alpha(v) if _is_expr(v) else None; return
        if op == 'xor' and any(o[0] == 'c' and int(o[1]) in (-1, 0xff, 0xffffffff) for o in x.a):
            v = self.val([o for o in x.a if o[0] != 'c'][0])
            env[x.i] = (1 - v) if _is_expr(v) else None; return
        if op == 'and' and any(o[0] == 'c' and int(o[1]) in (0xff,) for o in x.a):
            v = self.val([o for o in x.a if o[0] != 'c'][0])
            env[x.i] = v; return
        if op == 'and':
            a, b = self.val(x.a[0]), self.val(x.a[1])
            if getattr(self, 'mask_bits', False) and ((a == M) != (b == M)):
                env[x.i] = M; return                  # 1-bpp mask: `word & bitmask` is the mask value of the pixel
            env[x.i] = a if (_is_expr(a) and _is_expr(b) and sympy.expand(a - b) == 0) else None; return
        if op == 'shl' and x.a[1][0] == 'c' and int(x.a[1][1]) in (8, 16, 24, 32, 48):
            env[x.i] = self.val(x.a[0]); return            # replication of an 8-bit alpha into another channel
        if op == 'or':
            a, b = self.val(x.a[0]), self.val(x.a[1])
            if isinstance(a, tuple) and a and a[0] == 'bor':
                a = a[1]
            if isinstance(b, tuple) and b and b[0] == 'bor':
                b = b[1]
            same = _is_expr(a) and _is_expr(b) and sympy.expand(a - b) == 0
            if same and a.free_symbols and x.a[0] != x.a[1] and self._only_compared(x):
                # the values of several pixels or-ed together: "== 0" says all are 0, but "== 0xff" says nothing about each of them
                env[x.i] = ('bor', a); return
            env[x.i] = a if same else None; return
        if op == 'icmp':
            env[x.i] = None; return
        if op == 'select':
            env[x.i] = None; return
        if op == 'call':
            self.call(x); return
        env[x.i] = None

    def call(self, x):
        f = self.f; env = self.env
        name = x.callee
        if name is None:
            env[x.i] = None; return
        if name.startswith('llvm.memset') and len(x.a) >= 2:
            p = self.val(x.a[0]); v = self.val(x.a[1])
            if isinstance(p, Ptr) and p.role == 'd' and _is_expr(v) and v == 0:
                self.writes.append(('d', sympy.Integer(0)))
            elif isinstance(p, Ptr) and p.role == 'd':
                raise Unknown('memset of the destination with a non-zero value')
            env[x.i] = None; return
        if name.startswith('llvm.memcpy') and len(x.a) >= 2 and isinstance(self.val(x.a[0]), Ptr) and self.val(x.a[0]).role == 'd':
            q = self.val(x.a[1])
            if isinstance(q, Ptr) and q.role in ROLE_SYM:
                self.writes.append(('d', ROLE_SYM[q.role]))
            else:
                raise Unknown('memcpy into the destination from an untracked pointer')
            env[x.i] = None; return
        if name.startswith('llvm.memcpy') and len(x.a) >= 2:
            # memcpy (&local, ps, 4): scalar load idiom
            p, q = self.val(x.a[0]), self.val(x.a[1])
            try:
                if isinstance(p, Ptr) and isinstance(q, Ptr):
                    self.store_ptr(p, self.load_ptr(q))
            except Unknown:
                pass
            env[x.i] = None; return
        if name.startswith('llvm.'):
            env[x.i] = None; return
        if name in self.PRED:
            env[x.i] = ('pred', self.PRED[name], self.val(x.a[0])); return
        if name in self.V:
            if name in self.ARITY and len(x.a) != self.ARITY[name]:
                raise Unknown('helper %s has %d arguments, the vocabulary expects %d' % (name, len(x.a), self.ARITY[name]))
            try:
                env[x.i] = self.V[name](self, x, x.a)
            except (TypeError, AttributeError):
                raise Unknown('helper %s applied to an untracked value' % name)
            return
        g = self.u.functions.get(name)
        if g is None or not g.internal:
            raise Unknown('call of %s, which is not in the helper vocabulary' % name)
        # recursive execution of an internal pixel function (no loops)
        if self.depth > 4:
            raise Unknown('helper nesting too deep at %s' % name)
        args = [self.val(a) for a in x.a]
        saved = (self.f, self.env, self.mem, self.argvals, self.writes, self.assum)
        self.depth += 1
        try:
            sub = Exec(self.P, self.u, (self.V, self.ARITY, self.PRED), self.has_mask)
            sub.depth = self.depth; sub.loop_header = None
            sub.init_mem = dict(self.mem)
            res = sub.run_paths(g, args)
        finally:
            self.depth -= 1
            self.f, self.env, self.mem, self.argvals, self.writes, self.assum = saved
        if any(w for a, v, w, n, m in res):
            raise Unknown('helper %s writes the destination' % name)
        visible = set(self.mem) | {p.role for p in args if isinstance(p, Ptr) and isinstance(p.role, tuple)}
        if len(res) == 1:
            a, v, w, n, m = res[0]
            if a:
                raise Unknown('helper %s has a single conditional path' % name)
            for k in visible:
                if k in m:
                    self.mem[k] = m[k]
            env[x.i] = v; return
        # shortcuts that agree with the general path under their own assumption are absorbed by it (return value and memory effects)
        general = [(v, m) for a, v, w, n, m in res if not a and not n]
        if general:
            gv, gm = general[0]
            okc = True
            for a, v, w, n, m in res:
                if not a and not n:
                    continue
                if gv is not None and not (_is_expr(v) and _is_expr(gv) and vanishes(v - gv, a)):
                    okc = False
                for k in visible:
                    x1, x2 = m.get(k), gm.get(k)
                    if x1 is None and x2 is None:
                        continue
                    if not (_is_expr(x1) and _is_expr(x2) and vanishes(x1 - x2, a)):
                        okc = False
            if okc:
                for k in visible:
                    if k in gm:
                        self.mem[k] = gm[k]
                env[x.i] = gv; return
        if all(not (set(m) & visible) or all(m.get(k) == self.mem.get(k) for k in visible) for a, v, w, n, m in res):
            env[x.i] = ('cases', [(a, v, n) for a, v, w, n, m in res]); return
        # outcomes that differ in what they leave in memory: split the caller's path
        raise Fork([(a, v, {k: m[k] for k in visible if k in m}, n) for a, v, w, n, m in res])

    def _def(self, o):
        f = self.f
        o = f.strip_casts(o) if hasattr(f, 'strip_casts') else o
        return f.by_id.get(o[1]) if o[0] == 'v' else None

    def _sat_add(self, x):
        """t | (0 - (t >> 8)) with t = a + b of two 8-bit values: the scalar saturating add"""
        for t_o, n_o in ((x.a[0], x.a[1]), (x.a[1], x.a[0])):
            n = self._def(n_o)
            if n is None or n.op != 'sub' or not (n.a[0][0] == 'c' and int(n.a[0][1]) == 0):
                continue
            sh = self._def(n.a[1])
            if sh is None or sh.op not in ('lshr', 'ashr') or not (sh.a[1][0] == 'c' and int(sh.a[1][1]) == 8):
                continue
            t = self._def(t_o); t2 = self._def(sh.a[0])
            if t is None or t2 is None or t.i != t2.i or t.op != 'add':
                continue
            a, b = self.val(t.a[0]), self.val(t.a[1])
            if _is_expr(a) and _is_expr(b):
                # the carry lives in bit 8 of t: if t is narrowed to 8 bits on its way to the shift, t >> 8 is 0 and the sum wraps
                o = sh.a[0]; narrowed = False
                while o[0] == 'v':
                    y = self.f.by_id[o[1]]
                    if y.op == 'trunc' and y.ty in ('i8', 'i1'):
                        narrowed = True
                    if y.op not in ('trunc', 'zext', 'sext'):
                        break
                    o = y.a[0]
                if narrowed:
                    return sympy.Function('wrapped_mod_256')(sympy.expand(a + b))
                return sympy.expand(a + b)
        return None

    def _mul_un8(self, x):
        """((t >> 8) + t) >> 8 with t = a * b + 0x80: the MUL_UN8 macro"""
        s_ = self._def(x.a[0])
        if s_ is None or s_.op != 'add':
            return None
        for sh_o, t_o in ((s_.a[0], s_.a[1]), (s_.a[1], s_.a[0])):
            sh = self._def(sh_o); t = self._def(t_o)
            if sh is None or t is None or sh.op not in ('lshr', 'ashr') or not (sh.a[1][0] == 'c' and int(sh.a[1][1]) == 8):
                continue
            t2 = self._def(sh.a[0])
            if t2 is None or t2.i != t.i or t.op != 'add':
                continue
            for m_o, k_o in ((t.a[0], t.a[1]), (t.a[1], t.a[0])):
                mm = self._def(m_o)
                if k_o[0] == 'c' and int(k_o[1]) == 0x80 and mm is not None and mm.op == 'mul':
                    a, b = self.val(mm.a[0]), self.val(mm.a[1])
                    if _is_expr(a) and _is_expr(b):
                        return sympy.expand(a * b)
        return None

    def _only_compared(self, x, d=0):
        """every use of x (through casts, or-s and masks with a constant) is a comparison"""
        us = self.f.users(x)
        if not us or d > 6:
            return False
        for u_ in us:
            if u_.op == 'icmp':
                continue
            if u_.op in ('zext', 'sext', 'trunc', 'or') or (u_.op == 'and' and any(o[0] == 'c' for o in u_.a)):
                if not self._only_compared(u_, d + 1):
                    return False
                continue
            return False
        return True

    def decide(self, t):
        """('const', bool) | ('assume', subs_true, subs_false) | ('pixelcond',) | None"""
        f = self.f
        c, pred, ops = f.cond(t.a[0])
        if c is None:
            return None
        if pred in ('is', 'not'):
            v = self.val(ops[0])
            if isinstance(v, tuple) and v[0] == 'pred':
                sub = _pred_subs(v[1], v[2])
                if sub is None:
                    return ('pixelcond',)
                return ('assume', sub, {}) if pred == 'is' else ('assume', {}, sub)
            return None
        if c.op != 'icmp' or len(ops) != 2:
            return None
        a, b = self.val(ops[0]), self.val(ops[1])
        for l, r, flip in ((a, b, False), (b, a, True)):
            if isinstance(l, Ptr) and isinstance(r, Ptr) and r.role is None:
                isnull = l.role is None
                res = isnull if pred == 'eq' else (not isnull)
                return ('const', res)
            if isinstance(l, tuple) and l[0] == 'predmask' and _is_expr(r) and r.is_Integer and int(r) == 0xffff:
                sub = _pred_subs(l[1], l[2])
                if sub is None:
                    return ('pixelcond',)
                return ('assume', sub, {}) if pred == 'eq' else ('assume', {}, sub) if pred == 'ne' else ('pixelcond',)
            if isinstance(l, tuple) and l[0] == 'pred' and _is_expr(r) and r == 0:
                sub = _pred_subs(l[1], l[2])
                if sub is None:
                    return ('pixelcond',)
                return ('assume', sub, {}) if pred == 'ne' else ('assume', {}, sub)
            if isinstance(l, tuple) and l and l[0] == 'bor' and _is_expr(r) and r.is_Integer and pred in ('eq', 'ne'):
                if int(r) == 0:
                    sub = _zero_subs(l[1])
                    if sub is None:
                        return ('pixelcond',)
                    return ('assume', sub, {}) if pred == 'eq' else ('assume', {}, sub)
                return ('assume', {}, {})      # understood, and worthless: an or of several pixels equal to all-ones does not make each of them all-ones
            if _is_expr(l) and _is_expr(r) and r.is_Integer and l.free_symbols:
                k = int(r)
                if k == 0 and l == M and getattr(self, 'mask_bits', False) and pred in ('eq', 'ne'):
                    z, o = _zero_subs(M), _one_subs(M)          # a 1-bpp mask value is 0 or 1
                    return ('assume', z, o) if pred == 'eq' else ('assume', o, z)
                if k == 0:
                    sub = _zero_subs(l)
                elif k in (0xff, 255):
                    sub = _one_subs(l)
                elif k in (0xffffffff, -1):
                    sub = _one_subs(l)
                else:
                    sub = None
                if sub is None:
                    return ('pixelcond',)
                if pred == 'eq':
                    return ('assume', sub, {})
                if pred == 'ne':
                    return ('assume', {}, sub)
                return ('pixelcond',)
        if (_is_expr(a) and getattr(a, 'free_symbols', None)) or (_is_expr(b) and getattr(b, 'free_symbols', None)):
            return ('pixelcond',)
        return None


def _is_expr(v):
    return isinstance(v, sympy.Basic)


SYMS = (S, SA, D, DA, M, MA)


def _gens(*es):
    """assumption = list of polynomials known to vanish; returned as a dict so that paths can accumulate them"""
    out = {}
    for e in es:
        e = sympy.expand(e)
        if e != 0:
            out[e] = 0
    return out


def _zero_subs(e):
    """the whole pixel value e is zero: its colour and its alpha vanish"""
    if not e.free_symbols:
        return None
    return _gens(e, alpha(e))


def _one_subs(e):
    """e == 1 (a scalar alpha, or a pixel all of whose channels are 0xff)"""
    if not e.free_symbols:
        return None
    return _gens(e - 1, alpha(e) - 1)


def _pred_subs(kind, v):
    if isinstance(v, tuple) and v and v[0] == 'band' and kind == 'opaque' and all(_is_expr(q) for q in v[1:]):
        return _gens(*[alpha(q) - 1 for q in v[1:]])      # all alpha bits of a & b set: both are opaque
    if not _is_expr(v) or not v.free_symbols:
        return None
    if kind == 'zero':
        return _zero_subs(v)
    if kind == 'opaque':
        return _gens(alpha(v) - 1)
    if kind == 'transparent':
        return _gens(alpha(v))
    return None


def _saturated(got, want, assum):
    """Sums saturate at 1.  Under the assumptions of the form sym = 1 / sym = 0, the written value is exactly 1 and the required value
    is 1 + (a polynomial with non-negative coefficients in quantities of [0,1]): the stored pixels agree."""
    sub1 = {}
    for g in assum:
        g = sympy.expand(g)
        fs = list(g.free_symbols)
        if len(fs) == 1 and g == fs[0]:
            sub1[fs[0]] = 0
        elif len(fs) == 1 and g == fs[0] - 1:
            sub1[fs[0]] = 1
    if not sub1:
        return False
    g1 = sympy.expand(sympy.sympify(got).subs(sub1)); w1 = sympy.expand(sympy.sympify(want).subs(sub1))
    if g1 != 1:
        return False
    d = sympy.expand(w1 - 1)
    if d == 0:
        return True
    if not d.free_symbols:
        return d >= 0
    poly = sympy.Poly(d, *sorted(d.free_symbols, key=str))
    return all(c >= 0 for c in poly.coeffs())


def vanishes(diff, assum):
    """is the polynomial `diff` zero whenever all assumption polynomials are zero?  (ideal membership via a Groebner basis)"""
    diff = sympy.expand(diff)
    if diff == 0:
        return True
    gens = [g for g in assum if g != 0]
    if not gens:
        return False
    try:
        G = sympy.groebner(gens, *SYMS, order='lex')
        q, r = G.reduce(diff)
        return sympy.expand(r) == 0
    except Exception:
        return False


# ------------------------------------------------------------------------------------------ expectations
def expected(name, ca):
    """Porter-Duff result for the operator as a polynomial; None when its factors are not polynomial (clamped kinds)"""
    fa, fb = algebra.ORACLE[name]
    if fa[0] != 'lin' or fb[0] != 'lin':
        return None
    Fa = fa[1].subs({algebra.SA: SA, algebra.DA: DA}, simultaneous=True)
    Fb = fb[1].subs({algebra.SA: SA, algebra.DA: DA}, simultaneous=True)
    if not ca:
        return sympy.expand(S * Fa + D * Fb)
    # component alpha: source colour s*m, per-channel source alpha sa*m
    return sympy.expand(S * M * Fa + D * Fb.subs({SA: SA * M}, simultaneous=True))


def masked_source_cases(ex_factory, u, helper, ptr_args):
    """what a masking helper (combine1/combine4/combine) returns: expected S (no mask) or S*MA (mask)"""
    pass


def analyse_combiner(P, u, voc, f, opname, ca):
    """returns list of problems [(kind, text)] for slot function f registered for operator opname"""
    E = expected(opname, ca)
    if E is None:
        return [('skip', 'factors of %s are not polynomial (clamped); not analysed' % opname)]
    problems = []
    import json
    from .. import build
    loops = _loops_of(u)
    for has_mask in ((True,) if ca else (False, True)):
        # locate the loop function: f itself or a callee receiving pd
        targets = []
        roles0 = [None, None, Ptr('d'), Ptr('s'), Ptr('m') if has_mask else Ptr(None), None]
        if loops.get(f.name) or not any(u.functions.get(c.callee or '') is not None and loops.get(c.callee) for c in f.calls()):
            targets.append((f, roles0))
        else:
            # wrapper: if (pm) core_mask (pd, ps, pm, w) else core_no_mask (pd, ps, w)
            ex = Exec(P, u, voc, has_mask); ex.loop_header = None
            try:
                for c in f.calls():
                    g = u.functions.get(c.callee or '')
                    if g is not None and loops.get(g.name):
                        # is this call on the path for this mask configuration?
                        ok = True
                        for br, succ in f.guard_edges(c.bb.id):
                            ex.f = f; ex.env = {}; ex.mem = {}; ex.argvals = roles0; ex.writes = []; ex.assum = {}
                            d = ex.decide(br)
                            if d is not None and d[0] == 'const' and (br.d['succ'][0] == succ) != d[1]:
                                ok = False
                        if ok:
                            ex.f = f; ex.env = {}; ex.argvals = roles0
                            targets.append((g, [ex.val(a) for a in c.a]))
            except Unknown as e:
                problems.append(('incomplete', str(e)))
        if not targets:
            problems.append(('incomplete', '%s: no pixel loop found (mask=%s)' % (f.name, has_mask))); continue
        for g, roles in targets:
            live = _config_reach(P, u, voc, g, roles, has_mask)
            todo = [L for L in loops[g.name] if L['header'] in live]      # loops of the other mask configuration are skipped
            if not todo:
                todo = [dict(header=None, blocks=None, depth=1, parent=-1)]       # whole-row operation (memset/memcpy) or no-op
            for L in todo:
                if L['depth'] != 1 and any(l2['parent'] == L['header'] for l2 in loops[g.name]):
                    continue
                ex = Exec(P, u, voc, has_mask); ex.loop_header = L['header']
                try:
                    if L['header'] is None:
                        res = ex.run_paths(g, roles)
                    else:
                        res = ex.run_paths(g, roles, region=set(L['blocks']), start=L['header'])
                except Unknown as e:
                    problems.append(('incomplete', '%s loop at block %s: %s' % (g.name, L['header'], e))); continue
                wrote_any = False
                for assum, rv, writes, notes, _m in res:
                    vals = [v for r, v in writes if r == 'd']
                    if len(vals) > 1:
                        # several stores of the same value (vector + tail) are fine if equal
                        pass
                    got_list = _expand_cases(vals[-1] if vals else D)
                    if vals:
                        wrote_any = True
                    for a2, got, n2 in got_list:
                        sub = dict(assum); sub.update(a2)
                        if got is None or not _is_expr(got):
                            problems.append(('incomplete', '%s loop at block %s: the value written is not expressible in the helper vocabulary' % (g.name, L['header']))); continue
                        if not has_mask and got.has(M) or got.has(MA) and not has_mask:
                            pass
                        Es = E
                        if not ca and has_mask:
                            # unified alpha: the source entering the operator is the raw source times the mask's alpha
                            Es = sympy.expand(E.subs({S: S * MA, SA: SA * MA}, simultaneous=True))
                        if not vanishes(got - Es, sub):
                            if notes or n2:
                                problems.append(('incomplete', '%s loop at block %s: result %s differs from %s under a condition the rule does not interpret' % (g.name, L['header'], got, Es)))
                            else:
                                problems.append(('violation', '%s (loop at block %s%s) computes %s%s; operator %s%s is %s' % (g.name, L['header'], ', with mask' if has_mask and not ca else '', got, (' when ' + _asm(sub)) if sub else '', opname, ' (component alpha)' if ca else '', Es)))
                if not wrote_any and res and sympy.expand(E - D) != 0:
                    problems.append(('incomplete', '%s loop at block %s writes no destination pixel' % (g.name, L['header'])))
    return problems


def _config_reach(P, u, voc, g, roles, has_mask):
    """blocks of g reachable from its entry when tests of the (non-)NULL mask/source pointers are folded"""
    ex = Exec(P, u, voc, has_mask); ex.loop_header = None
    ex.f = g; ex.env = {}; ex.mem = {}; ex.argvals = roles; ex.writes = []; ex.assum = {}
    seen = set(); work = [0]
    while work:
        b = work.pop()
        if b in seen:
            continue
        seen.add(b)
        t = g.blocks[b].term
        nxt = list(g.blocks[b].succ)
        if t.op == 'br' and t.a:
            try:
                d = ex.decide(t)
            except Unknown:
                d = None
            if d is not None and d[0] == 'const':
                nxt = [t.d['succ'][0] if d[1] else t.d['succ'][1]]
        work.extend(nxt)
    return seen


def _asm(sub):
    return ', '.join('%s = 0' % k for k in sorted(sub, key=str))


def _expand_cases(v):
    if isinstance(v, tuple) and v and v[0] == 'cases':
        out = []
        for a, val, n in v[1]:
            for a2, v2, n2 in _expand_cases(val):
                d = dict(a); d.update(a2)
                out.append((d, v2, list(n) + list(n2)))
        return out
    return [({}, _unpack16(v), [])]


def _unpack16(v):
    """drop the 'packed into 16 bits' marker: what is stored / compared is the pixel"""
    try:
        if v is not None and _is_expr(v) and v.has(P16):
            return sympy.expand(v.replace(P16, lambda x: x))
    except Exception:
        pass
    return v


_LOOPS = {}


def _tail_regions(f, loops):
    """single-pixel tails: inside a row loop, a conditional outside every pixel loop (`if (w) { ...one more pixel... }`).  Returned in the
    shape of a loop record: header = first block of the guarded side, blocks = the blocks only that side reaches, end = the block where
    it rejoins (arriving there is 'one complete iteration').  Only maximal regions that contain no loop block are returned."""
    inner = set()
    for L in loops:
        if not any(l2['parent'] == L['header'] for l2 in loops):
            inner |= set(L['blocks'])
    outer = set()
    for L in loops:
        if any(l2['parent'] == L['header'] for l2 in loops):
            outer |= set(L['blocks'])
    body = outer - inner
    headers = {L['header'] for L in loops}
    cands = []
    for b in sorted(body):
        t = f.blocks[b].term
        if t.op != 'br' or not t.a or len(set(t.d['succ'])) != 2:
            continue
        for s_ in t.d['succ']:
            if s_ not in body or s_ in headers:
                continue
            reg = {x for x in body if any(t2.i == t.i and s2 == s_ for t2, s2 in f.guard_edges(x))}
            if s_ not in reg:
                continue
            if not any(x.op == 'store' or x.op == 'call' for r in reg for x in f.blocks[r].insts):
                continue
            exits = {n for r in reg for n in f.blocks[r].succ if n not in reg}
            if len(exits) != 1 or (exits & inner):
                continue
            cands.append({'header': s_, 'blocks': sorted(reg), 'end': exits.pop(), 'parent': None, 'from': b})
    out = [c for c in cands if not any(c is not d and c['from'] in d['blocks'] for d in cands)]
    return out


def _loops_of(u):
    import json
    from .. import build
    key = (u.name, build.tree_hash())
    if key not in _LOOPS:
        path = build.library_facts(loops=True, only={u.name})[u.name]
        d = json.load(open(path))
        _LOOPS[key] = {fd['name']: fd.get('loops', []) for fd in d['functions']}
    return _LOOPS[key]


def masked_source_ok(P, u, voc, helper_names):
    """the helpers that apply a unified mask to the source return S * alpha(M) (mask) / S (no mask)"""
    out = []
    for hn in helper_names:
        g = u.functions.get(hn)
        if g is None:
            continue
        for has_mask in (False, True):
            ex = Exec(P, u, voc, has_mask); ex.loop_header = None
            try:
                res = ex.run_paths(g, [Ptr('s'), Ptr('m') if has_mask else Ptr(None)])
            except Unknown as e:
                out.append((hn, 'incomplete', str(e))); continue
            want = S * MA if has_mask else S
            for assum, rv, writes, notes, _m in res:
                for a2, got, n2 in _expand_cases(rv):
                    sub = dict(assum); sub.update(a2)
                    if not _is_expr(got):
                        out.append((hn, 'incomplete', 'return value not expressible')); continue
                    if not vanishes(got - want, sub):
                        out.append((hn, 'incomplete' if (notes or n2) else 'violation', '%s returns %s%s, the masked source is %s' % (hn, got, (' when ' + _asm(sub)) if sub else '', want)))
            out.append((hn, 'ok', 'mask=%s' % has_mask))
    return out


def r9_simd_combiners(ck, P):
    R = ck.rule('C02-R9', 'every SSE2/MMX combiner computes s*Fa + d*Fb with the Porter-Duff factors of the operator slot it is registered under (unified and component alpha; rounding not modelled)', floor=44)
    ops, N = algebra.operators(P)
    inv = {v: k for k, v in ops.items()}
    ss = algebra.slot_stores(P)
    for (un, creator, slot), m in sorted(ss.items()):
        if un not in ('pixman-sse2.c', 'pixman-mmx.c') or slot not in ('combine_32', 'combine_32_ca'):
            continue
        u = P.units[un]
        voc = voc_sse2() if un == 'pixman-sse2.c' else voc_mmx()
        ca = slot.endswith('_ca')
        for idx, (fn, x) in sorted(m.items(), key=lambda kv: int(kv[0]) if kv[0].lstrip('-').isdigit() else 0):
            if not idx.lstrip('-').isdigit() or int(idx) not in inv:
                ck.violation(R, creator, '%s[%s]' % (slot, idx), 'a SIMD combiner is stored at index %s, which is not an operator' % idx, x.loc()); continue
            opname = inv[int(idx)]
            f = u.functions.get(fn)
            if f is None:
                ck.incomplete(R, '%s: %s not found' % (un, fn)); continue
            ck.saw(f)
            if opname not in algebra.ORACLE:
                ck.ok(R, '%s/%s[%s] -> %s (not a Porter-Duff operator; not analysed)' % (un, slot, opname, fn)); continue
            try:
                probs = analyse_combiner(P, u, voc, f, opname, ca)
            except Unknown as e:
                probs = [('incomplete', str(e))]
            viol = [p for p in probs if p[0] == 'violation']
            inc = [p for p in probs if p[0] == 'incomplete']
            where = '%s/%s[%s] -> %s' % (un, slot, opname, fn)
            if viol:
                ck.violation(R, fn, '%s[%s] (%s)' % (slot, opname, un), viol[0][1], x.loc())
            elif inc:
                ck.note('C02-R9 not analysed: %s: %s' % (where, inc[0][1]))
                ck.rules[R]['n'] += 0
            elif probs and probs[0][0] == 'skip':
                ck.ok(R, where + ' (' + probs[0][1] + ')')
            else:
                ck.ok(R, where)


# ------------------------------------------------------------------------------------------ C01-R4: the C combiners
C_PRIMS = {
    'UN8x4_MUL_UN8': ('px_mul_un8', 2), 'UN8x4_MUL_UN8_ADD_UN8x4': ('px_mul_un8_add_un8x4', 3),
    'UN8x4_MUL_UN8_ADD_UN8x4_MUL_UN8': ('px_mul_un8_add_un8x4_mul_un8', 4), 'UN8x4_MUL_UN8x4': ('px_mul_un8x4', 2),
    'UN8x4_MUL_UN8x4_ADD_UN8x4': ('px_mul_un8x4_add_un8x4', 3), 'UN8x4_MUL_UN8x4_ADD_UN8x4_MUL_UN8': ('px_mul_un8x4_add_un8x4_mul_un8', 4),
    'UN8x4_ADD_UN8x4': ('px_add_un8x4', 2),
}


def derive_combine32(P, cname='pixman-combine32.c'):
    """scratch copy of the current <cname> next to a derived pixman-combine32.h whose pixel primitives are opaque calls"""
    import os, re, hashlib
    from .. import build, facts as _facts
    R = build.repo()
    hdr = open(os.path.join(R, 'pixman', 'pixman-combine32.h')).read()
    src = open(os.path.join(R, 'pixman', cname)).read()
    lines = hdr.split('\n'); out = []; i = 0; replaced = set()
    decl = []
    for nm, (fn, ar) in C_PRIMS.items():
        decl.append('extern uint32_t %s (%s);' % (fn, ', '.join(['uint32_t'] * ar)))
    while i < len(lines):
        m = re.match(r'#define\s+(\w+)\s*\(([^)]*)\)', lines[i])
        if m and m.group(1) in C_PRIMS:
            fn, ar = C_PRIMS[m.group(1)]
            params = [p.strip() for p in m.group(2).split(',')]
            while lines[i].rstrip().endswith('\\'):
                i += 1
            i += 1
            if len(params) != ar:
                raise AnalysisBroken('primitive %s now takes %d parameters' % (m.group(1), len(params)))
            out.append('#define %s(%s) do { %s = %s (%s); } while (0)' % (m.group(1), ', '.join(params), params[0], fn, ', '.join('(%s)' % p for p in params)))
            replaced.add(m.group(1))
            continue
        out.append(lines[i]); i += 1
    missing = set(C_PRIMS) - replaced
    if missing:
        raise AnalysisBroken('pixel primitives %s no longer defined in pixman-combine32.h' % sorted(missing))
    text_h = '#include <stdint.h>\n' + '\n'.join(decl) + '\n' + '\n'.join(out)
    key = hashlib.sha1((text_h + src).encode()).hexdigest()[:12]
    d = os.path.join(build.cache_dir(), 'gen', 'c32-' + key); os.makedirs(d, exist_ok=True)
    for nm_, tx_ in (('pixman-combine32.h', text_h), (cname, src)):
        pth = os.path.join(d, nm_)
        if not os.path.exists(pth):
            tmp = pth + '.tmp%d' % os.getpid()
            with open(tmp, 'w') as f:
                f.write(tx_)
            os.replace(tmp, pth)
    p = build.shim_facts(os.path.join(d, cname), mode='A', flags=['-DHAVE_CONFIG_H'], loops=True)
    import json
    S_ = _facts.Program({cname + '(derived)': p})
    u = list(S_.units.values())[0]
    loops = {fd['name']: fd.get('loops', []) for fd in json.load(open(p))['functions']}
    return S_, u, loops


def r4_c_combiners(ck, P):
    R = ck.rule('C01-R4', 'every 8-bit C combiner of pixman-combine32.c (the ones SSE2 shadows in every test run) computes s*Fa + d*Fb with the factors of the operator it is registered under, over the pixel primitives of pixman-combine32.h', floor=25)
    ops, N = algebra.operators(P)
    inv = {v: k for k, v in ops.items()}
    S_, u, loops = derive_combine32(P)
    _LOOPS[(u.name, __import__('pxv.build', fromlist=['x']).tree_hash())] = loops
    ss = algebra.slot_stores(S_)
    voc = voc_c()
    n = 0
    decided = set()
    for (un, creator, slot), m in sorted(ss.items()):
        if slot not in ('combine_32', 'combine_32_ca'):
            continue
        ca = slot.endswith('_ca')
        for idx, (fn, x) in sorted(m.items(), key=lambda kv: int(kv[0]) if kv[0].lstrip('-').isdigit() else 0):
            if not idx.lstrip('-').isdigit() or int(idx) not in inv:
                continue
            opname = inv[int(idx)]
            if opname not in algebra.ORACLE:
                continue
            f = u.functions.get(fn)
            if f is None:
                ck.incomplete(R, '%s not found in the derived unit' % fn); continue
            n += 1
            where = '%s[%s] -> %s' % (slot, opname, fn)
            try:
                probs = analyse_combiner(S_, u, voc, f, opname, ca)
            except Unknown as e:
                probs = [('incomplete', str(e))]
            viol = [p for p in probs if p[0] == 'violation']
            inc = [p for p in probs if p[0] == 'incomplete']
            if viol or not probs:
                decided.add(fn)
            if viol:
                ck.violation(R, fn, '%s[%s] (pixman-combine32.c)' % (slot, opname), viol[0][1], 'pixman-combine32.c:%d' % f.line)
            elif inc:
                ck.note('C01-R4 not analysed: %s: %s' % (where, inc[0][1]))
            elif probs and probs[0][0] == 'skip':
                ck.ok(R, where + ' (' + probs[0][1] + ')')
            else:
                ck.ok(R, where)
    if n < 20:
        ck.incomplete(R, 'only %d Porter-Duff C combiners found' % n)
    return decided


# ------------------------------------------------------------------------------------------ C02-R10: composite fast-path bodies
def _info_role(f, o, depth=0, seen=None):
    """roles {'s','m','d'} of a pixel pointer built from info->{src,mask,dest}_image->bits.bits (through phis and pointer arithmetic)"""
    if seen is None:
        seen = set()
    out = set()
    if depth > 30:
        return {'?'}
    x = f.v(f.strip_casts(o))
    if x is None:
        return {'?'}
    if x.i in seen:
        return out
    seen.add(x.i)
    if x.op == 'getelementptr':
        return _info_role(f, x.a[0], depth + 1, seen)
    if x.op in ('phi', 'select'):
        for a in (x.a if x.op == 'phi' else x.a[1:]):
            out |= _info_role(f, a, depth + 1, seen)
        return out
    if x.op == 'load':
        p = f.path(x.a[0])
        fl = f.fields_of(p)
        if fl and fl[-1] == 'bits_image.bits':
            for q in fl:
                if q.startswith('pixman_composite_info_t.') and q.endswith('_image'):
                    return {{'src': 's', 'mask': 'm', 'dest': 'd'}[q.split('.')[1][:-6]]}
        # scanline iterators: iter->bits is the current source row, iter->buffer the scanline being produced
        if fl and fl[-1] == 'pixman_iter_t.bits':
            return {'s'}
        if fl and fl[-1] == 'pixman_iter_t.buffer':
            return {'d'}
        return {'?'}
    if x.op == 'alloca':
        return {('local', f.name, x.i)}
    return {'?'}


class RExec(Exec):
    """Exec for composite routines: pixel pointers get their role from the info structure they were derived from"""

    def val(self, o):
        v = Exec.val(self, o)
        if v is None and o[0] == 'v':
            x = self.f.by_id[o[1]]
            if x.ty.endswith('*'):
                roles = _info_role(self.f, o)
                if len(roles) == 1 and '?' not in roles:
                    return Ptr(next(iter(roles)))
        return v

    def call(self, x):
        comb = getattr(self, 'combiner_ops', {}).get(x.callee)
        if comb is not None and len(x.a) >= 5:
            opname, ca = comb
            pd, ps, pm = self.val(x.a[2]), self.val(x.a[3]), self.val(x.a[4])
            if not (isinstance(pd, Ptr) and pd.role == 'd' and isinstance(ps, Ptr) and ps.role == 's' and isinstance(pm, Ptr)):
                raise Unknown('combiner %s called with untracked pointers' % x.callee)
            E = expected(opname, ca)
            if E is None:
                raise Unknown('combiner %s has clamped factors' % x.callee)
            if pm.role == 'm' and not ca:
                E = sympy.expand(E.subs({S: S * MA, SA: SA * MA}, simultaneous=True))
            elif pm.role is not None and pm.role != 'm':
                raise Unknown('combiner mask pointer role')
            self.writes.append(('d', E)); self.env[x.i] = None; return
        if x.callee == '_pixman_image_get_solid' and len(x.a) >= 2:
            y = self.f.v(self.f.strip_casts(x.a[1]))
            role = None
            if y is not None and y.op == 'load':
                lf = self.f.last_field(self.f.path(y.a[0]))
                role = {'pixman_composite_info_t.src_image': S, 'pixman_composite_info_t.mask_image': M}.get(lf)
            if role is None:
                raise Unknown('solid colour of an unidentified image')
            self.env[x.i] = role; return
        return Exec.call(self, x)


def r10_composite_bodies(ck, P):
    P0 = P
    R = ck.rule('C02-R10', 'composite fast-path routines whose bodies are written in the helper vocabulary compute the Porter-Duff result of the operator/opacity of every table entry they are registered for (shortcut branches included)', floor=93)
    from . import tables
    C = __import__('pxv.consts', fromlist=['x']).fast_path_flags()
    ops, N = algebra.operators(P)
    inv = {v: k for k, v in ops.items()}
    names = tables.format_names(P)
    any_, solid, null = C['PIXMAN_any'], C['PIXMAN_solid'], C['PIXMAN_null']
    analysed = 0; skipped = defaultdict(int); skipped_fns = {}
    done = {}
    for u, g, t in tables.composite_tables(P):
        if u.name not in ('pixman-mmx.c', 'pixman-sse2.c', 'pixman-fast-path.c'):
            continue
        if u.name == 'pixman-fast-path.c':
            # the portable C fast paths: executed over the derived header that makes the UN8x4_* primitives opaque
            P, u, loops = derive_combine32(P0, 'pixman-fast-path.c')
            voc = voc_cfast()
        else:
            P = P0
            voc = voc_sse2() if u.name == 'pixman-sse2.c' else voc_mmx()
            loops = _loops_of(u)
        comb_ops = {}
        for (un2, creator, slot), m2 in algebra.slot_stores(P).items():
            if un2 == u.name and slot in ('combine_32', 'combine_32_ca'):
                for i2, (cf, x2) in m2.items():
                    if i2.lstrip('-').isdigit() and int(i2) in inv:
                        comb_ops[cf] = (inv[int(i2)], slot.endswith('_ca'))
        for idx, e in enumerate(t):
            fn = tables.fname(e['func'])
            if not fn or e['op'] not in inv or inv[e['op']] not in algebra.ORACLE:
                continue
            if e['src_flags'] & (C['FAST_PATH_SCALE_TRANSFORM'] | C['FAST_PATH_ROTATE_90_TRANSFORM'] | C['FAST_PATH_ROTATE_270_TRANSFORM']):
                continue            # transformed variants: geometry, not operator arithmetic
            opname = inv[e['op']]
            f = u.functions.get(fn)
            if f is None:
                continue
            # only identity-transform entries over direct pixels: scaled/rotated variants share the pixel kernels
            ca = bool(e['mask_flags'] & C['FAST_PATH_COMPONENT_ALPHA'])
            if e['src_format'] in (any_, C['PIXMAN_pixbuf'], C['PIXMAN_rpixbuf']) or e['dest_format'] == any_:
                continue
            has_mask = e['mask_format'] != null
            src_noalpha = e['src_format'] not in (solid,) and tables.fmt_info(e['src_format'])['a'] == 0
            dst_noalpha = tables.fmt_info(e['dest_format'])['a'] == 0
            msk_fmt = e['mask_format']
            key = (u.name, fn, opname, ca, has_mask, src_noalpha, dst_noalpha, msk_fmt == solid)
            if key in done:
                continue
            E = expected(opname, ca)
            if E is None:
                continue
            base = {}
            fmt_sub = {}
            if src_noalpha:
                fmt_sub[S] = force_opaque(S); fmt_sub[SA] = sympy.Integer(1)    # an alpha-less source reads as opaque whatever its x bits hold
            if dst_noalpha:
                fmt_sub[D] = force_opaque(D); fmt_sub[DA] = sympy.Integer(1)
            if e['src_format'] != solid and tables.fmt_info(e['src_format'])['type'] == 1:
                base.update(_gens(S - SA))          # alpha-only source: its single channel is its alpha
            if has_mask and msk_fmt != solid and tables.fmt_info(msk_fmt)['type'] == 1:
                base.update(_gens(M - MA))          # alpha-only mask
            proj = None
            if tables.fmt_info(e['dest_format'])['type'] == 1:
                base.update(_gens(D - DA))
                proj = dict(ALPHA)                  # an alpha-only destination stores only the alpha channel of the result
            Es = E
            if has_mask and not ca:
                Es = sympy.expand(E.subs({S: S * MA, SA: SA * MA}, simultaneous=True))
            if fmt_sub:
                Es = sympy.expand(Es.subs(fmt_sub, simultaneous=True))
            where = '%s[%d] %s (%s %s, mask %s -> %s)' % (g['name'], idx, fn, opname, names.get(e['src_format'], 'solid' if e['src_format'] == solid else hex(e['src_format'])), names.get(msk_fmt, 'solid' if msk_fmt == solid else 'none' if msk_fmt == null else hex(msk_fmt)), names.get(e['dest_format']))
            probs = []; nloops = 0
            try:
                ls = [L for L in loops.get(fn, []) if not any(l2['parent'] == L['header'] for l2 in loops.get(fn, []))]
                if not ls:
                    raise Unknown('no pixel loop')
                for L in ls + _tail_regions(f, loops.get(fn, [])):
                    ex = RExec(P, u, voc, has_mask); ex.loop_header = None; ex.combiner_ops = comb_ops; ex.base = base
                    ex.solid_syms = ({S, SA} if e['src_format'] == solid else set()) | ({M, MA} if msk_fmt == solid else set())
                    ex.mask_bits = has_mask and msk_fmt not in (solid, null) and tables.fmt_info(msk_fmt)['bpp'] == 1
                    pre = ex.prefix_states(f, [None, None], L['header'])
                    mb = ex.mask_bits
                    ex = RExec(P, u, voc, has_mask); ex.loop_header = L.get('end', L['header']); ex.combiner_ops = comb_ops; ex.base = base; ex.mask_bits = mb
                    ex.init_states = pre
                    try:
                        res = ex.run_paths(f, [None, None], region=set(L['blocks']), start=L['header'])
                    except Unknown:
                        if 'end' in L:
                            continue            # a conditional outside the pixel loops that the vocabulary cannot execute: not a pixel region
                        raise
                    if 'end' in L and not any(r == 'd' for assum, rv, writes, notes, _m in res for r, v in writes):
                        continue
                    wrote = False
                    for assum, rv, writes, notes, _m in res:
                        vals = [v for r, v in writes if r == 'd']
                        if vals:
                            wrote = True
                        for a2, got, n2 in [c_ for v_ in (vals or [D]) for c_ in _expand_cases(v_)]:
                            sub = dict(base); sub.update(assum); sub.update(a2)
                            if got is None or not _is_expr(got):
                                raise Unknown('a value written is not expressible in the helper vocabulary')
                            if proj:
                                ch = [proj]
                            elif dst_noalpha:
                                ch = [{ACH: 0}]                                   # the x bits of the destination are not observable
                            else:
                                ch = [{ACH: 0}, ALPHA]
                            pairs = [(sympy.expand(got).subs(c_, simultaneous=True), sympy.expand(Es).subs(c_, simultaneous=True)) for c_ in ch]
                            if not all(vanishes(g_ - w_, sub) or _saturated(g_, w_, sub) for g_, w_ in pairs):
                                if notes or n2:
                                    raise Unknown('shortcut under a condition the rule does not interpret')
                                probs.append('%s (loop at block %s) writes %s%s; %s%s requires %s' % (fn, L['header'], got, (' when ' + _asm(sub)) if sub else '', opname, ' with a unified mask' if has_mask and not ca else '', '%s in the colour channels%s' % (sympy.expand(Es.subs(ACH, 0)), '' if dst_noalpha else ' and %s in alpha' % sympy.expand(Es.subs(ALPHA, simultaneous=True))) if Es.has(ACH) else Es))
                    if wrote:
                        nloops += 1
                if nloops == 0:
                    raise Unknown('no loop writes the destination')
                # returns taken before any pixel loop under a condition on the solid source/mask: the destination stays as it was
                ex = RExec(P, u, voc, has_mask); ex.loop_header = None; ex.combiner_ops = comb_ops; ex.base = base; ex.mask_bits = False
                ex.solid_syms = ({S, SA} if e['src_format'] == solid else set()) | ({M, MA} if msk_fmt == solid else set())
                for assum, touched in ex.early_returns(f, [None, None], {L['header'] for L in loops.get(fn, [])}):
                    a_in = {k: v for k, v in assum.items() if getattr(k, 'free_symbols', set()) and getattr(k, 'free_symbols', set()) <= ex.solid_syms}
                    if not a_in or touched:
                        continue
                    sub = dict(base); sub.update(a_in)
                    if proj:
                        ch = [proj]
                    elif dst_noalpha:
                        ch = [{ACH: 0}]
                    else:
                        ch = [{ACH: 0}, ALPHA]
                    pairs = [(sympy.expand(D).subs(c_, simultaneous=True), sympy.expand(Es).subs(c_, simultaneous=True)) for c_ in ch]
                    if not all(vanishes(g_ - w_, sub) or _saturated(g_, w_, sub) for g_, w_ in pairs):
                        probs.append('%s returns before its pixel loops when %s, leaving the destination unchanged; %s%s then requires %s' % (fn, _asm(a_in), opname, ' with a unified mask' if has_mask and not ca else '', sympy.expand(Es.subs(ACH, 0))))
            except Unknown as ex_:
                done[key] = 'skip'; skipped[str(ex_)[:70]] += 1; skipped_fns.setdefault(str(ex_)[:70], []).append(fn)
                continue
            done[key] = 'ok'
            analysed += 1; ck.saw(f)
            if probs:
                ck.violation(R, fn, 'body of %s for %s' % (fn, opname), probs[0], '%s table %s entry %d' % (u.name, g['name'], idx))
            else:
                ck.ok(R, where)
    ck.r10_skipped = skipped_fns
    ck.note('C02-R10: %d routine/operator combinations analysed; not analysable with the vocabulary: %s' % (analysed, dict(skipped)))


def r10f_simd_fetchers(ck, P, rid='C10-R8'):
    """the SIMD scanline fetchers of alpha-less formats deliver every pixel opaque, in every loop (head, vector body, tail)"""
    from . import tables
    R = ck.rule(rid, 'every loop (head, vector body, tail) of the MMX/SSE2 scanline fetchers registered for x8r8g8b8 / r5g6b5 writes the source pixel with its alpha forced to 1: an alpha-less format reads as opaque whichever of the loops handles the pixel', floor=4)
    names = tables.format_names(P)
    n = 0; skipped = []
    for u, g, t in tables.iter_tables(P):
        if u.name not in ('pixman-mmx.c', 'pixman-sse2.c'):
            continue
        voc = voc_sse2() if u.name == 'pixman-sse2.c' else voc_mmx()
        loops = _loops_of(u)
        for idx, e in enumerate(t):
            fn = tables.fname(e['get_scanline'])
            f = u.functions.get(fn) if fn else None
            if f is None or 'fetch' not in fn:
                continue
            fi = tables.fmt_info(e['format'])
            if fi['a'] != 0 or fi['type'] == 1:
                continue                                # formats with alpha (or alpha only): nothing to force
            want = force_opaque(S)
            probs = []; nl = 0
            try:
                ls = [L for L in loops.get(fn, []) if not any(l2['parent'] == L['header'] for l2 in loops.get(fn, []))]
                for L in ls:
                    ex = RExec(P, u, voc, False); ex.loop_header = None; ex.base = {}; ex.solid_syms = set(); ex.mask_bits = False
                    pre = ex.prefix_states(f, [None, None], L['header'])
                    ex = RExec(P, u, voc, False); ex.loop_header = L['header']; ex.base = {}; ex.mask_bits = False
                    ex.init_states = pre
                    res = ex.run_paths(f, [None, None], region=set(L['blocks']), start=L['header'])
                    for assum, rv, writes, notes, _m in res:
                        vals = [v for r, v in writes if r == 'd']
                        for v in vals:
                            for a2, got, n2 in _expand_cases(v):
                                if got is None or not _is_expr(got):
                                    raise Unknown('a value written is not expressible in the helper vocabulary')
                                nl += 1
                                d_ = sympy.expand(got - want)
                                if not (vanishes(d_.subs(ACH, 0), {}) and vanishes(d_.subs(ALPHA, simultaneous=True), {})):
                                    probs.append('%s (loop at block %s) writes %s; a %s pixel must be delivered as %s in the colour channels and 1 in alpha' % (fn, L['header'], got, names.get(e['format']), S))
                if nl == 0:
                    raise Unknown('no loop writes the scanline')
            except Unknown as ex_:
                skipped.append('%s: %s' % (fn, ex_)); continue
            n += 1; ck.saw(f)
            if probs:
                ck.violation(R, fn, 'fetcher body for %s' % names.get(e['format']), probs[0], '%s table %s entry %d' % (u.name, g['name'], idx))
            else:
                ck.ok(R, '%s[%d] %s (%s): %d written values, all opaque copies of the source' % (g['name'], idx, fn, names.get(e['format']), nl))
    if skipped:
        ck.note('%s not analysed: %s' % (rid, skipped))


def _scanline_callees(u, F, depth=3):
    """scanline helpers (not the *_wrapper thunks) that a scaled fast-path main function reaches through direct calls"""
    out = []; seen = set(); work = [(F, 0)]
    while work:
        f, d = work.pop()
        if f.name in seen or d > depth:
            continue
        seen.add(f.name)
        for c in f.calls():
            g = u.functions.get(c.callee) if isinstance(c.callee, str) else None
            if g is None:
                continue
            if 'scanline' in g.name and not g.name.endswith('_wrapper'):
                out.append(g)
            else:
                work.append((g, d + 1))
    return out


def r10s_scaled_scanlines(ck, P):
    """the per-scanline kernels of the scaled nearest-neighbour fast paths"""
    P0 = P
    R = ck.rule('C02-R10s', 'the scanline kernels of the scaled nearest-neighbour fast paths (SSE2, MMX and the portable C ones) write, in every pixel loop and on every shortcut branch, the Porter-Duff result of the operator and formats of the table entries whose main loop calls them (the source pixel is whichever one the stepping selects; its position is C08\'s concern)', floor=45)
    from . import tables
    C = __import__('pxv.consts', fromlist=['x']).fast_path_flags()
    ops, N = algebra.operators(P)
    inv = {v: k for k, v in ops.items()}
    names = tables.format_names(P)
    any_, solid, null = C['PIXMAN_any'], C['PIXMAN_solid'], C['PIXMAN_null']
    done = {}; skipped = {}
    analysed = 0
    for u, g, t in tables.composite_tables(P0):
        if u.name not in ('pixman-mmx.c', 'pixman-sse2.c', 'pixman-fast-path.c'):
            continue
        if u.name == 'pixman-fast-path.c':
            P, u, loops = derive_combine32(P0, 'pixman-fast-path.c'); voc = voc_cfast()
        else:
            P = P0; voc = voc_sse2() if u.name == 'pixman-sse2.c' else voc_mmx(); loops = _loops_of(u)
        for idx, e in enumerate(t):
            fn = tables.fname(e['func'])
            F = u.functions.get(fn) if fn else None
            if F is None or e['op'] not in inv or inv[e['op']] not in algebra.ORACLE or not ('scaled_nearest' in fn or 'scaled_bilinear' in fn):
                continue
            opname = inv[e['op']]
            if e['src_format'] in (any_,) or e['dest_format'] == any_:
                continue
            has_mask = e['mask_format'] != null
            ca = bool(e['mask_flags'] & C['FAST_PATH_COMPONENT_ALPHA'])
            src_noalpha = e['src_format'] != solid and tables.fmt_info(e['src_format'])['a'] == 0
            dst_noalpha = tables.fmt_info(e['dest_format'])['a'] == 0
            msk_fmt = e['mask_format']
            for sf in _scanline_callees(u, F):
                key = (u.name, sf.name, opname, has_mask, src_noalpha, dst_noalpha, msk_fmt == solid)
                if key in done:
                    continue
                E = expected(opname, ca)
                if E is None:
                    continue
                base = {}; fmt_sub = {}
                if src_noalpha:
                    fmt_sub[S] = force_opaque(S); fmt_sub[SA] = sympy.Integer(1)
                if dst_noalpha:
                    fmt_sub[D] = force_opaque(D); fmt_sub[DA] = sympy.Integer(1)
                if has_mask and msk_fmt != solid and tables.fmt_info(msk_fmt)['type'] == 1:
                    base.update(_gens(M - MA))
                Es = E
                if has_mask and not ca:
                    Es = sympy.expand(E.subs({S: S * MA, SA: SA * MA}, simultaneous=True))
                if fmt_sub:
                    Es = sympy.expand(Es.subs(fmt_sub, simultaneous=True))
                argvals = []
                for pn, pt in sf.params:
                    role = {'pd': 'd', 'dst': 'd', 'ps': 's', 'src': 's', 'src_top': 's', 'src_bottom': 's', 'pm': 'm', 'mask': 'm'}.get(pn or '')
                    argvals.append(Ptr(role) if (role and pt.endswith('*')) else None)
                if not any(isinstance(a, Ptr) and a.role == 'd' for a in argvals) or not any(isinstance(a, Ptr) and a.role == 's' for a in argvals):
                    done[key] = 'skip'; skipped[sf.name] = 'parameters dst/src not recognised'; continue
                probs = []; nl = 0
                try:
                    ls = [L for L in loops.get(sf.name, []) if L['parent'] == -1]       # the pixel loops of a scanline kernel are its top-level loops (coordinate wrapping loops nest inside)
                    if not ls:
                        raise Unknown('no pixel loop')
                    for L in ls:
                        ex = RExec(P, u, voc, has_mask); ex.loop_header = None; ex.base = base; ex.mask_bits = False
                        ex.solid_syms = ({M, MA} if msk_fmt == solid else set())
                        pre = ex.prefix_states(sf, argvals, L['header'])
                        ex = RExec(P, u, voc, has_mask); ex.loop_header = L['header']; ex.base = base; ex.mask_bits = False
                        ex.init_states = pre; ex.path_limit = 6000
                        res = ex.run_paths(sf, argvals, region=set(L['blocks']), start=L['header'])
                        wrote = False
                        for assum, rv, writes, notes, _m in res:
                            vals = [v for r, v in writes if r == 'd']
                            if vals:
                                wrote = True
                            for a2, got, n2 in [c_ for v_ in (vals or [D]) for c_ in _expand_cases(v_)]:
                                sub = dict(base); sub.update(assum); sub.update(a2)
                                if got is None or not _is_expr(got):
                                    raise Unknown('a value written is not expressible in the helper vocabulary')
                                ch = [{ACH: 0}] if dst_noalpha else [{ACH: 0}, ALPHA]
                                pairs = [(sympy.expand(got).subs(c_, simultaneous=True), sympy.expand(Es).subs(c_, simultaneous=True)) for c_ in ch]
                                if not all(vanishes(g_ - w_, sub) or _saturated(g_, w_, sub) for g_, w_ in pairs):
                                    if notes or n2:
                                        raise Unknown('shortcut under a condition the rule does not interpret')
                                    probs.append('%s (loop at block %s) writes %s%s; %s%s requires %s' % (sf.name, L['header'], got, (' when ' + _asm(sub)) if sub else '', opname, ' with a unified mask' if has_mask and not ca else '', sympy.expand(Es.subs(ACH, 0))))
                        if wrote:
                            nl += 1
                    if nl == 0:
                        raise Unknown('no loop writes the destination')
                except Unknown as ex_:
                    done[key] = 'skip'; skipped[sf.name] = str(ex_)[:80]; continue
                done[key] = 'ok'; analysed += 1; ck.saw(sf)
                where = '%s[%d] %s -> %s (%s %s, mask %s -> %s)' % (g['name'], idx, fn, sf.name, opname, names.get(e['src_format']), names.get(msk_fmt, 'solid' if msk_fmt == solid else 'none'), names.get(e['dest_format']))
                if probs:
                    ck.violation(R, sf.name, 'scanline kernel of %s for %s' % (sf.name, opname), probs[0], '%s table %s entry %d' % (u.name, g['name'], idx))
                else:
                    ck.ok(R, where)
    ck.note('C02-R10s: %d scanline kernel/operator/format combinations analysed; not analysable: %s' % (analysed, skipped))


def r21_mmx_lane_consistency(ck, P, rid='C02-R21'):
    """sibling agreement between the two pixels of an MMX register: pack8888 (lo, hi) re-assembles two pixels; everything that went into
    `lo` was expanded from lane 0 of its registers and everything that went into `hi` from lane 1."""
    from .. import build, facts as _facts
    R = ck.rule(rid, 'in the MMX fast paths, the first argument of every pack8888 is computed only from lane 0 (expand8888 / expandx888 (v, 0)) and the second only from lane 1 of the registers it reads: a pixel is combined with its own destination and mask, not with its neighbour\'s', floor=14)
    if 'pixman-mmx.c' not in P.units:
        ck.incomplete(R, 'pixman-mmx.c is not part of the build'); return
    PS = _facts.Program(build.library_facts('S', only={'pixman-mmx.c'}))
    u = PS.units['pixman-mmx.c']
    n = 0
    for fn, f in sorted(u.functions.items()):
        for c in f.calls('pack8888'):
            res = []
            for k in (0, 1):
                seen = set(); work = [c.a[k]]; pos = {}
                while work:
                    o = work.pop()
                    if o[0] != 'v' or o[1] in seen:
                        continue
                    seen.add(o[1]); x = f.by_id[o[1]]
                    if x.op == 'call' and x.callee in ('expand8888', 'expandx888') and len(x.a) == 2 and x.a[1][0] == 'c':
                        pos.setdefault(int(x.a[1][1]), x); continue
                    if x.op in ('load', 'phi'):
                        continue
                    work.extend(a for a in x.a if a)
                res.append(pos)
            if not res[0] and not res[1]:
                continue
            n += 1; ck.saw(f)
            wrong = [(k, p_, x) for k in (0, 1) for p_, x in res[k].items() if p_ != k]
            if wrong:
                k, p_, x = wrong[0]
                ck.violation(R, fn, 'pack8888 at %s' % c.loc(), '%s assembles pixel %d of a pair from a value expanded from lane %d (%s at %s): that pixel is combined with the destination (or source) of its neighbour, so one pixel in every block differs from what every other implementation of the operation computes' % (fn, k, p_, x.callee, x.loc()), x.loc())
            else:
                ck.ok(R, '%s: pack8888 at %s' % (fn, c.loc()))
    if n == 0:
        ck.incomplete(R, 'no pack8888 call with lane-expanded inputs found')


def r27_opacity_test_on_unpacked_pixel(ck, P, rid='C02-R27'):
    """T-TYP (representation typestate over the scalar-replaced IR of the MMX unit): an __m64 holds either one pixel in 16 bits per channel
    (what load8888 / expand / unpack produce and over / in / pix_multiply work on) or packed pixels (what memory, pack8888 and
    _mm_packs_pu16 produce).  is_opaque() looks at byte 6 - the alpha of the unpacked form, the red byte of a packed pair."""
    from .. import build, facts as _facts
    R = ck.rule(rid, 'in pixman-mmx.c every argument of is_opaque is a pixel in the unpacked (16 bits per channel) representation - it derives, through phis and casts, from load8888 / expand8888 / expandx888 / expand565 / an unpack with zero / one of the unpacked arithmetic helpers - and never from a packed value (_mm_packs_pu16, pack8888, a plain 64-bit load): byte 6 of a packed pair of pixels is the red channel of the second pixel', floor=3)
    if 'pixman-mmx.c' not in P.units:
        raise AnalysisBroken('%s: pixman-mmx.c is not part of the build' % rid)
    PS = _facts.Program(build.library_facts('S', only={'pixman-mmx.c'}))
    u = PS.units['pixman-mmx.c']
    UNPACKED = {'load8888', 'load8888u', 'expand8888', 'expandx888', 'expand565', 'expand4444', 'expand_alpha', 'expand_alpha_rev', 'invert_colors', 'over', 'over_rev_non_pre', 'in', 'in_over', 'pix_multiply', 'pix_add', 'pix_add_mul', 'negate', '_mm_unpacklo_pi8', '_mm_unpackhi_pi8'}
    PACKED = {'_mm_packs_pu16', 'pack8888', 'load', 'ldq_u', '_mm_cvtsi32_si64', 'to_m64', 'pack_565', '_mm_packs_pi16', '_mm_packs_pi32'}
    n = 0
    for fn, f in sorted(u.functions.items()):
        for c in f.calls('is_opaque'):
            n += 1; ck.saw(f)
            verdict = None; why = None
            seen = set(); work = [c.a[0]]
            while work and verdict is None:
                o = work.pop()
                y = f.v(o) if o and o[0] == 'v' else None
                if y is None or y.i in seen:
                    continue
                seen.add(y.i)
                if y.op in ('bitcast', 'freeze'):
                    work.append(y.a[0])
                elif y.op in ('phi', 'select'):
                    work.extend(a for a in (y.a if y.op == 'phi' else y.a[1:]) if a and a[0] == 'v')
                elif y.op == 'call' and y.callee in PACKED:
                    verdict = False; why = y
                elif y.op == 'call' and y.callee in UNPACKED:
                    continue
                elif y.op == 'load':
                    verdict = False; why = y
                else:
                    continue
            where = '%s: is_opaque at %s' % (fn, c.loc())
            if verdict is False:
                ck.violation(R, fn, 'is_opaque of a packed value at %s' % c.loc(), '%s applies is_opaque at %s to a value that comes from %s (%s), i.e. packed pixels: byte 6, which the test looks at, is then the red channel of a pixel and not its alpha, so a translucent pixel with red 0xff passes for opaque and is stored unblended' % (fn, c.loc(), why.callee if why.op == 'call' else 'a 64-bit load', why.loc()), c.loc())
            else:
                ck.ok(R, where, 'unpacked')
    if n == 0:
        raise AnalysisBroken('%s: no call of is_opaque found in pixman-mmx.c' % rid)
