"""C11-R9 — T-ALG: sign handling around the unsigned 128-bit division is two's-complement negation of the (hi, lo) pair."""
import sympy
from ..build import AnalysisBroken


def _paths(f, s, e, limit=400):
    out = []; stack = [(s, [s])]
    while stack and len(out) < limit:
        b, p = stack.pop()
        if b == e and len(p) > 1 or (b == e and s == e):
            out.append(p)
            if s == e:
                continue
        if b == e and len(p) > 1:
            continue
        for n in f.blocks[b].succ:
            if n in p:
                continue
            stack.append((n, p + [n]))
    return out


def r9_negate_128(ck, P):
    R = ck.rule('C11-R9', 'around the unsigned 128-by-48-bit division the signed wrapper negates the (hi, lo) dividend and the (hi, lo) quotient as one 128-bit two\'s-complement number: on every path that negates the low word, the high word becomes -hi - 1 when the low word is non-zero and -hi when it is zero (the carry out of the low word), and on every other path both words are unchanged', floor=2)
    u = P.units.get('pixman-matrix.c')
    if u is None:
        raise AnalysisBroken('pixman-matrix.c not compiled')
    n = 0
    for fn, f in sorted(u.functions.items()):
        for c in f.calls():
            g = u.functions.get(c.callee) if c.callee else None
            if g is None or g is f or len(c.a) != 4 or [t for _, t in g.params] != ['i64', 'i64', 'i64', 'i64*'] or [t for _, t in f.params] != ['i64', 'i64', 'i64', 'i64*']:
                continue
            ck.saw(f)
            slot = c.a[3]                      # where the callee leaves the high word of the quotient
            H, L, RH, RL = sympy.symbols('hi lo qhi qlo')

            def run(path, mem0, start_after=None):
                env = {}; mem = mem0; cons = {}
                def ev(o):
                    if o[0] == 'c':
                        return sympy.Integer(int(o[1]))
                    if o[0] == 'a':
                        return {0: H, 1: L}.get(o[1], sympy.Symbol('p%d' % o[1]))
                    if o[0] != 'v':
                        return None
                    if o[1] in env:
                        return env[o[1]]
                    x = f.by_id[o[1]]
                    if x.op in ('add', 'sub'):
                        a, b = ev(x.a[0]), ev(x.a[1])
                        return None if a is None or b is None else (a + b if x.op == 'add' else a - b)
                    if x.op == 'xor':
                        a, b = ev(x.a[0]), ev(x.a[1])
                        if b == -1:
                            return None if a is None else -a - 1
                        if a == -1:
                            return None if b is None else -b - 1
                        return None
                    if x.op in ('sext', 'zext', 'trunc', 'freeze'):
                        return None
                    return None
                started = start_after is None
                prev = None
                for bi, b in enumerate(path):
                    for x in f.blocks[b].insts:
                        if not started:
                            if x is start_after:
                                started = True; env[x.i] = RL; mem = RH
                            continue
                        if x.op == 'phi':
                            for a, bb in zip(x.a, x.d['bb']):
                                if bb == prev:
                                    env[x.i] = ev(a)
                        elif x.op == 'load' and x.a[0] == slot:
                            env[x.i] = mem
                        elif x.op == 'store' and x.a[1] == slot:
                            mem = ev(x.a[0])
                        elif x.op == 'call' and x is c:
                            return env, mem, cons, ev
                    t = f.blocks[b].term
                    if started and t.op == 'br' and t.a and bi + 1 < len(path):
                        cc = f.v(t.a[0])
                        if cc is not None and cc.op == 'icmp' and cc.d['p'] in ('eq', 'ne'):
                            a, z = ev(cc.a[0]), ev(cc.a[1])
                            if z is not None and z == 0 and a is not None and a.free_symbols and len(a.free_symbols) == 1:
                                sym = next(iter(a.free_symbols))
                                taken_true = t.d['succ'][0] == path[bi + 1]
                                nonzero = (cc.d['p'] == 'ne') == taken_true
                                cons[sym] = 'nz' if nonzero else 'z'
                    prev = b
                return env, mem, cons, ev

            def judge(what, hi_new, lo_new, hsym, lsym, cons, loc):
                nonlocal n
                if hi_new is None or lo_new is None:
                    ck.incomplete(R, '%s in %s: a word of the pair is not an affine expression of its old value' % (what, fn)); return False
                if sympy.expand(lo_new - lsym) == 0:
                    if sympy.expand(hi_new - hsym) != 0:
                        ck.violation(R, fn, what, '%s: on a path that leaves the low word unchanged the high word becomes %s' % (what, hi_new), loc); return False
                    return True
                if sympy.expand(lo_new + lsym) != 0:
                    ck.incomplete(R, '%s in %s: low word becomes %s' % (what, fn, lo_new)); return False
                k = cons.get(lsym)
                want = {'nz': [-hsym - 1], 'z': [-hsym], None: [-hsym - 1, -hsym]}[k]
                for w_ in want:
                    if sympy.expand(hi_new - w_) != 0:
                        case = {'nz': 'the low word is non-zero', 'z': 'the low word is zero', None: 'nothing is known about the low word (the path does not test it)'}[k]
                        ck.violation(R, fn, what, '%s: the low word is negated and, where %s, the high word becomes %s instead of %s: the carry between the two halves of the 128-bit negation is lost, so the magnitude handed on is off by 2^64' % (what, case, hi_new, w_), loc)
                        return False
                return True

            # dividend: from the entry to the call
            ok = True; np_ = 0
            for p in _paths(f, 0, c.bb.id):
                env, mem, cons, ev = run(p, sympy.Symbol('slot0'))
                np_ += 1
                ok = judge('dividend handed to %s' % g.name, ev(c.a[0]), ev(c.a[1]), H, L, cons, c.loc()) and ok
                if not ok:
                    break
            if ok and np_:
                n += 1; ck.ok(R, '%s: dividend pair on %d paths to the call of %s' % (fn, np_, g.name))
            # quotient: from the call to every return
            ok = True; nq = 0
            for r_ in f.rets():
                for p in _paths(f, c.bb.id, r_.bb.id):
                    env, mem, cons, ev = run(p, None, start_after=c)
                    nq += 1
                    ok = judge('quotient returned by %s' % fn, mem, ev(r_.a[0]) if r_.a else None, RH, RL, cons, r_.loc()) and ok
                    if not ok:
                        break
            if ok and nq:
                n += 1; ck.ok(R, '%s: quotient pair on %d paths from the call of %s' % (fn, nq, g.name))
    if n == 0:
        ck.incomplete(R, 'no signed wrapper around an unsigned (i64, i64, i64, i64*) division found in pixman-matrix.c')
