"""Trapezoid rules: C12-R1 (sample grid witnesses), C04-R7 / C12-R2 (edge clamps), C03-R5 (shortcut guard), C12-R6 (extents coverage)."""
from collections import defaultdict
from ..build import AnalysisBroken
from .. import consts
from . import common


def r1_sample_grid(ck, P):
    R = ck.rule('C12-R1', 'the sub-pixel sample grid partitions the pixel and saturates exactly: N_X*N_Y == MAX_ALPHA, (N-1)*SMALL + BIG == 1.0, FIRST + (N-1)*SMALL == LAST < 1.0', floor=19)
    names = []
    for n in (1, 4, 8):
        for m in ('MAX_ALPHA', 'N_Y_FRAC', 'N_X_FRAC', 'STEP_Y_SMALL', 'STEP_Y_BIG', 'Y_FRAC_FIRST', 'Y_FRAC_LAST', 'STEP_X_SMALL', 'STEP_X_BIG', 'X_FRAC_FIRST', 'X_FRAC_LAST'):
            names.append('%s(%d)' % (m, n))
    # the consts shim needs identifiers: wrap
    pre = '\n'.join('#define PXW_%s_%d %s(%d)' % (m, n, m, n) for n in (1, 4, 8) for m in ('MAX_ALPHA', 'N_Y_FRAC', 'N_X_FRAC', 'STEP_Y_SMALL', 'STEP_Y_BIG', 'Y_FRAC_FIRST', 'Y_FRAC_LAST', 'STEP_X_SMALL', 'STEP_X_BIG', 'X_FRAC_FIRST', 'X_FRAC_LAST'))
    pre += '\n#define PXW_ONE pixman_fixed_1\n#define PXW_RSX0_4 RENDER_SAMPLES_X(0,4)\n#define PXW_RSX0_8 RENDER_SAMPLES_X(0,8)\n#define PXW_RSXM_4 RENDER_SAMPLES_X(pixman_fixed_1-1,4)\n#define PXW_RSXM_8 RENDER_SAMPLES_X(pixman_fixed_1-1,8)\n'
    ids = ['PXW_%s_%d' % (m, n) for n in (1, 4, 8) for m in ('MAX_ALPHA', 'N_Y_FRAC', 'N_X_FRAC', 'STEP_Y_SMALL', 'STEP_Y_BIG', 'Y_FRAC_FIRST', 'Y_FRAC_LAST', 'STEP_X_SMALL', 'STEP_X_BIG', 'X_FRAC_FIRST', 'X_FRAC_LAST')] + ['PXW_ONE', 'PXW_RSX0_4', 'PXW_RSX0_8', 'PXW_RSXM_4', 'PXW_RSXM_8']
    src_pre = '#include "pixman-private.h"\n' + pre
    C = consts.get(ids, includes=(), pre=src_pre)
    one = C['PXW_ONE']
    def v(m, n):
        return C['PXW_%s_%d' % (m, n)]
    def chk(cond, what, detail):
        if cond:
            ck.ok(R, what)
        else:
            ck.violation(R, 'sample grid macros', what, detail, 'pixman-private.h')
    for n in (1, 4, 8):
        chk(v('N_X_FRAC', n) * v('N_Y_FRAC', n) == v('MAX_ALPHA', n), 'n=%d: N_X_FRAC*N_Y_FRAC == MAX_ALPHA' % n,
            'depth %d: %d x %d samples per pixel but full coverage is %d: a fully covered pixel does not saturate exactly' % (n, v('N_X_FRAC', n), v('N_Y_FRAC', n), v('MAX_ALPHA', n)))
        for ax in 'YX':
            N = v('N_%s_FRAC' % ax, n); sm = v('STEP_%s_SMALL' % ax, n); bg = v('STEP_%s_BIG' % ax, n); fi = v('%s_FRAC_FIRST' % ax, n); la = v('%s_FRAC_LAST' % ax, n)
            chk((N - 1) * sm + bg == one, 'n=%d %s: (N-1)*SMALL + BIG == 1.0' % (n, ax), 'depth %d %s: steps (%d x %d + %d) do not add up to one pixel (%d): sample rows drift across pixels' % (n, ax, N - 1, sm, bg, one))
            chk(fi + (N - 1) * sm == la and 0 < fi and la < one, 'n=%d %s: 0 < FIRST, FIRST + (N-1)*SMALL == LAST < 1.0' % (n, ax), 'depth %d %s: first %d last %d small %d N %d: the sample positions do not lie inside the pixel' % (n, ax, fi, la, sm, N))
    for n in (4, 8):
        chk(C['PXW_RSX0_%d' % n] == 0, 'n=%d: RENDER_SAMPLES_X(0) == 0' % n, 'an edge at the left pixel border already counts %d samples' % C['PXW_RSX0_%d' % n])
        chk(C['PXW_RSXM_%d' % n] == v('N_X_FRAC', n), 'n=%d: RENDER_SAMPLES_X(1.0 - e) == N_X_FRAC' % n, 'an edge at the right pixel border counts %d of %d samples' % (C['PXW_RSXM_%d' % n], v('N_X_FRAC', n)))


def rasterisers(P):
    """functions that form a row address from bits.bits in the edge units"""
    out = []
    for un in ('pixman-edge.c', 'pixman-edge-accessors.c'):
        u = P.units.get(un)
        if u is None:
            raise AnalysisBroken(un + ' not compiled')
        for f in u.functions.values():
            for x in f.insts():
                if x.op == 'getelementptr':
                    y = f.v(f.strip_casts(x.a[0]))
                    if y is not None and y.op == 'load' and f.last_field(f.path(y.a[0])) == 'bits_image.bits':
                        out.append(f); break
    if len(out) < 6:
        raise AnalysisBroken('expected six edge rasterisers (1/4/8 bpp x 2 instantiations), found %d' % len(out))
    return out


def r7_edge_clamps(ck, P):
    R = ck.rule('C04-R7', 'each edge rasteriser clamps the left coordinate at 0 and the right one at bits.width, and touches a row only where rx > lx', floor=18)
    for f in rasterisers(P):
        ck.saw(f)
        lx = rx = None; rx_value_ok = True
        for x in f.insts():
            if x.op != 'phi' or len(x.a) != 2:
                continue
            for i in (0, 1):
                clamp, raw = x.a[i], x.a[1 - i]
                rat = f.atoms(raw)
                if ('field', 'pixman_edge.x') not in rat:
                    continue
                if len({a for a in rat if a[0] == 'argmem'}) != 1:
                    continue        # a value mixing both edges (span length) is not an edge coordinate
                # the block the clamped value comes from is entered by a branch comparing the raw value
                src_bb = x.d['bb'][i]
                for p in [src_bb] + f.blocks[src_bb].pred:
                    t = f.blocks[p].term
                    if t.op != 'br' or not t.a:
                        continue
                    c = f.v(t.a[0])
                    if c is None or c.op != 'icmp':
                        continue
                    if clamp[0] == 'c' and clamp[1] == 0 and c.pred == 'slt' and c.a[1][0] == 'c' and c.a[1][1] == 0 and f.strip_casts(c.a[0]) == f.strip_casts(raw):
                        lx = x
                    cats = f.atoms(t.a[0])
                    if ('field', 'bits_image.width') in f.atoms(clamp) and c.pred in ('sge', 'sgt') and ('field', 'bits_image.width') in cats and ('field', 'pixman_edge.x') in cats:
                        # the comparison must be exactly int(raw) >= width (width itself, not width + k)
                        w_op = f.v(f.strip_casts(c.a[1]))
                        l_op = f.v(f.strip_casts(c.a[0]))
                        exact = c.pred == 'sge' and w_op is not None and w_op.op == 'load' and f.last_field(f.path(w_op.a[0])) == 'bits_image.width' \
                            and l_op is not None and l_op.op == 'ashr' and l_op.a[1][0] == 'c' and l_op.a[1][1] == 16 and f.strip_casts(l_op.a[0]) == f.strip_casts(raw)
                        if exact:
                            rx = x
                            # the value substituted: width itself for 1-bit masks, the last sub-pixel position of the last pixel (width - e)
                            # for deeper masks, whose trailing partial-coverage update would otherwise read-modify-write the byte after the row
                            cv = f.v(f.strip_casts(clamp))
                            minus_e = cv is not None and ((cv.op == 'sub' and cv.a[1][0] == 'c' and int(cv.a[1][1]) == 1) or (cv.op == 'add' and cv.a[1][0] == 'c' and int(cv.a[1][1]) == -1))
                            deep = not f.name.rstrip('_accessors').endswith('_1') and not f.name.endswith('edges_1')
                            rx_value_ok = minus_e if deep else True
        if lx is not None:
            ck.ok(R, '%s/%s: left coordinate clamped at 0' % (f.unit.name, f.name))
        else:
            ck.violation(R, f.name, 'left clamp (%s)' % f.unit.name, '%s does not clamp a negative left edge coordinate to 0: pixels before the row start are written' % f.name, '%s:%d' % (f.unit.name, f.line))
        if rx is not None and not rx_value_ok:
            ck.violation(R, f.name, 'right clamp value (%s)' % f.unit.name, '%s clamps the right coordinate to the first position after the row instead of the last position inside it (width - 1/65536): the partial-coverage update of the right end then reads and rewrites the pixel after the scanline - another image\'s byte when rows or sub-images are adjacent' % f.name, rx.loc())
        elif rx is not None:
            ck.ok(R, '%s/%s: right coordinate clamped at bits.width' % (f.unit.name, f.name))
        else:
            ck.violation(R, f.name, 'right clamp (%s)' % f.unit.name, '%s does not clamp the right edge coordinate to the image width: pixels past the row end are written' % f.name, '%s:%d' % (f.unit.name, f.line))
        if lx is None or rx is None:
            continue
        # every write through the row pointer is guarded by rx > lx
        writes = []
        for x in f.insts():
            if x.op == 'store':
                rs = common.roots(f, x.a[1])
                p = f.path(x.a[1])
                if any(r[0] == 'arg' and r[1] == 0 for r in rs) and not f.last_field(p):
                    writes.append(x)
            elif x.op == 'call' and x.callee is None and 'callee' in x.d:
                y = f.v(x.d['callee'])
                if y is not None and y.op == 'load' and f.last_field(f.path(y.a[0])) == 'bits_image.write_func':
                    writes.append(x)
            elif x.op == 'call' and x.callee and (x.callee.startswith('llvm.memset') or x.callee == 'memset'):
                writes.append(x)
        bad = None; why = ''
        for w in writes:
            addr = w.a[1] if w.op == 'store' else w.a[0]
            # (i) no unclamped edge coordinate reaches the address: slice stops at the clamp phis
            ats = f.atoms(addr, True, {lx.i, rx.i})
            if ('field', 'pixman_edge.x') in ats:
                bad = w; why = 'forms its address from an edge coordinate that bypasses the 0/width clamps'; break
            # (ii) a direct use of the clamped coordinates (not carried over from an earlier iteration) is under rx > lx
            direct = f.atoms(addr, False)
            if ('phi', lx.i) in direct or ('phi', rx.i) in direct:
                g = False
                for br, succ in f.guard_edges(w.bb.id):
                    c = f.v(br.a[0]) if br.a else None
                    if c is not None and c.op == 'icmp' and c.pred in ('sgt', 'slt'):
                        ops = {tuple(f.strip_casts(o)) for o in c.a}
                        if ops == {('v', lx.i), ('v', rx.i)}:
                            want_true = (c.pred == 'sgt') == (tuple(f.strip_casts(c.a[0])) == ('v', rx.i))
                            if (br.d['succ'][0] == succ) == want_true:
                                g = True
                if not g:
                    bad = w; why = 'uses the span coordinates outside the rx > lx test'; break
        if not writes:
            ck.incomplete(R, '%s: no row write recognised' % f.name)
        elif bad is None:
            ck.ok(R, '%s/%s: %d row writes use clamped coordinates, direct uses under rx > lx' % (f.unit.name, f.name, len(writes)))
        else:
            ck.violation(R, f.name, 'row write (%s)' % f.unit.name, '%s %s' % (f.name, why), bad.loc())


def r5_trap_shortcut(ck, P):
    R = ck.rule('C03-R5', 'the direct-rasterise shortcut of pixman_composite_trapezoids is taken only for ADD, an opaque source, a mask format equal to the destination\'s, an unclipped destination and a source without an effective clip', floor=1)
    f = P.fn('pixman_composite_trapezoids'); ck.saw(f)
    C = consts.fast_path_flags()
    add = P.enum_const('PIXMAN_OP_ADD')
    calls = [c for c in f.calls('pixman_rasterize_trapezoid') if any(r == ('arg', 2) for r in common.roots(f, c.a[0]))]
    if not calls:
        ck.incomplete(R, 'no direct rasterisation of the destination in pixman_composite_trapezoids (shortcut removed?)'); return
    for c in calls:
        ats = set(); consts_ = set()
        for br, succ in f.guard_edges(c.bb.id):
            if br.a:
                ats |= f.atoms(br.a[0])
        def excluded_when(root, fields):
            """is the direct call unreachable once the given fields of that image are all non-zero?  (partial evaluation: the
            conditions may be spread over a short-circuit chain that no single edge dominates)"""
            def known(x):
                if x.op == 'load' and f.root(f.path(x.a[0])) == root and f.last_field(f.path(x.a[0])) in fields:
                    return 1
                return None
            return not common.reach_under(f, known, {c.bb.id})
        need = {
            'operator == ADD': ('arg', 0) in ats and ('const', add) in ats,
            'source opaque (flags & IS_OPAQUE)': ('field', 'image_common.flags') in ats and ('const', C['FAST_PATH_IS_OPAQUE']) in ats,
            'mask_format == destination format': ('arg', 3) in ats and ('field', 'image_common.extended_format_code') in ats,
            'destination has no clip region': excluded_when(('arg', 2), {'image_common.have_clip_region'}),
            'source has no effective clip (have_clip_region && clip_sources && client_clip)': excluded_when(('arg', 1), {'image_common.have_clip_region', 'image_common.clip_sources', 'image_common.client_clip'}),
        }
        miss = [k for k, v in need.items() if not v]
        if miss:
            ck.violation(R, f.name, 'direct rasterisation shortcut', 'trapezoids are rasterised straight into the destination without requiring: %s — the result differs from compositing through a temporary mask' % '; '.join(miss), c.loc())
        else:
            ck.ok(R, 'shortcut guarded by op, opacity, format and clip')


def r6_trap_extents(ck, P):
    R = ck.rule('C12-R6', 'the trapezoid bounding box folds all four x end points into both minimum (floor) and maximum (ceil), top into y1 and bottom (ceil) into y2', floor=10)
    f = None
    for g in P.units['pixman-trap.c'].functions.values():
        st = [x for x in g.insts() if x.op == 'store' and (g.last_field(g.path(x.a[1])) or '').startswith('pixman_box32.') and ('field', 'pixman_point_fixed.x') in g.atoms(x.a[0])]
        if len(st) >= 4:
            f = g
    if f is None:
        raise AnalysisBroken('trapezoid extents function not found in pixman-trap.c')
    ck.saw(f)
    seen = defaultdict(set)
    for x in f.insts():
        if x.op != 'store':
            continue
        lf = f.last_field(f.path(x.a[1]))
        if not lf or not lf.startswith('pixman_box32.'):
            continue
        y = f.v(x.a[0])
        src = None; ceil = False
        e = f.expr(x.a[0])
        s = str(e)
        # the loaded trapezoid field(s)
        flds = tuple(q for q in _loaded_fields(f, x.a[0]))
        if not flds:
            continue
        ceil = '65535' in s
        # guard: comparison with the current box member of the right sense
        seen[lf.split('.')[1]].add((flds, ceil))
    want_x = {('pixman_trapezoid.left', 'pixman_line_fixed.p1', 'pixman_point_fixed.x'), ('pixman_trapezoid.left', 'pixman_line_fixed.p2', 'pixman_point_fixed.x'),
              ('pixman_trapezoid.right', 'pixman_line_fixed.p1', 'pixman_point_fixed.x'), ('pixman_trapezoid.right', 'pixman_line_fixed.p2', 'pixman_point_fixed.x')}
    for m, ceil in (('x1', False), ('x2', True)):
        got = {fl for fl, c in seen.get(m, ()) if c == ceil}
        for w in sorted(want_x):
            nm = '.'.join(q.split('.')[1] for q in w)
            if w in got:
                ck.ok(R, 'box.%s folds %s%s' % (m, nm, ' (ceil)' if ceil else ''))
            else:
                ck.violation(R, f.name, 'box.%s vs %s' % (m, nm), 'the bounding box %s ignores %s%s: part of a trapezoid lies outside the temporary mask and is cut off' % (m, nm, ' rounded up' if ceil else ''), '%s:%d' % (f.unit.name, f.line))
    for m, fld, ceil in (('y1', ('pixman_trapezoid.top',), False), ('y2', ('pixman_trapezoid.bottom',), True)):
        if (fld, ceil) in seen.get(m, ()):
            ck.ok(R, 'box.%s folds %s' % (m, fld[0].split('.')[1]))
        else:
            ck.violation(R, f.name, 'box.' + m, 'the bounding box %s is not computed from %s%s' % (m, fld[0].split('.')[1], ' rounded up' if ceil else ''), '%s:%d' % (f.unit.name, f.line))


def _loaded_fields(f, o, depth=0):
    x = f.v(o)
    if x is None or depth > 10:
        return ()
    if x.op == 'load':
        return tuple(q for q in f.path(x.a[0])[1] if '.' in q and not q.startswith(('+', '[')))
    for a in x.a:
        r = _loaded_fields(f, a, depth + 1)
        if r:
            return r
    return ()


def r7_error_term_width(ck, P):
    """T-WID: the Bresenham error term of an edge is 48.16; quotients of it are formed before any narrowing"""
    R = ck.rule('C12-R7', 'every division or remainder whose dividend derives from the 64-bit edge error term (ne) is computed at 64 bits: no truncation sits between the error term and the division, so that steps of |n*dx| >= 2^31 move the edge by the exact number of pixels', floor=3)
    u = P.units.get('pixman-trap.c')
    n = 0
    for f in (u.functions.values() if u else []):
        ne = {x.i for x in f.insts() if x.dv == 'ne' and x.ty == 'i64'}
        if not ne:
            continue
        memo = {}

        def from_ne(o, d=0):
            """(derives from ne, narrowed on the way)"""
            if o[0] != 'v' or d > 20:
                return (False, False)
            if o[1] in memo:
                return memo[o[1]]
            memo[o[1]] = (False, False)
            x = f.by_id[o[1]]
            if x.i in ne:
                r = (True, False)
            elif x.op in ('trunc',):
                a = from_ne(x.a[0], d + 1)
                src = f.v(x.a[0])
                r = (a[0], a[1] or (a[0] and src is not None and src.ty == 'i64'))
            elif x.op in ('sub', 'add', 'sext', 'zext', 'phi', 'freeze'):
                rs = [from_ne(a, d + 1) for a in x.a]
                r = (any(q[0] for q in rs), any(q[0] and q[1] for q in rs))
            else:
                r = (False, False)
            memo[o[1]] = r
            return r

        for x in f.insts():
            if x.op not in ('sdiv', 'srem', 'udiv', 'urem'):
                continue
            d_, narrowed = from_ne(x.a[0])
            if not d_:
                continue
            n += 1; ck.saw(f)
            if narrowed or x.ty != 'i64':
                ck.violation(R, f.name, 'error term narrowed before %s' % x.op, '%s truncates the 64-bit error term before dividing it by dy: once |n*dx| reaches 2^31 the quotient, and with it the x position of the edge on every row of the trapezoid, is off by whole pixels' % f.name, x.loc())
            else:
                ck.ok(R, '%s: %s of the error term at 64 bits (%s)' % (f.name, x.op, x.loc()))
    if n == 0:
        ck.incomplete(R, 'no division of the edge error term found in pixman-trap.c')


def r8_fill_count_restart(ck, P):
    """the pending-span accumulator of the a8 rasteriser: after the whole pending span has been written out, its row count restarts"""
    from .factors import _loops_of
    R = ck.rule('C12-R8', 'in the a8 edge rasteriser, on every path on which the whole pending span (fill_end - fill_start pixels, weight fill_size) is written out, the row count fill_size that reaches the next sample row is a constant (1 for the span just started, 0 for none) and never the old count incremented: coverage stays a count of sample rows', floor=2)
    u = P.units.get('pixman-edge.c')
    f = u.functions.get('rasterize_edges_8') if u else None
    if f is None:
        ck.incomplete(R, 'rasterize_edges_8 not found'); return
    ck.saw(f)
    loops = _loops_of(u).get(f.name, [])
    outer = [lp for lp in loops if any(f.by_id[p['v']].dv == 'fill_size' for p in lp['phis'])]
    if len(outer) != 1:
        ck.incomplete(R, 'the sample-row loop carrying fill_size was not recognised'); return
    lp = outer[0]; body = set(lp['blocks']); hdr = lp['header']
    FS = [f.by_id[p['v']] for p in lp['phis'] if f.by_id[p['v']].dv == 'fill_size'][0]
    flushes = []
    for x in f.insts():
        if x.op == 'sub' and x.bb.id in body:
            names = [f.v(o).dv if o[0] == 'v' and f.v(o) is not None else None for o in x.a]
            if names == ['fill_end', 'fill_start']:
                flushes.append(x)
    if not flushes:
        ck.incomplete(R, 'no write-out of the whole pending span found'); return

    def resolve(o, env):
        if o[0] == 'c':
            return ('const', int(o[1]))
        if o[0] == 'v':
            if o[1] in env:
                return env[o[1]]
            if o[1] == FS.i:
                return ('old',)
            x = f.by_id[o[1]]
            if x.op in ('add', 'sub'):
                a, b = resolve(x.a[0], env), resolve(x.a[1], env)
                if a[0] == 'const' and b[0] == 'const':
                    return ('const', a[1] + b[1] if x.op == 'add' else a[1] - b[1])
                return ('derived', a, b)
            if x.op == 'phi':
                return ('unresolved-phi',)
        return ('other',)

    for fl in flushes:
        finals = []; budget = [0]

        def walk(b, prev, env, visited):
            budget[0] += 1
            if budget[0] > 5000:
                return
            env = dict(env)
            for x in f.blocks[b].insts:
                if x.op == 'phi' and prev is not None:
                    for a, bb in zip(x.a, x.d['bb']):
                        if bb == prev:
                            env[x.i] = resolve(a, env)
            for s_ in f.blocks[b].succ:
                if s_ == hdr:
                    inc = [a for a, bb in zip(FS.a, FS.d['bb']) if bb == b]
                    if inc:
                        finals.append(resolve(inc[0], env))
                    continue
                if s_ not in body or (b, s_) in visited:
                    continue
                walk(s_, b, env, visited | {(b, s_)})

        walk(fl.bb.id, None, {}, frozenset())
        bad = [v for v in finals if v[0] != 'const']
        where = 'write-out of the whole pending span at %s' % fl.loc()
        if not finals:
            ck.incomplete(R, '%s: no path to the next sample row found' % where)
        elif bad:
            ck.violation(R, f.name, 'row count after a whole-span write-out', 'after the pending span has been written out with its full weight (%s) the row count can reach the next sample row as its old value plus something instead of being restarted: the new span inherits rows it did not cover and is later added with 2x, 3x ... the weight' % fl.loc(), fl.loc())
        elif any(v[1] not in (0, 1) for v in finals):
            ck.violation(R, f.name, 'row count after a whole-span write-out', 'after the pending span has been written out (%s) the row count reaches the next sample row as %s: the span just started has been covered by exactly one sample row (or there is none: 0), so it is later added with a multiple of its weight' % (fl.loc(), sorted({v[1] for v in finals})), fl.loc())
        else:
            ck.ok(R, where, 'fill_size restarts at %s' % sorted({v[1] for v in finals}))


def r9_edge_step_conservation(ck, P):
    """the Bresenham carry moves x and the error term by amounts that cancel"""
    import sympy
    R = ck.rule('C12-R9', 'on every path of pixman_edge_step the carry applied to the x position and the correction applied to the error term cancel: (x\' - x - n * stepx) * signdx * dy + (e\' - (e + n * dx)) == 0 (with signdx^2 = 1; quotients are opaque): stepping an edge forwards or backwards keeps it on the same line', floor=3)
    f = P.fn('pixman_edge_step', required=False)
    if f is None:
        ck.incomplete(R, 'pixman_edge_step not found'); return
    ck.saw(f)
    sym = {}

    def S(name):
        return sym.setdefault(name, sympy.Symbol(name))

    results = []
    budget = [0]

    def walk(b, prev, env, mem, conds, visited):
        budget[0] += 1
        if budget[0] > 400:
            return
        env = dict(env); mem = dict(mem)

        def val(o):
            if o[0] == 'c':
                return sympy.Integer(int(o[1]))
            if o[0] == 'a':
                return S(f.params[o[1]][0] or 'arg%d' % o[1])
            if o[0] == 'v':
                return env.get(o[1])
            return None

        for x in f.blocks[b].insts:
            if x.op == 'phi':
                for a, bb in zip(x.a, x.d['bb']):
                    if bb == prev:
                        env[x.i] = val(a)
                continue
            if x.op in ('sext', 'zext', 'trunc', 'freeze'):
                env[x.i] = val(x.a[0]); continue
            if x.op == 'load':
                lf = f.last_field(f.path(x.a[0]))
                if lf and f.root(f.path(x.a[0])) == ('arg', 0):
                    nm = lf.split('.')[-1]
                    env[x.i] = mem.get(nm, S(nm))
                continue
            if x.op == 'store':
                lf = f.last_field(f.path(x.a[1]))
                if lf and f.root(f.path(x.a[1])) == ('arg', 0):
                    mem[lf.split('.')[-1]] = val(x.a[0])
                continue
            if x.op in ('add', 'sub', 'mul'):
                a, c = val(x.a[0]), val(x.a[1])
                env[x.i] = None if a is None or c is None else sympy.expand({'add': a + c, 'sub': a - c, 'mul': a * c}[x.op]); continue
            if x.op in ('sdiv', 'udiv', 'srem', 'urem'):
                env[x.i] = S('q%d' % x.i); continue       # an opaque quotient: the law must hold whatever it is
            if x.op == 'ret':
                results.append((dict(mem), list(conds))); return
        for s_ in f.blocks[b].succ:
            if (b, s_) in visited:
                continue
            walk(s_, b, env, mem, conds + [(b, s_)], visited | {(b, s_)})

    walk(0, None, {}, {}, [], frozenset())
    x0, e0, n_, dx, dy, sd = S('x'), S('e'), S('n'), S('dx'), S('dy'), S('signdx')
    seen = set()
    for mem, conds in results:
        x1 = mem.get('x', x0); e1 = mem.get('e', e0)
        if x1 is None or e1 is None:
            ck.incomplete(R, 'a path of pixman_edge_step stores a value the rule cannot express'); continue
        law = sympy.expand((x1 - x0 - n_ * S('stepx')) * sd * dy + (e1 - (e0 + n_ * dx)))
        law = sympy.expand(law.subs(sd ** 2, 1))
        key = (str(x1), str(e1))
        if key in seen:
            continue
        seen.add(key)
        if law == 0:
            ck.ok(R, "path with x' = %s, e' = %s" % (x1, e1))
        else:
            ck.violation(R, f.name, "carry does not cancel (x' = %s)" % x1, "pixman_edge_step has a path that leaves x' = %s and e' = %s: the x carry and the error-term correction do not cancel (residue %s), so the edge leaves its line - a step backwards does not undo a step forwards" % (x1, e1, law), '%s:%d' % (f.unit.name, f.line))
    if not results:
        ck.incomplete(R, 'no path through pixman_edge_step reached a return')


def r10_row_weight_constant(ck, P):
    """sibling agreement with the macro definition: in the a8 rasteriser a span that is fully covered in one sample row gains
    N_X_FRAC(8) per row; the deferred fill multiplies its row count by that same weight at every write-out."""
    R = ck.rule('C12-R10', 'in the a8 edge rasteriser every write-out of the deferred span multiplies the row count (fill_size) by N_X_FRAC (8), the weight a fully covered pixel gains per sample row, so that a pixel covered in all N_Y_FRAC (8) rows reaches exactly the maximum: no write-out uses another constant', floor=20)
    C = consts.get(['PX_NX8', 'PX_NY8'], pre='#define PX_NX8 N_X_FRAC (8)\n#define PX_NY8 N_Y_FRAC (8)')
    nx = int(C['PX_NX8'])
    n = 0
    for un, fn, f in sorted((un_, fn_, f_) for un_, u_ in P.units.items() if un_.startswith('pixman-edge') for fn_, f_ in u_.functions.items()):
        if not fn.startswith('rasterize_edges_8'):
            continue
        ck.saw(f)
        for x in f.insts():
            if x.op != 'mul':
                continue
            k = [a for a in x.a if a[0] == 'c']; v = [a for a in x.a if a[0] != 'c']
            if len(k) != 1 or len(v) != 1:
                continue
            y = f.v(v[0])
            while y is not None and y.op in ('sext', 'zext', 'trunc') and not y.dv:
                y = f.v(y.a[0])
            if y is None or y.dv != 'fill_size':
                continue
            n += 1
            if int(k[0][1]) == nx:
                ck.ok(R, '%s/%s %s: fill_size * %d' % (un, fn, x.loc(), nx))
            else:
                ck.violation(R, fn, 'write-out weight at %s' % x.loc(), '%s writes the deferred span out with weight fill_size * %d; a fully covered pixel gains N_X_FRAC (8) = %d per sample row everywhere else, so the interior of that span ends up lighter (or heavier) than the sum of its rows and a shape no longer equals the sum of its horizontal slices' % (fn, int(k[0][1]), nx), x.loc())
    if n == 0:
        ck.incomplete(R, 'no multiplication of the row count by a constant found in rasterize_edges_8')
    # second clause: which weight goes with which span.  Each saturating-add loop adds a loop-invariant weight to `count` pixels;
    # when the count is the length of the deferred span (it is computed from fill_end / fill_start) the weight is fill_size * N_X_FRAC (8)
    from .factors import _loops_of
    for un, u in sorted(P.units.items()):
        if not un.startswith('pixman-edge'):
            continue
        f = u.functions.get('rasterize_edges_8')
        if f is None:
            continue
        def names(o, d=0, seen=None):
            seen = set() if seen is None else seen
            y = f.v(o)
            if y is None or y.i in seen or d > 8:
                return set()
            seen.add(y.i)
            out = {y.dv} if y.dv else set()
            if y.op in ('load', 'call'):
                return out
            for a in y.a:
                if a and a[0] == 'v':
                    out |= names(a, d + 1, seen)
            return out
        for lp in _loops_of(u).get(f.name, []):
            blocks = set(lp['blocks'])
            cnt = [f.by_id[p['v']] for p in lp['phis'] if not p['ty'].endswith('*') and p.get('step') == -1]
            cur = [f.by_id[p['v']] for p in lp['phis'] if p['ty'].endswith('*')]
            if len(cnt) != 1 or not cur or len(blocks) > 8:
                continue
            init = [a for a, bb in zip(cnt[0].a, cnt[0].d['bb']) if bb not in blocks]
            if not init:
                continue
            # the pixels [start, start + count) lie inside the deferred span [fill_start, fill_end) when they begin at fill_start or
            # end at fill_end (count = fill_end - start); pixels that begin at fill_end or end at fill_start are new to this row
            def nm(o):
                y = f.v(o)
                while y is not None and y.op in ('sext', 'zext', 'trunc') and not y.dv:
                    y = f.v(y.a[0])
                return y.dv if y is not None else None
            c0 = f.v(init[0])
            while c0 is not None and c0.op in ('sext', 'zext', 'trunc'):
                c0 = f.v(c0.a[0])
            if c0 is None or c0.op != 'sub':
                continue
            A, B = nm(c0.a[0]), nm(c0.a[1])
            cinit = [a for a, bb in zip(cur[0].a, cur[0].d['bb']) if bb not in blocks]
            start = None
            if cinit:
                g_ = f.v(cinit[0])
                if g_ is not None and g_.op == 'getelementptr':
                    idx = [st[1] for st in g_.d.get('path', []) if st and st[0] in ('p', 'x') and isinstance(st[1], list) and st[1][0] == 'v']
                    start = nm(idx[-1]) if idx else None
            if start is None or A is None or B is None:
                continue
            if start == 'fill_start' or (A == 'fill_end' and B == start and start != 'fill_start' and B != 'fill_start'):
                deferred = True
            elif start == 'fill_end' or A == 'fill_start':
                deferred = False
            elif A == 'fill_end' and B == 'fill_start':
                deferred = True
            else:
                continue
            # the loop-invariant addend
            val = None
            for b in blocks:
                for x in f.blocks[b].insts:
                    if x.op == 'add':
                        for a in x.a:
                            y = f.v(a)
                            if a[0] == 'c' and int(a[1]) not in (1, -1):
                                val = ('const', int(a[1]), x)
                            elif y is not None and y.bb.id not in blocks and y.op in ('mul', 'trunc', 'zext', 'sext'):
                                val = ('value', names(a), x)
            if val is None:
                continue
            n += 1
            where = '%s/rasterize_edges_8: saturating add loop at block %d (%s span)' % (un, lp['header'], 'deferred' if deferred else 'current row')
            if deferred and not (val[0] == 'value' and 'fill_size' in val[1]):
                ck.violation(R, f.name, 'weight of the deferred span at %s (%s)' % (val[2].loc(), un), 'rasterize_edges_8 writes the deferred span (its length comes from fill_end - fill_start) out with a weight that is not fill_size * N_X_FRAC (8): the rows accumulated in fill_size are lost, the interior of the span is under-covered and a shape no longer equals the sum of its slices', val[2].loc())
            else:
                ck.ok(R, where)


def r14_bottom_clamp_siblings(ck, P, rid='C12-R14'):
    """sibling agreement: pixman_add_traps and pixman_rasterize_trapezoid cut a shape that reaches below the image at the same place - the
    last 16.16 coordinate whose integer part is still a row of the image, (height << 16) - 1; pixman_sample_floor_y then finds the last
    sample row of the last image row."""
    from .sampling import _lin
    R = ck.rule(rid, 'wherever pixman-trap.c replaces a bottom coordinate because its integer part is not below the image height (pixman_fixed_to_int (b) >= height), the replacement is (height << 16) - 1, the largest coordinate inside the last row, in every function that does so: pixman_int_to_fixed (height - 1) is the top of the last row, and the sample rows of that row are lost', floor=2)
    u = P.units.get('pixman-trap.c')
    if u is None:
        raise AnalysisBroken('pixman-trap.c not compiled')
    n = 0
    for fn, f in sorted(u.functions.items()):
        for b in f.blocks:
            t = b.term
            if t.op != 'br' or not t.a:
                continue
            c, p, ops = f.cond(t.a[0])
            if c is None or c.op != 'icmp' or p not in ('sge', 'sgt', 'slt', 'sle'):
                continue
            def height_side(o, scale):
                lo = _lin(f, o) or {}
                for kk, vv in lo.items():
                    if kk != 1 and kk[0] == 'v' and vv == scale:
                        y = f.by_id.get(kk[1])
                        if y is not None and y.op == 'load' and f.last_field(f.path(y.a[0])) == 'bits_image.height' and not (set(lo) - {kk, 1}):
                            return ['v', kk[1]]
                return None
            sh = [o for o in ops if f.v(o) is not None and f.v(o).op == 'ashr' and f.v(o).a[1][0] == 'c' and int(f.v(o).a[1][1]) == 16]
            hs = []
            if len(sh) == 1:
                # the other side: the image height, possibly plus a constant (x >= height is also written x > height - 1)
                hs = [h for h in (height_side(o, 1) for o in ops if o is not sh[0]) if h]
                orig = f.v(sh[0]).a[0]
            elif len(ops) == 2:
                # the same test in the 16.16 domain: b >= pixman_int_to_fixed (height) (+ constant)
                for i_, o in enumerate(ops):
                    h = height_side(o, 65536)
                    if h and ops[1 - i_][0] == 'v' and height_side(ops[1 - i_], 65536) is None:
                        hs.append(h); sh = [ops[1 - i_]]; orig = ops[1 - i_]
            if len(hs) != 1 or len(sh) != 1:
                continue
            # the side on which the coordinate is at or beyond the height
            beyond_is_true = (p in ('sge', 'sgt')) == (ops.index(sh[0]) == 0)
            side = t.d['succ'][0] if beyond_is_true else t.d['succ'][1]
            H = hs[0]
            # the value that replaces the coordinate: the phi operand arriving from that side
            repl = None
            for blk in f.blocks:
                for x in blk.insts:
                    if x.op != 'phi':
                        continue
                    for a, bb in zip(x.a, x.d['bb']):
                        if bb == side or (bb == b.id and blk.id == side):
                            others = [q for q, b2 in zip(x.a, x.d['bb']) if b2 != bb]
                            if any(q == orig for q in others):
                                repl = a
            if repl is None:
                continue
            n += 1; ck.saw(f)
            lf = _lin(f, repl)
            key = ('v', H[1]) if H[0] == 'v' else tuple(H)
            want = {key: 65536, 1: -1}
            where = '%s: bottom replaced at %s' % (fn, t.loc())
            if lf == want:
                ck.ok(R, where, '(height << 16) - 1')
            else:
                def fmt(l):
                    return ' + '.join('%d%s' % (v, '' if k == 1 else '*height' if k == key else '*?') for k, v in sorted((l or {}).items(), key=repr)) or '0'
                ck.violation(R, fn, 'bottom clamp', '%s replaces a bottom coordinate that lies at or below the image height by %s instead of 65536*height - 1: the shape is cut at the top of the last row (or elsewhere), so the sample rows inside the last image row get no coverage and the function disagrees with its sibling for the same shape' % (fn, fmt(lf)), t.loc())
    if n == 0:
        raise AnalysisBroken('%s: no clamp of a bottom coordinate against the image height found in pixman-trap.c' % rid)


def r15_edge_offset_in_wide_type(ck, P, rid='C12-R15'):
    """T-WID: the edge rasterisers add constants to an edge's x coordinate (the a1 rounding offset) before they clip it to the image; an edge
    coordinate may be anywhere in the 16.16 range, so the sum is formed in a type wider than the coordinate."""
    R = ck.rule(rid, 'in the edge rasterisers (pixman-edge.c, pixman-edge-accessors.c) every addition of a non-zero constant to an x coordinate loaded from a pixman_edge_t is performed in 64 bits (the coordinate is widened first): in 32 bits an edge at x >= 32767.5 plus the rounding offset 0x7fff becomes negative, and the span is dropped instead of being clipped to the image', floor=4)
    n = 0
    for un in ('pixman-edge.c', 'pixman-edge-accessors.c'):
        u = P.units.get(un)
        if u is None:
            continue
        for fn, f in sorted(u.functions.items()):
            for x in f.insts():
                if x.op not in ('add', 'sub'):
                    continue
                cs = [a for a in x.a if a[0] == 'c' and int(a[1]) != 0]
                ot = [a for a in x.a if a[0] != 'c']
                if len(cs) != 1 or len(ot) != 1:
                    continue
                y = f.v(f.strip_casts(ot[0]))
                if y is None or y.op != 'load' or f.last_field(f.path(y.a[0])) != 'pixman_edge.x':
                    continue
                n += 1; ck.saw(f)
                where = '%s/%s: %s at %s' % (un, fn, x.op, x.loc())
                if x.ty == 'i64':
                    ck.ok(R, where, '64-bit')
                else:
                    ck.violation(R, fn, 'offset added to an edge coordinate at %s' % x.loc(), '%s adds %d to an edge x coordinate in %s before the coordinate is clipped: for x >= %.5f the sum wraps to a negative value, the "right of left" test fails and the span - including its part inside the image - gets no coverage' % (fn, int(cs[0][1]), x.ty, (0x7fffffff - int(cs[0][1]) + 1) / 65536.0), x.loc())
    if n == 0:
        raise AnalysisBroken('%s: no constant added to a pixman_edge_t x coordinate in the edge rasterisers' % rid)


def r16_full_destination_box_in_trap_space(ck, P, rid='C12-R16'):
    """T-AGR between a helper and its caller: pixman_composite_trapezoids adds the destination offset to the box its extents helper returns
    (the box is in the coordinate space of the trapezoids).  The branch of the helper that answers 'the whole destination' therefore has to
    subtract that offset from the destination's size - which it can only do if the offset is handed to it."""
    from .sampling import _lin
    R = ck.rule(rid, 'the extents helper of pixman_composite_trapezoids returns its box in trapezoid coordinates in both branches: where it stores the destination width / height into the box (operators for which a zero source has an effect), the stored value is width - x_dst (height - y_dst) with the caller\'s destination offset, since the caller composites at x_dst + box.x1: a box (0, 0, width, height) placed at (x_dst, y_dst) leaves the strip left of / above the offset neither cleared nor drawn', floor=2)
    F = P.fn('pixman_composite_trapezoids', required=False)
    if F is None:
        raise AnalysisBroken('%s: pixman_composite_trapezoids not found' % rid)
    xd = [i for i, (pn, pt) in enumerate(F.params) if pn in ('x_dst', 'y_dst')]
    helper = None
    for c in F.calls():
        g = P.resolve(F, c.callee) if c.callee else None
        if g is None or g.unit is not F.unit or g.exported:
            continue
        if any(x.op == 'store' and (g.last_field(g.path(x.a[1])) or '').startswith('pixman_box32.') and g.v(g.strip_casts(x.a[0])) is not None and g.v(g.strip_casts(x.a[0])).op == 'load' and g.last_field(g.path(g.v(g.strip_casts(x.a[0])).a[0])) in ('bits_image.width', 'bits_image.height') for x in g.insts()) or any(x.op == 'store' and (g.last_field(g.path(x.a[1])) or '').startswith('pixman_box32.') and ('field', 'bits_image.width') in g.atoms(x.a[0]) for x in g.insts()):
            helper = (g, c)
    if helper is None or len(xd) != 2:
        raise AnalysisBroken('%s: the extents helper storing the destination size into a box was not found' % rid)
    g, call = helper
    ck.saw(F); ck.saw(g)
    # which helper parameters receive the caller's offsets
    recv = {}
    for k, a in enumerate(call.a):
        if a[0] == 'a' and a[1] in xd:
            recv['x' if F.params[a[1]][0] == 'x_dst' else 'y'] = k
    for x in g.insts():
        if x.op != 'store':
            continue
        lf = g.last_field(g.path(x.a[1])) or ''
        if lf not in ('pixman_box32.x2', 'pixman_box32.y2'):
            continue
        ats = g.atoms(x.a[0])
        dim = 'bits_image.width' if ('field', 'bits_image.width') in ats else 'bits_image.height' if ('field', 'bits_image.height') in ats else None
        if dim is None:
            continue
        axis = 'x' if lf.endswith('x2') else 'y'
        lin = _lin(g, x.a[0]) or {}
        k = recv.get(axis)
        coef = lin.get(('a', k), 0) if k is not None else 0
        where = '%s: box.%s2 from the destination %s at %s' % (g.name, axis, dim.split('.')[1], x.loc())
        if coef == -1:
            ck.ok(R, where, 'minus the destination offset')
        else:
            ck.violation(R, g.name, 'full-destination box.%s2' % axis, '%s stores the destination %s as box.%s2 without subtracting the destination offset (%s), but %s composites the box at %s_dst + box.%s1: for operators where a zero source has an effect and a non-zero offset, the strip of the destination before the offset is neither cleared nor drawn, and the trapezoids are cut at the far side' % (g.name, dim.split('.')[1], axis, 'the helper is not even handed the offset' if k is None else 'coefficient %d' % coef, F.name, axis, axis), x.loc())


def r17_extents_follow_the_lines(ck, P, rid='C12-R17'):
    """T-DEP: a trapezoid is bounded, between its top and bottom, by two *lines*, each given by two points that need not lie on top and
    bottom.  The x extent of the shape is therefore a function of the points *and* of top / bottom (the lines evaluated there); a value
    taken from an end point alone bounds the shape only when that point is not strictly inside (top, bottom)."""
    R = ck.rule(rid, 'in the extents helper of pixman_composite_trapezoids every value folded into box.x1 / box.x2 depends on the trapezoid\'s top or bottom as well as on the points of a line (it is the line evaluated at the top or bottom edge): the x coordinate of an end point alone does not bound a trapezoid whose line end point lies strictly between top and bottom, and the mask route then cuts the shape where the direct route draws it', floor=2)
    F = P.fn('pixman_composite_trapezoids', required=False)
    g = None
    if F is not None:
        for c in F.calls():
            h = P.resolve(F, c.callee) if c.callee else None
            if h is not None and h.unit is F.unit and not h.exported and any(x.op == 'store' and (h.last_field(h.path(x.a[1])) or '') in ('pixman_box32.x1', 'pixman_box32.x2') for x in h.insts()) and any(('field', 'pixman_point_fixed.x') in h.atoms(x.a[0]) for x in h.insts() if x.op == 'store'):
                g = h
    if g is None:
        raise AnalysisBroken('%s: the extents helper folding line points into a box was not found' % rid)
    ck.saw(g)
    n = 0
    for x in g.insts():
        if x.op != 'store':
            continue
        lf = g.last_field(g.path(x.a[1])) or ''
        if lf not in ('pixman_box32.x1', 'pixman_box32.x2'):
            continue
        ats = g.atoms(x.a[0])
        if ('field', 'pixman_point_fixed.x') not in ats:
            continue
        n += 1
        pts = sorted({a[1] for a in ats if a[0] == 'field' and a[1].startswith('pixman_line_fixed.')})
        where = '%s: %s from %s at %s' % (g.name, lf.split('.')[1], '/'.join(pts) or 'a point', x.loc())
        if ('field', 'pixman_trapezoid.top') in ats or ('field', 'pixman_trapezoid.bottom') in ats:
            ck.ok(R, where, 'the line evaluated at an edge')
        else:
            ck.violation(R, g.name, 'box.%s from an end point' % lf.split('.')[1], '%s folds the x coordinate of a line end point into box.%s as it is (%s): when that point lies strictly between the trapezoid\'s top and bottom the line - and the shape - continues beyond it, so the temporary mask of the mask route is too narrow and cuts the trapezoid, while the direct route (and rasterising into a full-size mask) draws all of it' % (g.name, lf.split('.')[1], x.loc()), x.loc())
    if n == 0:
        raise AnalysisBroken('%s: no store of a line point into the box found in %s' % (rid, g.name))


def r18_error_term_interval_is_closed(ck, P, rid='C12-R18'):
    """Interval typestate of the edge walker: pixman_edge_init starts every edge at (x, e = -dy) - the line passes exactly through x -
    and stepping downwards renormalises only when the new error term is > 0, so the error term lives in the closed interval [-dy, 0].
    Stepping upwards must keep the same interval: renormalising already at e == -dy moves an edge that has not moved at all
    (dx == 0, or n * dx == 0) one unit to the left, and a side is then drawn differently when its upper point lies below the first
    sample row."""
    R = ck.rule(rid, 'in pixman_edge_step the carry into x happens only when the advanced error term leaves the closed interval [-dy, 0]: it is compared strictly with both ends (ne > 0 when stepping down, ne < -dy when stepping up); a non-strict test renormalises the start state e = -dy of pixman_edge_init and shifts a vertical (or integer-slope) side by 1/65536 when it is stepped upwards, so the same line is rasterised differently depending on where its defining points lie', floor=2)
    fs = [f for f in P.functions() if f.name == 'pixman_edge_step']
    if not fs:
        raise AnalysisBroken('%s: pixman_edge_step not found' % rid)
    n = 0
    for f in fs:
        ck.saw(f)
        # NE: the 64-bit values whose truncation is stored into pixman_edge.e (the advanced error term, possibly one per direction)
        NEs = set()
        for x in f.insts():
            if x.op == 'store' and f.last_field(f.path(x.a[1])) == 'pixman_edge.e':
                y = f.v(f.strip_casts(x.a[0]))
                if y is not None and y.op in ('add', 'sub') and y.ty == 'i64':
                    NEs.add(y.i)
        # ... and the sums that advance the loaded error term, whether or not they are stored back
        for x in f.insts():
            if x.op in ('add', 'sub') and x.ty == 'i64':
                for a in x.a:
                    y = f.v(f.strip_casts(a)) if a[0] == 'v' else None
                    if y is not None and y.op == 'load' and f.last_field(f.path(y.a[0])) == 'pixman_edge.e':
                        NEs.add(x.i)
        if not NEs:
            raise AnalysisBroken('%s: the advanced error term of pixman_edge_step was not recognised' % rid)
        def lin(o, d=0):
            """value as {'NE': k, 'DY': k, 1: k} or None"""
            if o[0] == 'c':
                return {1: int(o[1])}
            y = f.v(o) if o[0] == 'v' else None
            if y is None or d > 8:
                return None
            if y.i in NEs:
                return {'NE': 1}
            if y.op in ('sext', 'zext', 'trunc'):
                return lin(y.a[0], d + 1)
            if y.op == 'load' and f.last_field(f.path(y.a[0])) == 'pixman_edge.dy':
                return {'DY': 1}
            if y.op in ('add', 'sub'):
                l, r = lin(y.a[0], d + 1), lin(y.a[1], d + 1)
                if l is None or r is None:
                    return None
                out = dict(l)
                for k_, v_ in r.items():
                    out[k_] = out.get(k_, 0) + (v_ if y.op == 'add' else -v_)
                return {k_: v_ for k_, v_ in out.items() if v_}
            return None
        for b in f.blocks:
            t = b.term
            if t.op != 'br' or not t.a:
                continue
            c, p, ops = f.cond(t.a[0])
            if c is None or c.op != 'icmp' or len(ops) != 2 or p not in ('slt', 'sgt', 'sle', 'sge'):
                continue
            sw = {'slt': 'sgt', 'sgt': 'slt', 'sle': 'sge', 'sge': 'sle'}
            l, r = lin(ops[0]), lin(ops[1])
            if l is None or r is None:
                continue
            D = dict(l)
            for k_, v_ in r.items():
                D[k_] = D.get(k_, 0) - v_
            D = {k_: v_ for k_, v_ in D.items() if v_}
            if D.get('NE') == -1:
                D = {k_: -v_ for k_, v_ in D.items()}; p = sw[p]
            # D (p) 0 with D = NE  or  D = NE + DY
            if D == {'NE': 1}:
                end = 'zero'
            elif D == {'NE': 1, 'DY': 1}:
                end = 'neg_dy'
            else:
                continue
            n += 1
            where = '%s: test of the error term against %s at %s' % (f.name, '0' if end == 'zero' else '-dy', t.loc())
            # the side of the branch that contains a store to pixman_edge.e is the renormalising one
            def renorm(bb):
                return any(q.op == 'store' and f.last_field(f.path(q.a[1])) == 'pixman_edge.e' for q in f.blocks[bb].insts)
            on_true = renorm(t.d['succ'][0]); on_false = renorm(t.d['succ'][1])
            eff = p if on_true else f.INV.get(p, p) if on_false else None
            want = 'sgt' if end == 'zero' else 'slt'
            if eff == want:
                ck.ok(R, where, 'strict')
            else:
                ck.violation(R, f.name, 'renormalisation test against %s' % ('0' if end == 'zero' else '-dy'), '%s renormalises its error term when ne %s %s (%s) instead of strictly outside [-dy, 0]: the start state e = -dy (or the end state e = 0) of an edge that has not moved is renormalised, x changes by one unit, and a vertical or integer-slope side is rasterised one 1/65536 further left when it is stepped upwards than when it is stepped downwards' % (f.name, {'sle': '<=', 'sge': '>=', 'slt': '<', 'sgt': '>', None: '?'}.get(eff, eff), '0' if end == 'zero' else '-dy', t.loc()), t.loc())
    if n < 2:
        raise AnalysisBroken('%s: the two renormalisation tests of pixman_edge_step were not both recognised (%d)' % (rid, n))


def r19_zero_source_operators_never_refused(ck, P, rid='C12-R19'):
    """Partial evaluation: for an operator where a zero source changes the destination (the helper consults a constant table indexed by the
    operator), the request covers the whole destination whatever the trapezoids are - also when none of them is valid or their box is
    empty.  Under 'table entry == 0' the extents helper therefore has no path that answers FALSE (nothing to do)."""
    from . import common
    R = ck.rule(rid, 'in the extents helper of pixman_composite_trapezoids, under the assumption that the entry of the zero-source table for the operator is 0 (CLEAR, SRC, IN, OUT, ...: an empty mask still changes the destination), no path reaches a return of FALSE: compositing an all-zero mask with such an operator clears the whole destination, and so must a request whose trapezoids are all degenerate', floor=1)
    F = P.fn('pixman_composite_trapezoids', required=False)
    if F is None:
        raise AnalysisBroken('%s: pixman_composite_trapezoids not found' % rid)
    n = 0
    for c in F.calls():
        g = P.resolve(F, c.callee) if c.callee else None
        if g is None or g.unit is not F.unit or g.exported:
            continue
        tl = [x for x in g.insts() if x.op == 'load' and g.root(g.path(x.a[0]))[0] == 'global' and 'zero_src' in str(g.root(g.path(x.a[0]))[1])]
        if not tl or not any(x.op == 'store' and (g.last_field(g.path(x.a[1])) or '').startswith('pixman_box32.') for x in g.insts()):
            continue
        ck.saw(g)
        rets = g.rets()
        if len(rets) != 1 or not rets[0].a:
            raise AnalysisBroken('%s: %s does not have a single value return' % (rid, g.name))
        rv = g.v(rets[0].a[0]) if rets[0].a[0][0] == 'v' else None
        ids = {x.i for x in tl}
        false_edges = []
        def on_edge(a, b, pv):
            if rv is not None and rv.op == 'phi' and b == rv.bb.id:
                for o, bb in zip(rv.a, rv.d['bb']):
                    if bb == a:
                        val = int(o[1]) if o[0] == 'c' else pv.get(o[1]) if o[0] == 'v' else None
                        if val == 0:
                            false_edges.append(a)
        common.reach_under(g, lambda x: 0 if x.i in ids else None, set(), on_edge=on_edge)
        if rv is None and rets[0].a[0][0] == 'c' and int(rets[0].a[0][1]) == 0:
            false_edges.append(rets[0].bb.id)
        n += 1
        where = '%s: operator with an effect on a zero source' % g.name
        if false_edges:
            blk = g.blocks[false_edges[0]]
            ck.violation(R, g.name, 'FALSE for an operator with a zero-source effect', '%s can answer FALSE (nothing to rasterise) although the operator changes the destination where the source is zero (path through the block ending at %s): a request whose trapezoids are all degenerate, or whose box is empty, returns without touching the destination, where compositing the (all-zero) temporary mask clears all of it' % (g.name, blk.term.loc()), blk.term.loc())
        else:
            ck.ok(R, where, 'always answers the whole destination')
    if n == 0:
        raise AnalysisBroken('%s: no extents helper consulting the zero-source table found' % rid)


def r20_edge_products_in_wide_type(ck, P, rid='C12-R20'):
    """T-WID: the error term of an edge advances by n * dx, n a distance in 16.16 rows and dx up to dy - 1 (also 16.16): the product needs
    up to 62 bits.  Every product of an edge's dx or dy with a non-constant factor is formed in 64 bits."""
    R = ck.rule(rid, 'every multiplication of pixman_edge.dx or pixman_edge.dy by a non-constant factor (the row distance n, the carry count) is performed in 64 bits, the field widened before the multiplication: in 32 bits n * dx wraps as soon as the step is one pixel and dx half a pixel, and the edge starts at an unrelated abscissa', floor=4)
    n = 0
    for f in P.functions():
        for x in f.insts():
            if x.op != 'mul':
                continue
            fld = None
            for a in x.a:
                y = f.v(f.strip_casts(a)) if a[0] == 'v' else None
                if y is not None and y.op == 'load' and f.last_field(f.path(y.a[0])) in ('pixman_edge.dx', 'pixman_edge.dy'):
                    fld = f.last_field(f.path(y.a[0]))
            if fld is None or any(a[0] == 'c' for a in x.a):
                continue
            n += 1; ck.saw(f)
            where = '%s: %s times a variable at %s' % (f.name, fld, x.loc())
            if x.ty == 'i64':
                ck.ok(R, where, 'in 64 bits')
            else:
                ck.violation(R, f.name, 'product with %s' % fld, '%s multiplies %s by a variable factor in %s (%s): the product of a 16.16 row distance and a 16.16 increment does not fit, wraps, and the carry into x computed from it puts the edge at an unrelated abscissa for steps of a pixel and more' % (f.name, fld, x.ty, x.loc()), x.loc())
    if n == 0:
        raise AnalysisBroken('%s: no product with pixman_edge.dx / dy found' % rid)


def r21_raw_rasterisers_consult_the_clip(ck, P, rid='C03-R17'):
    """T-GRD across entry points: the edge rasteriser writes straight into an image's bits.  Every exported function that hands its own
    image parameter to it (directly or through another exported rasterising function) does so only after the image's clip has been
    looked at - pixman_composite_trapezoids takes its direct route under !have_clip_region and otherwise goes through the compositor,
    which clips."""
    R = ck.rule(rid, 'every exported function that passes its own image parameter to the edge rasteriser (pixman_rasterize_edges), or to another exported function that does, has a test of that image\'s have_clip_region among the guards of the call: pixman_add_traps, pixman_add_trapezoids and pixman_rasterize_trapezoid draw outside the destination clip (a 16x16 a8 image with a 4x4 clip: 240 pixels outside it change), where pixman_composite_trapezoids with the same shape changes none', floor=2)
    raw = {g for g in P.functions() if g.name == 'pixman_rasterize_edges'}
    if not raw:
        raise AnalysisBroken('%s: pixman_rasterize_edges not found' % rid)
    n = 0
    changed = True
    sites = []
    while changed:
        changed = False
        for f in common.public_api(P):
            if f in raw:
                continue
            for c in f.calls():
                g = P.resolve(f, c.callee) if isinstance(c.callee, str) else None
                if g not in raw or not c.a or f.strip_casts(c.a[0])[0] != 'a':
                    continue
                k = f.strip_casts(c.a[0])[1]
                guarded = False
                for t, s in f.guard_edges(c.bb.id):
                    if t.a and any(a[0] == 'field' and a[1] == 'image_common.have_clip_region' for a in f.atoms(t.a[0])):
                        guarded = True
                if (f, c.i) not in [(q[0], q[1].i) for q in sites]:
                    sites.append((f, c, k, guarded, g))
                if not guarded and f not in raw:
                    raw.add(f); changed = True
    for f, c, k, guarded, g in sites:
        n += 1; ck.saw(f)
        where = '%s: %s handed to %s at %s' % (f.name, f.params[k][0], g.name, c.loc())
        if guarded:
            ck.ok(R, where, 'under a test of have_clip_region')
        else:
            ck.violation(R, f.name, 'rasterises into %s without consulting its clip' % f.params[k][0], '%s hands its image parameter %s to %s (%s) on a path that has not looked at the image\'s clip region: the shape is rasterised into every row and column of the image it covers, also outside the destination clip (and into the image\'s own bits when it has an alpha map)' % (f.name, f.params[k][0], g.name, c.loc()), c.loc())
    if n == 0:
        raise AnalysisBroken('%s: no exported caller of the edge rasteriser found' % rid)


def r22_flush_covers_the_saved_span(ck, P, rid='C12-R21'):
    """Typestate of the deferred span of the a8 rasteriser (fill_start, fill_end, fill_size): whatever is written out with the saved row
    count belongs to the *saved* span - all of it, its part left of the new span, or its part right of it.  The interval written
    therefore has at least one end at a saved bound; an interval made of the new span's ends only (the bounds were replaced before the
    write-out) puts the pending coverage where the new span is and loses it where the old one was."""
    R = ck.rule(rid, 'in the a8 edge rasteriser (both builds) every write-out whose value multiplies the saved row count fill_size has a length of the form saved bound minus something or something minus saved bound (fill_end - fill_start, lxi - fill_start, fill_end - rxi): never a difference of the current span\'s ends alone', floor=6)
    n = 0
    for f in P.functions():
        if f.unit.name not in ('pixman-edge.c', 'pixman-edge-accessors.c'):
            continue
        saved = {x.i for x in f.insts() if x.dv in ('fill_start', 'fill_end')}
        counts = {x.i for x in f.insts() if x.dv == 'fill_size'}
        if not saved or not counts:
            continue
        for m in f.insts():
            if m.op not in ('mul', 'shl') or not any(a[0] == 'v' and a[1] in counts for a in m.a):
                continue
            subs = [q for q in f.blocks[m.bb.id].insts if q.op == 'sub' and q.ty == 'i32' and not any(a[0] == 'c' for a in q.a)]
            for q in subs:
                n += 1; ck.saw(f)
                where = '%s (%s): write-out at %s' % (f.name, f.unit.name, q.loc())
                if any(a[0] == 'v' and a[1] in saved for a in q.a):
                    ck.ok(R, where, 'anchored at a saved bound')
                else:
                    ck.violation(R, f.name, 'write-out of the saved rows over the new span (%s)' % f.unit.name, '%s writes out fill_size rows of pending coverage over an interval whose length (%s) is computed from the current span alone: the saved bounds were replaced before the write-out, so the coverage collected for the old span is added where the new span lies and never where it belongs - a8 coverage is no longer the count of covered samples' % (f.name, q.loc()), q.loc())
    if n == 0:
        raise AnalysisBroken('%s: no write-out of the deferred span found' % rid)
