"""Image property / lifetime rules: C14 (invalidation), C20 (ownership, reference counts)."""
from collections import defaultdict
from ..build import AnalysisBroken
from . import common
from .threads import param_write_summaries


def image_field(P, f, p):
    """last struct.field of a path if it is a field of an image struct, else None"""
    lf = f.last_field(p)
    if lf and lf.split('.')[0] in common.image_structs(P):
        return lf
    return None


def derived_and_inputs(P):
    if getattr(P, '_di', None) is not None:
        return P._di
    V = common.validate_closure(P)
    IMG = common.image_structs(P)
    derived = set(); loaded = set()
    for f in V:
        for x in f.insts():
            if x.op == 'store':
                lf = image_field(P, f, f.path(x.a[1]))
                if lf:
                    derived.add(lf)
            elif x.op == 'load':
                p = f.path(x.a[0])
                for q in f.fields_of(p):
                    if q.split('.')[0] in IMG:
                        loaded.add(q)
            elif x.op == 'call':
                # address of a field passed to a reader (e.g. &image->common.clip_region)
                for a in x.a:
                    p = f.path(a)
                    if p[0][0] != 'load':
                        lf = image_field(P, f, p)
                        if lf:
                            loaded.add(lf)
    derived.discard('image_common.dirty')
    inputs = loaded - derived - {'image_common.dirty'}
    P._di = (V, derived, inputs)
    return P._di


def fresh_params(P):
    """{Function: set(param idx)} parameters that only ever receive freshly created objects
    (result of an allocation/constructor call in the caller, a stack object, or a fresh parameter of the caller)"""
    if getattr(P, '_fresh', None) is not None:
        return P._fresh
    at = common.address_taken_functions(P)
    callers = defaultdict(list)
    for f in P.functions():
        for c in f.calls():
            g = P.resolve(f, c.callee)
            if g is not None:
                callers[g].append((f, c))
    fresh = defaultdict(set)
    # optimistic start: every pointer param of a non-exported, non-address-taken function with at least one caller
    for f in P.functions():
        if f.exported or f.name in at or not callers.get(f):
            continue
        for i, (n, t) in enumerate(f.params):
            if t.endswith('*'):
                fresh[f].add(i)
    changed = True
    while changed:
        changed = False
        for f in list(fresh):
            for i in list(fresh[f]):
                ok = True
                for (g, c) in callers[f]:
                    if i >= len(c.a):
                        ok = False; break
                    for r in common.roots(g, c.a[i]):
                        if r[0] == 'alloca':
                            continue
                        if r[0] == 'call' and g.path(c.a[i])[0][0] != 'load':
                            # result of a call in the caller: fresh if that callee is an allocator-like function (returns malloc result or a fresh object)
                            if returns_fresh(P, g, r):
                                continue
                            ok = False; break
                        if r[0] == 'arg' and r[1] in fresh.get(g, ()) and g.path(c.a[i])[0][0] != 'load':
                            continue
                        ok = False; break
                    if not ok:
                        break
                if not ok:
                    fresh[f].discard(i); changed = True
    P._fresh = fresh
    return fresh


ALLOCATORS = {'malloc', 'calloc', 'realloc'}


def returns_fresh(P, g, root, depth=0):
    """root = ('call', callee, id) in g: does the callee return a newly allocated object?"""
    name = root[1]
    if name in ALLOCATORS:
        return True
    h = P.resolve(g, name)
    if h is None or depth > 4:
        return False
    ok = False
    for r in h.rets():
        if not r.a:
            return False
        for rr in common.roots(h, r.a[0]):
            if rr[0] == 'null':
                continue
            if rr[0] == 'call' and returns_fresh(P, h, rr, depth + 1):
                ok = True; continue
            return False
    return ok


def is_constructor_store(P, f, x):
    """store x in f targets a freshly created object (constructor context)"""
    fp = fresh_params(P)
    for r in common.roots(f, x.a[1]):
        if r[0] == 'alloca':
            continue
        if r[0] == 'call' and returns_fresh(P, f, r):
            continue
        if r[0] == 'arg' and r[1] in fp.get(f, ()):
            continue
        return False
    return True


def must_dirty(P):
    """functions all of whose paths store non-zero into image_common.dirty of parameter 0"""
    out = set()
    for f in P.functions():
        st = [x for x in common.stores_field(f, 'image_common.dirty') if x.a[0][0] == 'c' and x.a[0][1] != 0]
        if not st:
            continue
        blocks = {x.bb.id for x in st}
        # every path entry -> exit passes one of the blocks
        reach = f.reachable_blocks(0, avoid=blocks)
        if not any(b in reach for b in f.exits()):
            out.add(f)
    return out


def input_writes(P, f, inputs):
    """[(inst, field, kind)] writes of f to INPUT fields: direct stores, memcpy through a pointer field, callee writing through &field"""
    W = param_write_summaries(P)
    out = []
    for x in f.insts():
        if x.op == 'store':
            lf = image_field(P, f, f.path(x.a[1]))
            if lf in inputs:
                out.append((x, lf, 'store'))
        elif x.op == 'call':
            g = P.resolve(f, x.callee)
            for k, a in enumerate(x.a):
                p = f.path(a)
                if p[0][0] == 'load':
                    # pointer loaded from an input field, written through (memcpy into *transform)
                    lf = image_field(P, f, p[0][1]) if not p[1] else None
                    y = f.v(f.strip_casts(a))
                    if y is not None and 'image' in y.ty:
                        lf = None       # pointer to another image object: that object has its own dirty flag
                    if lf in inputs and ((g is None and (x.callee or '').startswith('llvm.mem') and k == 0) or (g is not None and k in W[g])):
                        out.append((x, lf, 'write through'))
                else:
                    lf = image_field(P, f, p)
                    if lf in inputs and p[1] and g is not None and k in W[g]:
                        out.append((x, lf, 'callee writes &field'))
    return out


def r1_inputs_invalidate(ck, P):
    R = ck.rule('C14-R1', 'every write of a field that validate reads (an input), outside constructors and validate, is followed on every path to return by a store of non-zero to common.dirty', floor=12)
    V, derived, inputs = derived_and_inputs(P)
    inputs = set(inputs) | {'image_common.transform', 'image_common.filter_params', 'image_common.clip_region'}
    md = must_dirty(P)
    ck.note('validate closure: %s' % sorted(g.name for g in V))
    ck.note('derived fields: %s' % sorted(derived))
    ck.note('input fields: %s' % sorted(inputs))
    if len(V) < 4 or len(derived) < 5 or len(inputs) < 8:
        ck.incomplete(R, 'validate closure/derived/input sets collapsed (%d/%d/%d)' % (len(V), len(derived), len(inputs)))

    def is_dirty_mark(f):
        def pred(x):
            if x.op == 'store':
                p = f.path(x.a[1])
                return bool(p[1]) and p[1][-1] == 'image_common.dirty' and not (x.a[0][0] == 'c' and x.a[0][1] == 0)
            if x.op == 'call':
                g = P.resolve(f, x.callee)
                return g in md
            return False
        return pred

    for f in P.functions():
        if f in V:
            continue
        ws = input_writes(P, f, inputs)
        if not ws:
            continue
        for x, lf, kind in ws:
            if x.op == 'store' and is_constructor_store(P, f, x):
                continue
            if x.op == 'call' and all(r[0] in ('alloca',) or (r[0] == 'call' and returns_fresh(P, f, r)) or (r[0] == 'arg' and r[1] in fresh_params(P).get(f, ())) for a in x.a for r in common.roots(f, a) if image_field(P, f, f.path(a)) or (f.path(a)[0][0] == 'load')):
                continue
            ck.saw(f)
            bad = f.reach_avoiding(x, is_dirty_mark(f), lambda y: y.op == 'ret')
            desc = '%s %s' % (kind, lf)
            if bad is None:
                ck.ok(R, '%s: %s' % (f.name, desc))
            else:
                ck.violation(R, f.name, desc, '%s changes %s but can return without marking the image dirty: the derived flags/fetchers stay stale and the image renders unlike a fresh one' % (f.name, lf), x.loc())


def r2_derived_only_in_validate(ck, P):
    R = ck.rule('C14-R2', 'derived fields are written only inside the validate closure or on fresh objects; dirty is cleared only by validate, after the recomputation', floor=10)
    V, derived, inputs = derived_and_inputs(P)
    v = common.find_validate(P)
    for f in P.functions():
        for x in f.insts():
            if x.op != 'store':
                continue
            lf = image_field(P, f, f.path(x.a[1]))
            if lf in derived:
                if f in V or is_constructor_store(P, f, x):
                    ck.ok(R, '%s writes %s' % (f.name, lf))
                else:
                    ck.violation(R, f.name, 'store to derived field ' + lf, '%s writes the derived field %s outside validate: the next validate or a clean image will disagree with it' % (f.name, lf), x.loc())
            if lf == 'image_common.dirty' and x.a[0][0] == 'c' and x.a[0][1] == 0:
                if f is not v and not is_constructor_store(P, f, x):
                    ck.violation(R, f.name, 'clears dirty', '%s clears common.dirty without recomputing the derived state' % f.name, x.loc())
    # inside validate: the clearing store is dominated by the recomputation calls
    clear = [x for x in common.stores_field(v, 'image_common.dirty') if x.a[0][0] == 'c' and x.a[0][1] == 0][0]
    recompute = [c for c in v.calls() if c.callee and P.resolve(v, c.callee) in V and c.callee != v.name]
    hook = [c for c in v.calls() if c.callee is None]
    if not recompute:
        ck.violation(R, v.name, 'recomputation', 'validate clears dirty without calling the flag recomputation', clear.loc())
    for c in recompute:
        if v.dominates(c, clear):
            ck.ok(R, 'validate: %s dominates the clearing of dirty' % c.callee)
        else:
            ck.violation(R, v.name, 'order of ' + c.callee, 'dirty is cleared on a path that has not recomputed the image info', clear.loc())
    # the recursion into the alpha map happens for clean owners too: the map has a dirty flag of its own
    for c in v.calls(v.name):
        dep = False
        for br, succ in v.guard_edges(c.bb.id):
            if br.a and ('field', 'image_common.dirty') in v.atoms(br.a[0]):
                dep = True
        if dep:
            ck.violation(R, v.name, 'alpha-map revalidation', 'the alpha map is revalidated only when its owner is dirty: a property change of the map alone leaves it rendering with stale fetchers', c.loc())
        else:
            ck.ok(R, 'validate revalidates the alpha map independently of the owner\'s dirty flag')
    if not any(v.last_field(v.path(v.v(c.d['callee']).a[0])) == 'image_common.property_changed' for c in hook if v.v(c.d['callee']) is not None and v.v(c.d['callee']).op == 'load'):
        ck.violation(R, v.name, 'property_changed hook', 'validate does not invoke the type-specific property_changed hook', clear.loc())
    else:
        ck.ok(R, 'validate invokes property_changed before clearing dirty')


def r3_early_returns(ck, P):
    R = ck.rule('C14-R3', 'a setter path that returns without storing compares every stored parameter with the field it would store into (or is a rejection/refusal that reads no stored parameter)', floor=6)
    V, derived, inputs = derived_and_inputs(P)
    inputs = set(inputs) | {'image_common.transform', 'image_common.filter_params', 'image_common.clip_region'}
    # fields loaded anywhere in the library (a field nobody reads cannot make rendering stale)
    loaded_anywhere = set()
    for f in P.functions():
        for x in f.insts():
            if x.op == 'load':
                loaded_anywhere.update(f.fields_of(f.path(x.a[0])))
    allfields = set(inputs)
    for st in common.image_structs(P):
        try:
            allfields |= {'%s.%s' % (st, n) for n, off, sz, ty in P.struct(st)['fields']}
        except AnalysisBroken:
            pass
    allfields -= {'image_common.dirty', 'image_common.ref_count'}
    for f in common.public_api(P):
        ws = input_writes(P, f, allfields)
        ws = [(x, lf, k) for x, lf, k in ws if any(r == ('arg', 0) for r in common.roots(f, x.a[1] if x.op == 'store' else x.a[0]))]
        if not ws:
            continue
        ck.saw(f)
        wblocks = {x.bb.id for x, _, _ in ws}
        # (param -> field) pairs
        S = set()
        for x, lf, k in ws:
            if x.op == 'store':
                o = f.strip_casts(x.a[0])
                if o[0] == 'a':
                    S.add((o[1], lf))
            else:
                for a in x.a[1:]:
                    o = f.strip_casts(a)
                    if o[0] == 'a':
                        S.add((o[1], lf))
        S = {(k, fl) for k, fl in S if fl in loaded_anywhere}
        can_store = set()
        for b in f.blocks:
            if f.reachable_blocks(b.id) & wblocks:
                can_store.add(b.id)
        rets_from = {b.id for b in f.blocks if any(f.blocks[e].term.op == 'ret' for e in f.reachable_blocks(b.id) if not f.blocks[e].succ)}
        nskip = 0
        for b in f.blocks:
            if b.id not in can_store or len(b.succ) < 2:
                continue
            for s in set(b.succ):
                if s in can_store or s not in rets_from:
                    continue
                # skip edge b -> s
                nskip += 1
                reach_s = f.reachable_blocks(s)
                if any(common.is_log_error_block(f, e) for e in reach_s):
                    ck.ok(R, '%s: rejection path B%d' % (f.name, s)); continue
                own = None
                if b.term.op == 'br' and b.term.a:
                    own = _equality_pair(P, f, f.v(b.term.a[0]), b.term.d['succ'][0] == s)
                # equality returns: gather the whole conjunction; refusals: only the edge's own condition is the reason to skip
                conds = (set(f.control_conditions(b.id)) | {(b.term, s)}) if own else {(b.term, s)}
                eq = set(); reads_param = set(); noneq = []
                for br, succ in conds:
                    if br.op != 'br' or not br.a:
                        noneq.append(br); continue
                    c = f.v(br.a[0])
                    taken_true = br.d['succ'][0] == succ
                    pair = _equality_pair(P, f, c, taken_true)
                    if pair:
                        eq.add(pair)
                    else:
                        # parameters the condition itself looks at; the status of a call that received the parameter (the storing
                        # call failed: nothing was installed) is not a test of the parameter
                        seen_ = set(); work_ = [br.a[0]]
                        while work_:
                            o_ = work_.pop()
                            if o_[0] == 'a':
                                reads_param.add(o_[1]); continue
                            y_ = f.v(o_)
                            if y_ is None or y_.i in seen_ or y_.op == 'call':
                                continue
                            seen_.add(y_.i)
                            if y_.op == 'load':
                                work_.append(y_.a[0]); continue
                            work_.extend(q for q in y_.a if q and q[0] in ('v', 'a'))
                        noneq.append(br)
                # a memcmp that stands for 'the blocks are equal' compares the whole block: its length is the element count times the element size
                partial = None
                for br, succ in conds:
                    if br.op != 'br' or not br.a:
                        continue
                    cc_, pp_, oo_ = f.cond(br.a[0])
                    if cc_ is None or cc_.op != 'icmp' or pp_ not in ('eq', 'ne') or (pp_ == 'eq') != (br.d['succ'][0] == succ):
                        continue
                    for o_ in oo_ or []:
                        y_ = f.v(f.strip_casts(o_)) if o_[0] == 'v' else None
                        if y_ is None or y_.op != 'call' or y_.callee != 'memcmp' or len(y_.a) < 3:
                            continue
                        esz = None; whole = None
                        for a_ in y_.a[:2]:
                            q_ = f.strip_casts(a_)
                            if q_[0] == 'a':
                                ty_ = f.params[q_[1]][1]
                                esz = {'i8*': 1, 'i16*': 2, 'i32*': 4, 'i64*': 8, 'float*': 4, 'double*': 8}.get(ty_)
                                if ty_.startswith('%struct.') and ty_.endswith('*'):
                                    try:
                                        whole = P.struct(ty_[len('%struct.'):-1].split('.')[0])['size']
                                    except Exception:
                                        whole = None
                        if whole is not None:
                            # a structure compared for equality is compared as a whole
                            if y_.a[2][0] == 'c' and int(y_.a[2][1]) < whole:
                                partial = y_
                            continue
                        if not esz or esz == 1:
                            continue
                        l_ = f.v(f.strip_casts(y_.a[2])) if y_.a[2][0] == 'v' else None
                        scaled = l_ is not None and ((l_.op == 'mul' and any(a_[0] == 'c' and int(a_[1]) == esz for a_ in l_.a)) or (l_.op == 'shl' and l_.a[1][0] == 'c' and (1 << int(l_.a[1][1])) == esz))
                        if y_.a[2][0] == 'c' or not scaled:
                            partial = y_
                if partial is not None:
                    ck.violation(R, f.name, 'early return on a partial comparison', '%s returns early when memcmp finds the new block equal to the stored one, but the length it compares (%s) is not the element count times the element size: only a prefix of the parameters is compared, and a block that differs further on is silently dropped' % (f.name, partial.loc()), partial.loc())
                    continue
                if eq:
                    missing = {(k, fl) for k, fl in S if (k, fl) not in eq and k in {q for q, _ in S}}
                    # mode fields the update sets to a constant (have_clip_region = TRUE ...) must already hold it when the update is skipped
                    for x_, lf_, k_ in ws:
                        if x_.op == 'store' and x_.a[0][0] == 'c' and lf_ in loaded_anywhere and lf_ not in ('image_common.dirty',):
                            kval = int(x_.a[0][1]); tested = False
                            for br, succ in conds:
                                if br.op != 'br' or not br.a:
                                    continue
                                cc, pred, ops = f.cond(br.a[0])
                                if cc is None:
                                    continue
                                for o in ops:
                                    y_ = f.v(f.strip_casts(o)) if o[0] == 'v' else None
                                    if y_ is not None and y_.op == 'load' and image_field(P, f, f.path(y_.a[0])) == lf_:
                                        tested = True
                            if not tested:
                                missing.add((-1 - kval, lf_))
                    # only parameters that are stored at all need a comparison; a parameter compared with another field does not count
                    if missing:
                        ck.violation(R, f.name, 'early return on equal ' + ','.join(sorted(fl for _, fl in eq)),
                                     '%s returns early although %s may differ from the stored value: the change is silently dropped' % (f.name, ', '.join(('parameter %s vs %s' % (f.params[k][0], fl)) if k >= 0 else ('%s (set to %d by the update, not tested here)' % (fl, -1 - k)) for k, fl in sorted(missing))), b.term.loc())
                    else:
                        ck.ok(R, '%s: unchanged-value return compares %s' % (f.name, sorted(fl for _, fl in eq)))
                else:
                    stored_params = {k for k, _ in S}
                    bad = reads_param & stored_params
                    # a test of a stored parameter against a constant (NULL) is a mode selection, not an equality
                    bad = {k for k in bad if not _only_null_tests(f, conds, k)}
                    if bad:
                        ck.violation(R, f.name, 'early return B%d' % s, '%s skips the update under a condition on parameter %s that is not an equality with the stored field' % (f.name, [f.params[k][0] for k in bad]), b.term.loc())
                    else:
                        ck.ok(R, '%s: refusal path B%d reads no stored parameter' % (f.name, s))


def _only_null_tests(f, conds, k):
    for br, succ in conds:
        if br.op != 'br' or not br.a:
            continue
        c = f.v(br.a[0])
        if c is None:
            continue
        ats = f.atoms(br.a[0])
        if ('arg', k) in ats:
            if c.op == 'icmp' and any(o[0] == 'n' or (o[0] == 'c') for o in c.a) and f.strip_casts(c.a[0]) == ['a', k]:
                continue
            return False
    return True


def _equality_pair(P, f, c, taken_true):
    """(param idx, field) if the branch asserts param == field on the taken side"""
    if c is None or c.op != 'icmp' or c.pred not in ('eq', 'ne'):
        return None
    sides = [f.strip_casts(o) for o in c.a]
    if (c.pred == 'eq') == taken_true:
        # param == load field
        for i in (0, 1):
            if sides[i][0] == 'a':
                y = f.v(sides[1 - i])
                if y is not None and y.op == 'load':
                    lf = image_field(P, f, f.path(y.a[0]))
                    if lf:
                        return (sides[i][1], lf)
        # memcmp (field pointer, param) == 0
        for i in (0, 1):
            y = f.v(sides[i])
            if y is not None and y.op == 'call' and y.callee == 'memcmp' and sides[1 - i][0] == 'c' and sides[1 - i][1] == 0:
                ptrs = [f.strip_casts(a) for a in y.a[:2]]
                for j in (0, 1):
                    if ptrs[j][0] == 'a':
                        z = f.v(ptrs[1 - j])
                        if z is not None and z.op == 'load':
                            lf = image_field(P, f, f.path(z.a[0]))
                            if lf:
                                return (ptrs[j][1], lf)
    if (c.pred == 'ne') == taken_true:
        # region_equal (&field, param) != 0
        for i in (0, 1):
            y = f.v(sides[i])
            if y is not None and y.op == 'call' and isinstance(y.callee, str) and y.callee.endswith('_equal') and 'region' in y.callee and sides[1 - i][0] == 'c' and int(sides[1 - i][1]) == 0:
                ptrs = [f.strip_casts(a) for a in y.a[:2]]
                for j in (0, 1):
                    if ptrs[j][0] == 'a':
                        lf = image_field(P, f, f.path(ptrs[1 - j]))
                        if lf:
                            return (ptrs[j][1], lf)
    return None


def r5_alpha_count(ck, P):
    R = ck.rule('C14-R5', 'alpha_count moves with the alpha_map reference: increment where the reference is taken, decrement wherever it is dropped', floor=3)
    n = 0
    for f in P.functions():
        for c in f.calls():
            g = P.resolve(f, c.callee)
            if g is None:
                continue
            # dropping the reference: unref(load X.alpha_map)
            if g.name == 'pixman_image_unref' and c.a:
                y = f.v(f.strip_casts(c.a[0]))
                if y is not None and y.op == 'load' and f.last_field(f.path(y.a[0])) == 'image_common.alpha_map':
                    n += 1; ck.saw(f)
                    dec = [s for s in common.stores_field(f, 'image_common.alpha_count') if _is_incdec(f, s, -1) and 'image_common.alpha_map' in f.fields_of(f.path(s.a[1])) and (f.dominates(s, c) or f.dominates(c, s))]
                    if dec:
                        ck.ok(R, '%s: unref of alpha_map paired with alpha_count--' % f.name)
                    else:
                        ck.violation(R, f.name, 'unref of common.alpha_map without alpha_count--', '%s drops the reference on the alpha map without decrementing its alpha_count: the former map is refused as an owner of an alpha map ever after' % f.name, c.loc())
        for s in common.stores_field(f, 'image_common.alpha_map'):
            if s.a[0][0] == 'n' or is_constructor_store(P, f, s):
                continue
            n += 1; ck.saw(f)
            inc = [t for t in common.stores_field(f, 'image_common.alpha_count') if _is_incdec(f, t, 1) and f.dominates(s, t)]
            y = f.v(f.strip_casts(s.a[0]))
            refd = y is not None and y.op == 'call' and y.callee == 'pixman_image_ref'
            if inc and refd:
                ck.ok(R, '%s: alpha_map reference taken with alpha_count++' % f.name)
            else:
                ck.violation(R, f.name, 'store to common.alpha_map', '%s installs an alpha map without %s' % (f.name, 'taking a reference' if not refd else 'incrementing alpha_count'), s.loc())


def _is_incdec(f, s, d):
    y = f.v(s.a[0])
    return y is not None and y.op in ('add', 'sub') and any(o[0] == 'c' and (int(o[1]) == d if y.op == 'add' else int(o[1]) == -d) for o in y.a)


# ------------------------------------------------------------------------------------------- C20
RELEASERS = {'free': 'free', 'pixman_image_unref': 'unref', 'pixman_region32_fini': 'region_fini', 'pixman_region_fini': 'region_fini'}
REGION_INIT = {'pixman_region32_init', 'pixman_region32_copy', 'pixman_region32_init_rect', 'pixman_region32_init_rects', 'pixman_region32_init_with_extents'}


def owned_fields(P):
    """image-struct fields that receive an allocation, a counted reference or an initialised region anywhere in the library"""
    if getattr(P, '_owned', None) is not None:
        return P._owned
    out = {}; notowned = set()
    for f in P.functions():
        for x in f.insts():
            if x.op == 'store':
                lf = image_field(P, f, f.path(x.a[1]))
                if not lf:
                    continue
                kinds = set()
                for r in common.roots(f, x.a[0]):
                    if r[0] == 'null':
                        continue
                    if r[0] == 'call' and f.path(x.a[0])[0][0] != 'load' and r[1] == 'pixman_image_ref':
                        kinds.add('unref')
                    elif r[0] == 'call' and f.path(x.a[0])[0][0] != 'load' and returns_fresh(P, f, r):
                        kinds.add('free')
                    else:
                        kinds.add(None)      # may hold a value the library does not own (caller's buffer)
                if len(kinds) == 1 and None not in kinds:
                    out.setdefault(lf, kinds.pop())
                elif None in kinds and lf in out and ('field', lf) not in f.atoms(x.a[0]):
                    notowned.add(lf)
            elif x.op == 'call' and x.callee in REGION_INIT and x.a:
                p = f.path(x.a[0])
                lf = image_field(P, f, p)
                if lf and p[0][0] != 'load':
                    out[lf] = 'region_fini'
    for lf in notowned:
        out.pop(lf, None)
    P._owned = out
    return out


def find_fini(P):
    """role: the function that decrements image_common.ref_count"""
    c = [f for f in P.functions() if any(_is_incdec(f, s, -1) for s in common.stores_field(f, 'image_common.ref_count'))]
    if len(c) != 1:
        raise AnalysisBroken('expected one function decrementing ref_count, found %s' % [g.name for g in c])
    return c[0]


def in_loop(f, b):
    return b in f.reachable_blocks(b, ()) - {b} or any(b in f.reachable_blocks(s) for s in f.blocks[b].succ)


def r20_1_fini(ck, P):
    R = ck.rule('C20-R1', 'the finaliser releases every owned field exactly once, only when the count reached zero; destroy_func runs at most once and only there; unref frees iff fini said so', floor=8)
    fini = find_fini(P); ck.saw(fini)
    owned = owned_fields(P)
    ck.note('owned fields: %s' % owned)
    if len(owned) < 5:
        ck.incomplete(R, 'owned-field set collapsed: %s' % sorted(owned))
    # the zero test
    zero_edges = set()
    for b in fini.blocks:
        t = b.term
        if t.op == 'br' and t.a:
            c = fini.v(t.a[0])
            if c is not None and c.op == 'icmp' and ('field', 'image_common.ref_count') in fini.atoms(t.a[0]) and ('const', 0) in fini.atoms(t.a[0]):
                zero_edges.add((t, t.d['succ'][0] if c.pred == 'eq' else t.d['succ'][1]))
    if not zero_edges:
        ck.violation(R, fini.name, 'zero test', 'the finaliser does not test ref_count == 0 before releasing', '%s:%d' % (fini.unit.name, fini.line)); return

    def under_zero(x):
        return bool(fini.control_conditions(x.bb.id) & zero_edges)

    rel = defaultdict(list)
    for c in fini.calls():
        kind = RELEASERS.get(c.callee)
        if not kind or not c.a:
            continue
        p = fini.path(c.a[0])
        # free(load field), free(load field +- const), unref(load field), region_fini(&field)
        fld = None
        if p[0][0] == 'load':
            fld = image_field(P, fini, p[0][1])
        else:
            fld = image_field(P, fini, p)
        if fld:
            rel[fld].append((c, kind))
    for fld, kind in sorted(owned.items()):
        rs = rel.get(fld, [])
        if not rs:
            ck.violation(R, fini.name, 'release of ' + fld, 'the finaliser never releases %s (leak when the last reference goes)' % fld, '%s:%d' % (fini.unit.name, fini.line)); continue
        if len(rs) > 1:
            ck.violation(R, fini.name, 'release of ' + fld, '%s is released %d times in the finaliser (double free)' % (fld, len(rs)), rs[1][0].loc()); continue
        c, k = rs[0]
        if k != kind:
            ck.violation(R, fini.name, 'release of ' + fld, '%s is owned as %s but released with %s' % (fld, kind, c.callee), c.loc()); continue
        if not under_zero(c):
            ck.violation(R, fini.name, 'release of ' + fld, '%s is released while other references may remain (not under ref_count == 0)' % fld, c.loc()); continue
        if in_loop(fini, c.bb.id):
            ck.violation(R, fini.name, 'release of ' + fld, '%s is released inside a loop' % fld, c.loc()); continue
        ck.ok(R, 'fini releases %s with %s once, under ref_count == 0' % (fld, c.callee))
    for fld in rel:
        if fld not in owned:
            ck.violation(R, fini.name, 'release of ' + fld, 'the finaliser releases %s, which the library never owns' % fld, rel[fld][0][0].loc())
    # destroy_func
    dcalls = []
    for f in P.functions():
        for c in f.calls():
            if c.callee is None and 'callee' in c.d:
                y = f.v(c.d['callee'])
                if y is not None and y.op == 'load' and f.last_field(f.path(y.a[0])) == 'image_common.destroy_func':
                    dcalls.append((f, c))
    if len(dcalls) == 1 and dcalls[0][0] is fini and under_zero(dcalls[0][1]) and not in_loop(fini, dcalls[0][1].bb.id):
        ck.ok(R, 'destroy_func called once, in fini, under ref_count == 0')
    else:
        ck.violation(R, fini.name, 'destroy_func call', 'destroy_func is called %d times / outside the zero-count branch of the finaliser' % len(dcalls), dcalls[0][1].loc() if dcalls else None)
    # unref frees iff fini returned TRUE; fini returns 1 exactly on the zero branch
    for f in P.functions():
        for c in f.calls(fini.name):
            frees = [q for q in f.calls('free') if q.a and any(r == ('arg', 0) for r in common.roots(f, q.a[0]))]
            if not frees:
                continue
            ck.saw(f)
            for q in frees:
                dep = False
                for br, succ in f.control_conditions(q.bb.id):
                    if br.op == 'br' and br.a:
                        cc = f.v(br.a[0])
                        if cc is not None and cc.op == 'icmp' and any(f.strip_casts(o) == ['v', c.i] for o in cc.a):
                            if (cc.pred == 'ne') == (br.d['succ'][0] == succ):
                                dep = True
                if dep:
                    ck.ok(R, '%s frees the image only when fini returned TRUE' % f.name)
                else:
                    ck.violation(R, f.name, 'free(image)', '%s frees the image without fini having reported the last reference' % f.name, q.loc())
    r = fini.rets()[0]; y = fini.v(r.a[0])
    if y is not None and y.op == 'phi':
        for a, bb in zip(y.a, y.d['bb']):
            uz = bool((fini.control_conditions(bb) | {(fini.blocks[bb].term, y.bb.id)}) & zero_edges)
            if a[0] == 'c' and (a[1] != 0) != uz:
                ck.violation(R, fini.name, 'return value', 'the finaliser returns %d on the %s path' % (a[1], 'zero-count' if uz else 'non-zero-count'), r.loc())
        ck.ok(R, 'fini returns TRUE exactly on the zero-count branch')


def r20_2_overwrite_releases(ck, P):
    R = ck.rule('C20-R2', 'every store to an owned field outside constructors is dominated by a release or null test of the old value, or stores a value derived from the old one', floor=5)
    owned = owned_fields(P)
    for f in P.functions():
        for x in f.insts():
            fld = None; site = None
            if x.op == 'store':
                fld = image_field(P, f, f.path(x.a[1]))
                if fld not in owned or owned[fld] == 'region_fini':
                    continue
                if is_constructor_store(P, f, x):
                    continue
                site = x
            else:
                continue
            ck.saw(f)
            base = f.path(x.a[1])
            ok = None
            # (a) value derived from the old one
            if ('field', fld) in f.atoms(x.a[0]) and x.a[0][0] != 'n':
                ok = 'derived from the old value'
            if not ok:
                # (b) every path from entry to the store passes a release of the old value or the null side of a null test of it
                barrier_blocks = set(); barrier_edges = set()
                for y in f.insts():
                    if y.op == 'call' and y.callee in RELEASERS and y.a:
                        p = f.path(y.a[0])
                        if p[0][0] == 'load' and p[0][1] == base and not p[1]:
                            barrier_blocks.add(y.bb.id)
                    if y.op == 'br' and y.a:
                        c = f.v(y.a[0])
                        if c is not None and c.op == 'icmp' and c.pred in ('eq', 'ne') and any(o[0] == 'n' for o in c.a):
                            other = [o for o in c.a if o[0] != 'n']
                            z = f.v(other[0]) if other else None
                            if z is not None and z.op == 'load' and f.path(z.a[0]) == base:
                                barrier_edges.add((y.bb.id, y.d['succ'][0] if c.pred == 'eq' else y.d['succ'][1]))
                seen = set(); work = [0]; reached = False
                while work:
                    b = work.pop()
                    if b in seen:
                        continue
                    seen.add(b)
                    if b == x.bb.id:
                        reached = True; break
                    if b in barrier_blocks:
                        continue
                    for sx in f.blocks[b].succ:
                        if (b, sx) not in barrier_edges:
                            work.append(sx)
                if x.bb.id in barrier_blocks and any(y.op == 'call' and y.callee in RELEASERS and y.i < x.i for y in x.bb.insts):
                    reached = False
                if not reached and (barrier_blocks or barrier_edges):
                    ok = 'old value released or null on every path'
            if ok:
                ck.ok(R, '%s: store to %s (%s)' % (f.name, fld, ok))
            else:
                ck.violation(R, f.name, 'store to owned field ' + fld, '%s overwrites %s without releasing the previous value (leak)' % (f.name, fld), x.loc())


def r20_3_refcount_writers(ck, P):
    R = ck.rule('C20-R3', 'ref_count is written only as =1 on a fresh object, +1 by the ref function and -1 by the finaliser; an image is freed only on the finaliser\'s word or on a constructor failure path', floor=4)
    fini = find_fini(P)
    for f in P.functions():
        for s in common.stores_field(f, 'image_common.ref_count'):
            ck.saw(f)
            if s.a[0][0] == 'c' and s.a[0][1] == 1 and is_constructor_store(P, f, s):
                ck.ok(R, '%s: ref_count = 1 on a fresh object' % f.name)
            elif _is_incdec(f, s, 1) and f.exported and f.rets() and f.rets()[0].a and f.rets()[0].a[0] == ['a', 0]:
                ck.ok(R, '%s: ref_count++ and returns the image' % f.name)
            elif _is_incdec(f, s, -1) and f is fini:
                ck.ok(R, '%s: ref_count--' % f.name)
            else:
                ck.violation(R, f.name, 'store to ref_count', '%s writes ref_count outside the init/ref/fini protocol' % f.name, s.loc())
        for q in f.calls('free'):
            if not q.a:
                continue
            y = f.v(q.a[0])
            t = None
            o = f.strip_casts(q.a[0])
            src = f.v(o)
            ty = (src.ty if src is not None else (f.params[o[1]][1] if o[0] == 'a' else ''))
            if 'pixman_image' not in ty:
                continue
            ck.saw(f)
            rs = common.roots(f, q.a[0])
            if all((r[0] == 'call' and returns_fresh(P, f, r)) or r[0] == 'null' for r in rs):
                ck.ok(R, '%s: frees an image it has just allocated (constructor failure path)' % f.name)
            elif any(c.callee == fini.name for c in f.calls()):
                ck.ok(R, '%s: frees the image after the finaliser (checked by C20-R1)' % f.name)
            else:
                ck.violation(R, f.name, 'free(image)', '%s frees an image object without going through the finaliser' % f.name, q.loc())


def r20_4_alpha_map_exchange(ck, P):
    R = ck.rule('C20-R4', 'installing a counted reference to an object of the same type is control-dependent on the chain refusals and on owner != referent', floor=2)
    for f in P.functions():
        for s in common.stores_field(f, 'image_common.alpha_map'):
            y = f.v(f.strip_casts(s.a[0]))
            if y is None or y.op != 'call' or y.callee != 'pixman_image_ref':
                continue
            ck.saw(f)
            owner = common.roots(f, s.a[1]); ref = common.roots(f, y.a[0])
            conds = f.control_conditions(s.bb.id)
            at_all = set()
            for br, succ in conds:
                if br.op == 'br' and br.a:
                    at_all |= f.atoms(br.a[0])
            # chain refusals
            if ('field', 'image_common.alpha_count') in at_all:
                ck.ok(R, '%s: refuses an owner that is itself in use as an alpha map (alpha_count)' % f.name)
            else:
                ck.violation(R, f.name, 'alpha_count refusal', '%s can give an alpha map to an image that is itself used as an alpha map (chain)' % f.name, s.loc())
            chain2 = False
            for br, succ in conds:
                if br.op == 'br' and br.a:
                    c = f.v(br.a[0])
                    if c is not None and c.op == 'icmp':
                        for o in c.a:
                            z = f.v(o)
                            if z is not None and z.op == 'load':
                                p = f.path(z.a[0])
                                if f.fields_of(p) == ['image_common.alpha_map'] and f.root(p) in ref:
                                    chain2 = True
            if chain2:
                ck.ok(R, '%s: refuses a map that has an alpha map itself' % f.name)
            else:
                ck.violation(R, f.name, 'map-has-map refusal', '%s accepts as alpha map an image that has an alpha map itself (chain)' % f.name, s.loc())
            # owner != referent
            selfguard = False
            for br, succ in conds:
                if br.op == 'br' and br.a:
                    c = f.v(br.a[0])
                    if c is not None and c.op == 'icmp' and c.pred in ('eq', 'ne'):
                        ra = common.roots(f, c.a[0]); rb = common.roots(f, c.a[1])
                        pa, pb = f.path(f.strip_casts(c.a[0])), f.path(f.strip_casts(c.a[1]))
                        direct = pa[0][0] == 'arg' and pb[0][0] == 'arg' and not pa[1] and not pb[1]
                        if direct and ((ra <= owner and rb <= ref) or (ra <= ref and rb <= owner)):
                            if (c.pred == 'ne') == (br.d['succ'][0] == succ):
                                selfguard = True
            if selfguard:
                ck.ok(R, '%s: refuses owner == referent' % f.name)
            else:
                ck.violation(R, f.name, 'self reference', '%s accepts an image as its own alpha map: the reference count can never reach zero (leak, destroy callback never runs) and validate recurses forever' % f.name, s.loc())


# ------------------------------------------------------------------------------------------- extensions found by seeded changes
import re as _re
_INIT_RE = _re.compile(r'pixman_region(32)?_init(_rect|_rects|_with_extents)?$')
_FINI_RE = _re.compile(r'pixman_region(32)?_fini$')


def r20_6_region_reinit(ck, P):
    R = ck.rule('C20-R6', 'a region that may hold rectangles (a parameter or a field of a live object) is re-initialised only after pixman_region*_fini on it (or where it provably holds a single inline rectangle)', floor=2)
    fp = fresh_params(P)
    for f in P.functions():
        if _re.match(r'pixman_region(32)?_init', f.name):
            continue        # the init family itself: its region argument is uninitialised by contract
        for c in list(f.calls()) + [('ow', c_) for c_ in _struct_overwrites(f)]:
            if isinstance(c, tuple):
                c = c[1]
            elif not c.callee or not _INIT_RE.match(c.callee) or not c.a:
                continue
            rs = common.roots(f, c.a[0])
            if not any(r[0] == 'arg' for r in rs):
                continue            # a local region or a fresh object
            if all(r[0] == 'arg' and r[1] in fp.get(f, ()) for r in rs):
                continue            # constructor context
            ck.saw(f)
            p = f.path(c.a[0])
            fin = [d for d in f.calls() if d.callee and _FINI_RE.match(d.callee) and d.a and f.path(d.a[0]) == p and f.dominates(d, c)]
            single = False
            for br, succ in f.guard_edges(c.bb.id):
                if br.a and any(a[0] == 'call' and (a[1] or '').endswith('_n_rects') for a in f.atoms(br.a[0])):
                    single = True
            if fin:
                ck.ok(R, '%s: %s after fini' % (f.name, c.callee))
            elif single:
                ck.ok(R, '%s: %s on a single-rectangle region (no heap data)' % (f.name, c.callee))
            else:
                ck.violation(R, f.name, 're-initialisation by ' + ('struct assignment' if c.callee.startswith('llvm.') else c.callee), '%s overwrites a live region with %s without pixman_region*_fini first: the rectangle array it held is leaked' % (f.name, 'a struct assignment' if c.callee.startswith('llvm.') else c.callee), c.loc())


def _struct_overwrites(f):
    """whole-struct assignments `*region_param = ...` (an llvm.memcpy onto a region parameter or an embedded region)"""
    out = []
    for c in f.calls():
        if not (c.callee or '').startswith(('llvm.memcpy', 'llvm.memmove')) or not c.a:
            continue
        o = f.strip_casts(c.a[0])
        ty = f.params[o[1]][1] if o[0] == 'a' else (f.by_id[o[1]].ty if o[0] == 'v' else '')
        if _re.match(r'^%struct\.pixman_region(16|32)\*$', ty) and not f.unit.name.startswith('pixman-region'):
            out.append(c)         # the region implementation itself moves its structs around under its own rules (C05/C06)
    return out


def r20_4b_exchange_order(ck, P):
    R = ck.rule('C20-R4b', 'a reference exchange drops the old reference only when old and new differ (or after the new one has been taken): re-attaching the same object must not free it', floor=1)
    for f in P.functions():
        stores = [s for s in common.stores_field(f, 'image_common.alpha_map') if f.v(f.strip_casts(s.a[0])) is not None and f.v(f.strip_casts(s.a[0])).op == 'call' and f.v(f.strip_casts(s.a[0])).callee == 'pixman_image_ref']
        if not stores:
            continue
        ck.saw(f)
        refc = f.v(f.strip_casts(stores[0].a[0]))
        newv = f.strip_casts(refc.a[0])
        for c in f.calls('pixman_image_unref'):
            y = f.v(f.strip_casts(c.a[0]))
            if y is None or y.op != 'load' or f.last_field(f.path(y.a[0])) != 'image_common.alpha_map':
                continue
            ok = f.dominates(refc, c)
            for br, succ in f.guard_edges(c.bb.id):
                if not br.a:
                    continue
                cc, pred, ops = f.cond(br.a[0])
                if cc is None or cc.op != 'icmp' or pred not in ('eq', 'ne') or len(ops) != 2:
                    continue
                sides = [f.strip_casts(o) for o in ops]
                hasnew = any(s_ == newv for s_ in sides)
                hasold = any(f.v(s_) is not None and f.v(s_).op == 'load' and f.last_field(f.path(f.v(s_).a[0])) == 'image_common.alpha_map' for s_ in sides)
                if hasnew and hasold and (pred == 'ne') == (br.d['succ'][0] == succ):
                    ok = True
            if ok:
                ck.ok(R, '%s: old alpha map released only when it differs from the new one' % f.name)
            else:
                ck.violation(R, f.name, 'unref of the old alpha map', '%s drops the reference on the current alpha map before taking the new one without testing old != new: re-attaching the same map while the image holds its only reference frees it while still attached' % f.name, c.loc())


LINKERS = {'pixman_list_prepend': 1, 'pixman_list_move_to_front': 1}
UNLINKERS = {'pixman_list_unlink': 0}


def r15_6_free_while_linked(ck, P):
    R = ck.rule('C15-R6', 'an object is never freed on a path on which one of its links was entered into a list and not unlinked again', floor=1)
    n = 0
    for f in P.functions():
        links = [c for c in f.calls() if c.callee in LINKERS]
        if not links:
            continue
        for c in links:
            o = c.a[LINKERS[c.callee]]
            base = f.root(f.path(o))
            # frees of the object the link belongs to
            for fr in f.calls('free'):
                if not fr.a or f.root(f.path(fr.a[0])) != base or f.path(fr.a[0])[0][0] == 'load' and f.path(o)[0][0] != 'load':
                    continue
                n += 1; ck.saw(f)
                def barrier(y):
                    return y.op == 'call' and y.callee in UNLINKERS and f.root(f.path(y.a[UNLINKERS[y.callee]])) == base
                hit = f.reach_avoiding(c, barrier, lambda y: y is fr)
                if hit is None:
                    ck.ok(R, '%s: free at %s not reachable from the link at %s without unlinking' % (f.name, fr.loc(), c.loc()))
                else:
                    ck.violation(R, f.name, 'free of a linked object', '%s frees an object at %s after entering its link into a list (%s) without unlinking it: the list keeps a dangling pointer' % (f.name, fr.loc(), c.loc()), fr.loc())
    # the release function unlinks before freeing: positive instance
    for f in P.functions():
        un = [c for c in f.calls() if c.callee in UNLINKERS]
        for c in un:
            base = f.root(f.path(c.a[0]))
            for fr in f.calls('free'):
                if fr.a and f.root(f.path(fr.a[0])) == base:
                    n += 1; ck.saw(f)
                    if f.dominates(c, fr):
                        ck.ok(R, '%s unlinks before freeing' % f.name)
                    else:
                        ck.violation(R, f.name, 'free before unlink', '%s frees the object before unlinking it' % f.name, fr.loc())
    # every free of an object of a type whose link member is entered into lists somewhere: unlinked first, or never linked (allocated here)
    linked_types = set()
    for f in P.functions():
        for c in f.calls():
            if c.callee in LINKERS:
                lf = f.last_field(f.path(c.a[LINKERS[c.callee]]))
                if lf:
                    linked_types.add(lf.split('.')[0])
    for f in P.functions():
        for fr in f.calls('free'):
            if not fr.a or fr.a[0][0] != 'v':
                continue
            src = f.v(f.strip_casts(fr.a[0]))
            st = None; o_ = fr.a[0]
            for _ in range(6):
                if o_[0] == 'a':
                    ty = f.params[o_[1]][1]
                elif o_[0] == 'v':
                    ty = f.by_id[o_[1]].ty
                else:
                    break
                if ty.startswith('%struct.') and ty.endswith('*'):
                    st = ty[len('%struct.'):-1]; break
                y_ = f.v(o_)
                if y_ is None or y_.op not in ('bitcast',):
                    break
                o_ = y_.a[0]
            if st not in linked_types:
                continue
            n += 1; ck.saw(f)
            base = f.root(f.path(fr.a[0]))
            unl = [c for c in f.calls() if c.callee in UNLINKERS and f.root(f.path(c.a[UNLINKERS[c.callee]])) == base and f.dominates(c, fr)]
            fresh = src is not None and src.op in ('call',) or (base[0] == 'call')
            linked_here = [c for c in f.calls() if c.callee in LINKERS and f.root(f.path(c.a[LINKERS[c.callee]])) == base]
            if unl or (fresh and not [c for c in linked_here if f.reach_avoiding(c, lambda y: False, lambda y: y is fr) is not None]):
                ck.ok(R, '%s: %s object freed at %s is unlinked first (or was never linked)' % (f.name, st, fr.loc()))
            elif fresh:
                pass        # decided by the path rule above
            else:
                ck.violation(R, f.name, 'free of a %s without unlinking' % st, '%s frees a %s (%s) that may be on a list without unlinking it first: the list head keeps pointing at freed memory, and the next insertion or eviction writes to or frees it again' % (f.name, st, fr.loc()), fr.loc())
    if n == 0:
        ck.incomplete(R, 'no list link/unlink site found (list vocabulary renamed?)')


DERIVED_AT_USE = ('image_common.flags', 'image_common.extended_format_code')


def r_validated_before_use(ck, P, rid):
    """interprocedural must-precede: derived image state is read only after the validate function ran on that image"""
    R = ck.rule(rid, 'every exported function validates an image parameter (a call of the validate function on that parameter dominates the use) before it, or an internal function it hands the parameter to, reads the derived fields common.flags / common.extended_format_code', floor=6)
    v = common.find_validate(P)
    V = common.validate_closure(P)
    N = defaultdict(dict)

    # VAL[g] = parameters that g validates on every path on which they are non-NULL (wrappers around the validate function)
    VAL = defaultdict(set)

    def arrivals(f, k, x):
        """nullness states of param k ({None, True, False}) in which x is reached along a path that avoids validate (param k);
        branches on `param k == NULL` are followed consistently"""
        def is_val(c):
            if c.op != 'call' or not isinstance(c.callee, str):
                return False
            if c.callee == v.name:
                return bool(c.a) and f.strip_casts(c.a[0])[:2] == ['a', k]
            g_ = P.resolve(f, c.callee)
            return g_ is not None and any(j < len(c.a) and f.strip_casts(c.a[j])[:2] == ['a', k] for j in VAL.get(g_, ()))
        out = set()
        seen = set(); work = [(0, None)]
        while work:
            b, nul = work.pop()
            if (b, nul) in seen:
                continue
            seen.add((b, nul))
            blk = f.blocks[b]; stop = False
            for y in blk.insts:
                if y.i == x.i:
                    out.add(nul); stop = True; break
                if is_val(y):
                    stop = True; break
            if stop:
                continue
            t = blk.term
            if t.op == 'br' and t.a:
                c, pred, ops = f.cond(t.a[0])
                if c is not None and c.op == 'icmp' and pred in ('eq', 'ne') and any(f.strip_casts(o)[:2] == ['a', k] for o in ops) and any(o[0] == 'n' for o in ops):
                    for sidx, s_ in enumerate(t.d['succ']):
                        isnull = (pred == 'eq') == (sidx == 0)
                        if nul is not None and nul != isnull:
                            continue
                        work.append((s_, isnull))
                    continue
            for s_ in blk.succ:
                work.append((s_, nul))
        return out

    # wrappers: a function validates parameter k when no path from its entry to a return avoids a validating call (NULL side excepted)
    changed = True
    while changed:
        changed = False
        for f in P.functions():
            if f in V or not any(c.callee == v.name or (isinstance(c.callee, str) and VAL.get(P.resolve(f, c.callee))) for c in f.calls()):
                continue
            for k, (pn, pt) in enumerate(f.params):
                if 'image' not in pt or k in VAL[f]:
                    continue
                rets = f.rets()
                if rets and all(not (arrivals(f, k, t) - {True}) for t in rets):
                    VAL[f].add(k); changed = True
    # N[f][k] = (reason, only_when_non_null)
    for f in P.functions():
        if f in V:
            continue
        for x in f.insts():
            if x.op != 'load':
                continue
            p = f.path(x.a[0])
            lf = f.last_field(p)
            if lf not in DERIVED_AT_USE or p[0][0] != 'arg':
                continue
            k = p[0][1]
            if 'image' not in f.params[k][1]:
                continue
            ar = arrivals(f, k, x)
            if ar:
                old = N[f].get(k)
                guarded = ar <= {False}
                if old is None or (old[1] and not guarded):
                    N[f][k] = ('reads %s (%s)' % (lf.split('.')[1], x.loc()), guarded)
    changed = True
    while changed:
        changed = False
        for f in P.functions():
            if f in V:
                continue
            for c in f.calls():
                g = P.resolve(f, c.callee)
                if g is None or g in V:
                    continue
                for j, (why, guarded) in list(N.get(g, {}).items()):
                    if j >= len(c.a):
                        continue
                    o = f.strip_casts(c.a[j])
                    if o[0] != 'a':
                        continue
                    k = o[1]
                    ar = arrivals(f, k, c)
                    if guarded:
                        ar = ar - {True}
                    if not ar:
                        continue
                    g2 = ar <= {False}
                    old = N[f].get(k)
                    if old is None or (old[1] and not g2):
                        N[f][k] = ('passes it to %s, which %s' % (g.name, why[:200]), g2); changed = True
    n = 0
    for f in common.public_api(P):
        imgs = [i for i, (pn, pt) in enumerate(f.params) if 'pixman_image' in pt or 'union.pixman_image' in pt]
        for k in imgs:
            if k in N.get(f, {}):
                n += 1; ck.saw(f)
                ck.violation(R, f.name, 'image parameter %s used before validation' % f.params[k][0], '%s %s on a path that has not called %s (%s): flags computed for an earlier state of the image (or never) are trusted' % (f.name, N[f][k][0], v.name, f.params[k][0]), '%s:%d' % (f.unit.name, f.line))
        # instances: exported functions that do use derived state of a parameter (directly or through callees) and validate first
    for f in common.public_api(P):
        uses = set()
        for x in f.insts():
            if x.op == 'load':
                p = f.path(x.a[0]); lf = f.last_field(p)
                if lf in DERIVED_AT_USE and p[0][0] == 'arg':
                    uses.add(p[0][1])
        for c in f.calls():
            g = P.resolve(f, c.callee)
            if g is not None and g not in V:
                for j in N.get(g, {}):
                    if j < len(c.a):
                        o = f.strip_casts(c.a[j])
                        if o[0] == 'a':
                            uses.add(o[1])
        for k in sorted(uses):
            if k not in N.get(f, {}):
                ck.saw(f); ck.ok(R, '%s validates %s before its derived state is read' % (f.name, f.params[k][0]))


DESTRUCTORS = ('_fini',)      # functions whose contract is that the object is dead afterwards (image, region, iterator fini)


def r_no_dangling_after_free(ck, P, rid):
    """T-PAIR: a resource freed out of a live object is replaced before the function returns, on every path"""
    R = ck.rule(rid, 'outside destructors, whenever a function frees memory held in a field of an object it was given (free (obj->field), or the fini of a region embedded in or pointed to by a parameter), every path from there to a return stores a new value into that field or re-initialises the region: no failure path returns with the field still pointing at freed memory', floor=6)
    n = 0
    for f in P.functions():
        if f.name.endswith(DESTRUCTORS):
            continue
        for c in f.calls():
            if c.callee == 'free':
                v = f.v(f.strip_casts(c.a[0]))
                if v is None or v.op != 'load':
                    continue
                p = f.path(v.a[0]); rt = f.root(p)
                if rt[0] != 'arg':
                    continue
                key = f.pstr(p); objarg = rt[1]
                what = 'free (%s)' % key
                objkey = None
            elif isinstance(c.callee, str) and c.callee.endswith('_fini') and 'region' in c.callee and c.a:
                p = f.path(c.a[0]); rt = f.root(p)
                if rt[0] != 'arg':
                    continue
                key = f.pstr(p); objarg = rt[1]
                what = '%s (%s)' % (c.callee, key)
                objkey = key
            else:
                continue
            n += 1; ck.saw(f)

            def barrier(y, key=key, objkey=objkey, objarg=objarg):
                if y.op == 'store':
                    t = f.pstr(f.path(y.a[1]))
                    if t == key or (objkey is not None and t.startswith(objkey) and t.endswith('.data')):
                        return True
                if y.op == 'call' and isinstance(y.callee, str):
                    if y.callee == 'free' and f.strip_casts(y.a[0])[:2] == ['a', objarg]:
                        return True                      # the object itself is released
                    if ('_init' in y.callee or '_copy' in y.callee) and y.a:
                        t = f.pstr(f.path(y.a[0]))
                        if t == (objkey or key) or key.startswith(t + '/'):
                            return True                  # re-initialised
                return False

            esc = f.reach_avoiding(c, barrier, lambda y: y.op == 'ret')
            if esc is None:
                ck.ok(R, '%s: %s is followed by a new value on every path' % (f.name, what))
            else:
                ck.violation(R, f.name, 'dangling field after %s' % what, '%s can return (%s) after %s without storing a new value there: on that path - an allocation failure in between - the object keeps a pointer to freed memory, which is used again and freed a second time later' % (f.name, esc.loc(), what), c.loc())
    if n == 0:
        ck.incomplete(R, 'no free of a field of a parameter object found outside destructors')


def r_hook_refreshes_unconditionally(ck, P, rid):
    """T-MPT: a property_changed hook recomputes the state derived from the image's properties whenever it is called.  A return that
    skips every write of the hook because a field the hook itself installs is already set makes the derived state survive a later
    change of the properties it was derived from (accessors set after first use, format-dependent tables ...)."""
    R = ck.rule(rid, 'no property_changed hook returns without recomputing on the ground that a field it installs itself is already set: on every branch whose condition reads a field written by the hook (or by what it calls), both sides reach a write of the hook', floor=2)
    hooks = sorted(common.property_changed_functions(P), key=lambda g: g.name)
    if not hooks:
        raise AnalysisBroken('no function is stored into image_common.property_changed')

    def fields_of_path(f, o):
        out = []
        def walk(t):
            if isinstance(t, str):
                if '.' in t:
                    out.append(t)
            elif isinstance(t, tuple):
                for q in t:
                    walk(q)
        walk(f.path(o))
        return out

    for g in hooks:
        ck.saw(g)
        # fields written by the hook and by the callees that receive the image
        W = set(); seen = set(); work = [g]
        while work:
            h = work.pop()
            if h in seen:
                continue
            seen.add(h)
            for x in h.insts():
                if x.op == 'store' and any(r[0] == 'arg' for r in common.roots(h, x.a[1])):
                    fs = fields_of_path(h, x.a[1])
                    if fs:
                        W.add(fs[-1])
                elif x.op == 'call' and x.callee:
                    k = P.resolve(h, x.callee)
                    if k is not None and any(any(r[0] == 'arg' for r in common.roots(h, a)) for a in x.a if a and a[0] in ('v', 'a')):
                        work.append(k)
        wblocks = {x.bb.id for x in g.insts() if (x.op == 'store' and any(r[0] == 'arg' for r in common.roots(g, x.a[1]))) or (x.op == 'call' and x.callee and not x.callee.startswith('llvm.dbg'))}
        rets = {x.bb.id for x in g.rets()}
        bad = None; nbr = 0
        for b in g.blocks:
            t = b.term
            if t.op != 'br' or not t.a:
                continue
            # fields the condition reads
            rd = set(); work = [t.a[0]]; vs = set()
            while work:
                o = work.pop()
                if o[0] != 'v' or o[1] in vs:
                    continue
                vs.add(o[1])
                x = g.by_id[o[1]]
                if x.op == 'load':
                    fs = fields_of_path(g, x.a[0])
                    if fs:
                        rd.add(fs[-1])
                    continue
                if x.op == 'call':
                    continue
                work.extend(a for a in x.a if a)
            own = rd & W
            if not own:
                continue
            nbr += 1
            for s in t.d['succ']:
                if s in wblocks:
                    continue
                reach = g.reachable_blocks(s, avoid=wblocks)
                if (s in rets or reach & rets):
                    bad = (t, sorted(own)); break
            if bad:
                break
        if bad:
            t, own = bad
            ck.violation(R, g.name, 'early return on %s' % own[0], '%s returns without recomputing anything when %s — a field the hook itself installs — has a certain value: state derived from the image\'s properties (here what %s computes) then survives a later change of those properties' % (g.name, own[0], ', '.join(sorted({c.callee for c in g.calls() if c.callee and not c.callee.startswith('llvm.')})[:3]) or 'the hook'), t.loc())
        else:
            ck.ok(R, '%s: %d derived fields, %d branches on them, none skips the recomputation' % (g.name, len(W), nbr))


def r_validate_clears_dirty(ck, P, rid):
    """T-MPT: once validate has found the image dirty, every path to its return clears the flag; otherwise every later drawing request
    recomputes — and stores — the derived state of an image other threads are reading."""
    R = ck.rule(rid, 'in the function that clears image_common.dirty, every path from the test that found the image dirty to a return passes through the store that clears the flag (must-pass-through), whatever kind of image it is and whether or not it has a property_changed hook', floor=1)
    v = common.find_validate(P)
    ck.saw(v)
    clears = {x.bb.id for x in common.stores_field(v, 'image_common.dirty') if x.a[0][0] == 'c' and int(x.a[0][1]) == 0}
    rets = {x.bb.id for x in v.rets()}
    n = 0
    for b in v.blocks:
        t = b.term
        if t.op != 'br' or not t.a:
            continue
        cc = v.v(t.a[0])
        # the test of the flag: a comparison (or truncation) of a load of image_common.dirty
        def reads_dirty(o, d=0):
            x = v.v(o)
            if x is None or d > 5:
                return False
            if x.op == 'load':
                return v.last_field(v.path(x.a[0])) == 'image_common.dirty'
            if x.op in ('icmp', 'trunc', 'zext', 'and'):
                return any(reads_dirty(a, d + 1) for a in x.a if a and a[0] == 'v')
            return False
        if not reads_dirty(t.a[0]):
            continue
        n += 1
        # the successor on which the flag is set: the one from which a clearing store is reachable at all
        bad = None
        for s in t.d['succ']:
            r_all = v.reachable_blocks(s, avoid=())
            if not (({s} | r_all) & clears):
                continue                      # the "not dirty" side
            r_avoid = {s} | v.reachable_blocks(s, avoid=clears) if s not in clears else set()
            if r_avoid & rets:
                bad = s
        if bad is not None:
            ck.violation(R, v.name, 'path that leaves the image dirty', '%s can return, after finding the image dirty and recomputing its flags, without clearing image_common.dirty: the image stays dirty for ever, and every later request - from any thread - recomputes and stores its derived fields while other threads read them' % v.name, t.loc())
        else:
            ck.ok(R, '%s: dirty test at %s, every path to a return clears the flag' % (v.name, t.loc()))
    if n == 0:
        ck.incomplete(R, '%s has no branch on image_common.dirty' % v.name)


def r_embedded_region_finalised(ck, P, rid='C20-R8'):
    """T-PAIR: a region embedded in the image and initialised unconditionally by the constructor is finalised unconditionally by the
    destructor - its storage outlives the flag that says whether it is in use (resetting the clip only clears the flag)."""
    R = ck.rule(rid, 'every region embedded in an image that the common initialiser sets up unconditionally is finalised by the destructor on every path that destroys the image: the finalising call is guarded by nothing but the reference count (a clip that was set and then reset still owns its rectangle list)', floor=1)
    inits = []
    for f in P.functions():
        for c in f.calls():
            if c.callee and c.callee.endswith('region32_init') and c.a and f.last_field(f.path(c.a[0])) and f.last_field(f.path(c.a[0])).startswith('image_common.') and not f.guard_edges(c.bb.id):
                inits.append((f, c, f.last_field(f.path(c.a[0]))))
    if not inits:
        ck.incomplete(R, 'no unconditional region initialisation of an image field found'); return
    for f0, c0, fld in inits:
        sites = []
        for f in P.functions():
            for c in f.calls():
                if c.callee and c.callee.endswith('region32_fini') and c.a and f.last_field(f.path(c.a[0])) == fld and f.root(f.path(c.a[0]))[0] == 'arg':
                    sites.append((f, c))
        # the destructor: the function that also frees / unrefs other members
        sites = [(f, c) for f, c in sites if any(x.callee == 'free' for x in f.calls())]
        if not sites:
            ck.violation(R, f0.name, 'no finalisation of %s' % fld, '%s initialises %s but no destructor finalises it' % (f0.name, fld), c0.loc()); continue
        for f, c in sites:
            ck.saw(f)
            bad = None
            for t, s in f.guard_edges(c.bb.id):
                if not t.a:
                    continue
                flds = {a[1] for a in f.atoms(t.a[0]) if a[0] == 'field'}
                # a test of the region's own members (is there a list to release at all?) is part of finalising it
                own = {q for q in flds if q.startswith(('pixman_region32.', 'pixman_region32_data.', 'pixman_box32.'))}
                if flds - {'image_common.ref_count'} - own:
                    bad = (t, sorted(flds - {'image_common.ref_count'} - own))
            if bad:
                t, fl = bad
                ck.violation(R, f.name, 'finalisation of %s' % fld, '%s finalises %s only when %s holds; the constructor sets the region up unconditionally and resetting the clip merely clears the flag, so the rectangle list of a clip that was set and later reset is never released' % (f.name, fld.split('.')[-1], ' / '.join(q.split('.')[-1] for q in fl)), c.loc())
            else:
                ck.ok(R, '%s finalises %s unconditionally' % (f.name, fld))


def r13_boolean_index_arguments_are_truth_values(ck, P, rid='C14-R13'):
    """Representation typestate: pixman_bool_t properties are stored as the caller passed them (pixman_image_set_component_alpha (img, 2) is
    'on'), and the flag computation only asks for non-zero.  The combiner lookup, however, builds a table index from its boolean
    parameters ((narrow << 1) | component_alpha): what reaches it must be a truth value, 0 or 1, not the stored property."""
    R = ck.rule(rid, 'every argument passed for a pixman_bool_t parameter that _pixman_implementation_lookup_combiner combines into its switch index is a truth value at the call site: the widened result of a comparison or logical operator, a constant 0 / 1, or a merge of such - never a value loaded from an image property as it is: a mask switched on with 2 or -1 would select the unified combiner, the 8-bit combiner for float scanlines, or none at all, while flags and fast paths treat it as component alpha', floor=2)
    g = P.fn('_pixman_implementation_lookup_combiner', required=False)
    if g is None:
        raise AnalysisBroken('%s: _pixman_implementation_lookup_combiner not found' % rid)
    # parameters that take part in an `or` / `shl` feeding a switch
    idx = set()
    for x in g.insts():
        if x.op == 'switch':
            work = [x.a[0]]; seen = set()
            while work:
                o = work.pop()
                if o[0] == 'a':
                    idx.add(o[1]); continue
                y = g.v(o) if o[0] == 'v' else None
                if y is None or y.i in seen:
                    continue
                seen.add(y.i)
                if y.op in ('or', 'shl', 'zext', 'sext', 'trunc', 'and', 'add'):
                    work.extend(y.a)
    idx = {i for i in idx if g.params[i][1] == 'i32' and (g.params[i][0] or '') not in ('op',)}
    if not idx:
        raise AnalysisBroken('%s: no parameter of the combiner lookup feeds its switch index' % rid)
    def truth(f, o, d=0, seen=None):
        seen = set() if seen is None else seen
        if o[0] == 'c':
            return int(o[1]) in (0, 1)
        y = f.v(o) if o[0] == 'v' else None
        if y is None or d > 12:
            return False
        if y.i in seen:
            return True
        seen.add(y.i)
        if y.op == 'zext':
            z = f.v(y.a[0])
            return z is not None and z.ty == 'i1'
        if y.op == 'and' and any(a[0] == 'c' and int(a[1]) == 1 for a in y.a):
            return True
        if y.op == 'phi':
            return all(truth(f, a, d + 1, seen) for a in y.a)
        if y.op == 'select':
            return all(truth(f, a, d + 1, seen) for a in y.a[1:])
        return False
    n = 0
    for f in P.functions():
        for c in f.calls():
            if P.resolve(f, c.callee) is not g if isinstance(c.callee, str) else True:
                continue
            for i in sorted(idx):
                if i >= len(c.a):
                    continue
                n += 1; ck.saw(f)
                where = '%s: argument %s of the combiner lookup at %s' % (f.name, g.params[i][0], c.loc())
                if truth(f, c.a[i]):
                    ck.ok(R, where, 'truth value')
                else:
                    ck.violation(R, f.name, 'combiner lookup argument %s' % g.params[i][0], '%s passes for %s a value that is not normalised to 0 / 1 (%s): the lookup forms its switch index by or-ing it in, so a property that was switched on with a value other than 1 selects the wrong combiner - or none - in the general path, while the flags and the fast paths, which only test for non-zero, treat the image as having the property' % (f.name, g.params[i][0], c.loc()), c.loc())
    if n == 0:
        raise AnalysisBroken('%s: no call of the combiner lookup found' % rid)


def r20_11_half_built_image_is_freed_raw(ck, P, rid='C20-R10'):
    """Typestate of a constructor: between the raw allocation and the success of the last fallible initialiser the image is not yet an
    image - the fields that fini releases (gradient.stops, bits.free_me, ...) may never have been written.  On the failure path of that
    initialiser the block is given back with free (), not through unref / fini, which would release what those fields happen to hold."""
    R = ck.rule(rid, 'in every constructor that calls a fallible initialiser on a freshly allocated image (an internal function taking a part of the image and returning a status), the path taken when the initialiser fails reaches no call of pixman_image_unref or the finaliser before it returns: _pixman_init_gradient returns before it has written gradient.stops when n_stops <= 0, and the finaliser of a gradient frees stops - 1 of whatever the block contained (the stop array of a gradient destroyed earlier: a double free)', floor=3)
    fini = P.fn('_pixman_image_fini', required=False)
    n = 0
    for f in common.public_api(P):
        allocs = [c for c in f.calls() if isinstance(c.callee, str) and c.callee in ('_pixman_image_allocate',)]
        if not allocs:
            continue
        for c in f.calls():
            g = P.resolve(f, c.callee) if isinstance(c.callee, str) else None
            if g is None or g.exported or not g.type.startswith('i32 ') or g.name.startswith('_pixman_image_allocate'):
                continue
            # the argument derives from the allocated image
            if not any(a[0] == 'v' and any(r == ('call', allocs[0].i) or (r[0] == 'call') for r in common.roots(f, a)) for a in c.a):
                continue
            # branch on the result
            brs = [u for u in f.insts() if u.op == 'br' and u.a and f.cond(u.a[0])[0] is not None and any(list(o) == ['v', c.i] for o in (f.cond(u.a[0])[2] or []))]
            if not brs:
                continue
            t = brs[0]
            cc, p, ops = f.cond(t.a[0])
            # failing side: result == 0
            if cc.op == 'icmp':
                k = [int(o[1]) for o in ops if o[0] == 'c']
                if not k or k[0] != 0:
                    continue
                fail = t.d['succ'][0] if p == 'eq' else t.d['succ'][1]
            else:
                fail = t.d['succ'][1] if p == 'is' else t.d['succ'][0]
            n += 1; ck.saw(f)
            bad = None
            seen = set(); work = [fail]
            while work and bad is None:
                b = work.pop()
                if b in seen:
                    continue
                seen.add(b)
                for x in f.blocks[b].insts:
                    if x.op == 'call' and isinstance(x.callee, str) and (x.callee in ('pixman_image_unref', '_pixman_image_fini')):
                        bad = x; break
                work.extend(f.blocks[b].succ)
            where = '%s: failure of %s at %s' % (f.name, g.name, c.loc())
            if bad is None:
                ck.ok(R, where, 'released raw')
            else:
                ck.violation(R, f.name, 'finaliser on a half-built image', '%s releases the image through %s (%s) when %s has failed: the fields that the finaliser frees were never written on that path (the initialiser returns before storing them), so it frees what the fresh block happened to contain - a pointer left there by an image destroyed earlier is freed a second time' % (f.name, bad.callee, bad.loc(), g.name), bad.loc())
    if n == 0:
        raise AnalysisBroken('%s: no constructor with a fallible initialiser found' % rid)


def r14_bits_setters_test_the_type(ck, P, rid='C14-R14'):
    """Sibling agreement + union typestate: pixman_image_t is a union; the members of bits_image_t beyond the common part overlay the
    colour of a solid fill and the stop array of a gradient.  An exported setter that stores into such a member does so only under a
    test that the image is a bits image - as pixman_image_set_dither, _set_dither_offset and _set_accessors do."""
    R = ck.rule(rid, 'every store into a field of bits_image_t that an exported function makes through its image parameter is guarded by a comparison of the image\'s type with BITS (taken on the equal side): pixman_image_set_indexed on a solid fill overwrites color_32 / color_float with the palette pointer (a solid red composites as 8b669060), on a gradient it overwrites the pointer that the finaliser frees', floor=4)
    BITS = P.enum_const('BITS') if hasattr(P, 'enum_const') else 0
    n = 0
    for f in common.public_api(P):
        if not f.params or 'pixman_image' not in f.params[0][1]:
            continue
        for x in f.insts():
            if x.op != 'store':
                continue
            pa = f.path(x.a[1])
            lf = f.last_field(pa) or ''
            if not lf.startswith('bits_image.') or f.root(pa) != ('arg', 0):
                continue
            n += 1; ck.saw(f)
            ok = False
            for t, s in f.guard_edges(x.bb.id):
                if t.op != 'br' or not t.a:
                    continue
                c, p, ops = f.cond(t.a[0])
                if c is None or c.op != 'icmp' or p not in ('eq', 'ne') or len(ops) != 2:
                    continue
                if (p == 'eq') != (t.d['succ'][0] == s):
                    continue
                for i in (0, 1):
                    y = f.v(f.strip_casts(ops[i])) if ops[i][0] == 'v' else None
                    k = ops[1 - i]
                    if y is not None and y.op == 'load' and y.ty == 'i32' and f.root(f.path(y.a[0])) == ('arg', 0) and (not f.path(y.a[0])[1] or (f.last_field(f.path(y.a[0])) or '').endswith('.type')) and k[0] == 'c' and int(k[1]) == BITS:
                        ok = True
            where = '%s: store to %s at %s' % (f.name, lf, x.loc())
            if ok:
                ck.ok(R, where, 'under type == BITS')
            else:
                ck.violation(R, f.name, 'store to %s without a type test' % lf, '%s stores into %s (%s) whatever kind of image it was handed: for a solid fill or a gradient that member of the union is the colour or the stop array, so the call silently changes what the image paints, or leaves a pointer the finaliser will free' % (f.name, lf, x.loc()), x.loc())
    if n == 0:
        raise AnalysisBroken('%s: no exported setter stores into a bits_image_t field' % rid)


def r20_12_fini_releases_the_alpha_map_on_every_path(ck, P, rid='C20-R11'):
    """Must-pass-through: the finaliser releases what every kind of image may own - also the kinds that own little of their own.  Whatever
    the type, the reference on an attached alpha map is dropped before the finaliser reports that the image is gone."""
    R = ck.rule(rid, 'in the image finaliser every path to a return of a non-zero value (the image is to be freed) passes the test of common.alpha_map: a shortcut for "solid fills own nothing" that returns before it leaves the reference on the alpha map in place - the map leaks, its destroy callback never runs and its alpha_count stays raised', floor=1)
    f = P.fn('_pixman_image_fini', required=False)
    if f is None:
        raise AnalysisBroken('%s: _pixman_image_fini not found' % rid)
    ck.saw(f)
    passes = {x.bb.id for x in f.insts() if x.op == 'load' and f.last_field(f.path(x.a[0])) == 'image_common.alpha_map'}
    rets = f.rets()
    rv = f.v(rets[0].a[0]) if len(rets) == 1 and rets[0].a and rets[0].a[0][0] == 'v' else None
    if not passes or rv is None or rv.op != 'phi':
        raise AnalysisBroken('%s: unexpected shape of _pixman_image_fini' % rid)
    n = 0
    for a, bb in zip(rv.a, rv.d['bb']):
        if a[0] == 'c' and int(a[1]) == 0:
            continue
        n += 1
        seen = set(); work = [0]; hit = False
        while work:
            b = work.pop()
            if b in seen or b in passes:
                continue
            seen.add(b)
            if b == bb:
                hit = True; break
            work.extend(f.blocks[b].succ)
        where = '_pixman_image_fini: non-zero return from block %d' % bb
        if hit:
            ck.violation(R, f.name, 'image reported gone without looking at its alpha map', '_pixman_image_fini can answer TRUE from the block ending at %s without having looked at common.alpha_map: an image of a kind that "owns nothing" may still hold a reference on an alpha map, which is then never released' % f.blocks[bb].term.loc(), f.blocks[bb].term.loc())
        else:
            ck.ok(R, where, 'after the alpha map was released')
    if n == 0:
        raise AnalysisBroken('%s: no non-zero return in _pixman_image_fini' % rid)
