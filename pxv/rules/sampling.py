"""Sampling-safety rules: C04-R1 (COVER_CLIP asserted only where proved), C04-R4/C08-R1 (repeat typestate), C08-R3/R4."""
from collections import defaultdict
from ..build import AnalysisBroken
from .. import consts
from . import common, tables


# ------------------------------------------------------------------------------------------------ C04-R1
def r1_cover_flags(ck, P):
    R = ck.rule('C04-R1', 'FAST_PATH_SAMPLES_COVER_CLIP_* is introduced only at sites whose guards prove it (all four extent coordinates against 0 / width / height), and a failed extent analysis prevents dispatch', floor=7)
    C = consts.fast_path_flags()
    cn, cb = C['FAST_PATH_SAMPLES_COVER_CLIP_NEAREST'], C['FAST_PATH_SAMPLES_COVER_CLIP_BILINEAR']
    sites = []
    for f in P.functions():
        for x in f.insts():
            if x.op == 'or':
                for o in x.a:
                    if o[0] == 'c' and int(o[1]) & (cn | cb) and not (int(o[1]) & 0x80000000) and int(o[1]) > 0:
                        sites.append((f, x, int(o[1]) & (cn | cb)))
            elif x.op == 'store' and x.a[0][0] == 'c' and int(x.a[0][1]) > 0 and int(x.a[0][1]) & (cn | cb) and (f.last_field(f.path(x.a[1])) or '').endswith('_flags'):
                sites.append((f, x, int(x.a[0][1]) & (cn | cb)))
            elif x.op == 'call' and x.callee in ('_pixman_implementation_lookup_composite', '_pixman_implementation_iter_init'):
                for o in x.a:
                    if o[0] == 'c' and int(o[1]) > 0 and int(o[1]) & (cn | cb) and o[2] == 32:
                        sites.append((f, x, int(o[1]) & (cn | cb)))
    if len(sites) < 6:
        ck.incomplete(R, 'only %d sites introduce a COVER_CLIP bit' % len(sites))
    for f, x, bits in sites:
        ck.saw(f)
        ats = set()
        for br, succ in f.guard_edges(x.bb.id):
            if br.a:
                ats |= f.atoms(br.a[0])
        fields = {a[1] for a in ats if a[0] == 'field'}
        where = '%s: %s' % (f.name, x.loc())
        # (a) extent proof: each coordinate is compared with its own bound inside one condition: x1,y1 with 0; x2 with width; y2 with height
        proved = set()
        for br, succ in f.guard_edges(x.bb.id):
            if not br.a:
                continue
            a1 = f.atoms(br.a[0])
            co = {q[1].split('.')[1] for q in a1 if q[0] == 'field' and q[1].startswith(('pixman_box32.', 'box_48_16_t.', 'box_48_16.'))}
            dm = {q[1] for q in a1 if q[0] == 'field' and q[1] in ('bits_image.width', 'bits_image.height')}
            cc, pred, ops = f.cond(br.a[0])
            if cc is None or cc.op != 'icmp' or len(co) != 1:
                continue
            k = next(iter(co))
            if k in ('x1', 'y1') and not dm and any(o[0] == 'c' and int(o[1]) == 0 for o in ops):
                proved.add(k)
            if k == 'x2' and dm == {'bits_image.width'}:
                proved.add(k)
            if k == 'y2' and dm == {'bits_image.height'}:
                proved.add(k)
        ext = proved
        dims = {'bits_image.width', 'bits_image.height'} if {'x2', 'y2'} <= proved else set()
        if {'x1', 'y1', 'x2', 'y2'} <= proved:
            ck.ok(R, where + ' (extent proof: x1,y1 vs 0; x2 vs width; y2 vs height)'); continue
        # (b) per-glyph dispatch: the routine call that consumes the flag is guarded by a box intersection of composite box and glyph box
        consumer = _consumer_call(f, x)
        if consumer is not None:
            cats = set()
            for br, succ in f.guard_edges(consumer.bb.id):
                if br.a:
                    cats |= f.atoms(br.a[0])
            if any(a[0] == 'call' and 'intersect' in (a[1] or '') for a in cats):
                ck.ok(R, where + ' (dispatch clipped to the glyph box by an intersection test)'); continue
        # (c) tiled repeat: coordinates pass a modulo by width and height before the delegated call
        mods = set()
        for y in f.insts():
            if y.op in ('srem', 'urem'):
                m = f.atoms(y.a[1])
                mods |= {a[1] for a in m if a[0] in ('field',)}
                # modulo by a local that holds the width
                mods |= {a[1] for a in m if a[0] == 'local'}
        if ('bits_image.height' in mods) and ('bits_image.width' in mods or any('width' in str(m) for m in mods)):
            ck.ok(R, where + ' (source coordinates reduced modulo width and height)'); continue
        miss = sorted({'x1', 'y1', 'x2', 'y2'} - ext)
        ck.violation(R, f.name, 'COVER_CLIP asserted at %s' % x.loc().split(':')[0], '%s claims that every sample of the clip lies inside the image without comparing %s with %s: raw fast paths then read outside the pixel buffer' % (f.name, ', '.join(miss), 'its bound (0 / width / height)'), x.loc())
    # dispatch only when both extent analyses succeeded
    C32 = P.fn('pixman_image_composite32')
    ext_fn = None
    for f, x, bits in sites:
        if f.unit.name == 'pixman.c' and f.internal:
            ext_fn = f
    if ext_fn is None:
        ck.incomplete(R, 'extent analysis function not found in pixman.c'); return
    calls = list(C32.calls(ext_fn.name))
    disp = [c for c in C32.calls() if c.callee is None and 'callee' in c.d]
    for d in disp:
        okc = 0
        for c in calls:
            for br, succ in C32.guard_edges(d.bb.id):
                if br.a:
                    cc, pred, ops = C32.cond(br.a[0])
                    if cc is not None and ops and any(C32.strip_casts(o) == ['v', c.i] for o in ops):
                        if (pred in ('ne', 'is')) == (br.d['succ'][0] == succ):
                            okc += 1
        if calls and okc >= len(calls):
            ck.ok(R, 'composite32 dispatches only if %d extent analyses succeeded' % len(calls))
        else:
            ck.violation(R, C32.name, 'dispatch guard', 'the composite routine is dispatched although the extent analysis of the source or mask may have failed (coordinates outside the 16.16 range)', d.loc())
    # the 16.16 range test follows the flag stores: no path from a flag store to `return TRUE` avoids the range test
    for f, x, bits in sites:
        if f is not ext_fn:
            continue


def _consumer_call(f, x):
    """the lookup/dispatch call that receives the flags value produced at x (through a local or directly)"""
    for c in f.calls():
        if c.callee is None and 'callee' in c.d:
            return c
    return None


# ------------------------------------------------------------------------------------------------ C04-R4 / C08-R1
def find_repeat(P):
    """role: the coordinate-wrapping helper — internal, (mode, int *coordinate, int size) -> bool, switch on the mode, stores through the pointer"""
    out = {}
    for u in P.units.values():
        for f in u.functions.values():
            if f.internal and len(f.params) == 3 and f.params[1][1] == 'i32*' and f.params[0][1] == 'i32' and f.params[2][1] == 'i32':
                if any(x.op == 'store' and f.root(f.path(x.a[1])) == ('arg', 1) for x in f.insts()):
                    out[u.name] = f
    if not out:
        raise AnalysisBroken('repeat() helper not found')
    return out


def spec_succ(f, spec):
    """{block: [successors]} of f with parameters fixed to constants (comparisons of those parameters folded)"""
    def val(o):
        if o[0] == 'c':
            return int(o[1])
        if o[0] == 'a' and o[1] in spec:
            return spec[o[1]]
        y = f.v(o)
        if y is not None and y.op in ('zext', 'sext', 'trunc'):
            return val(y.a[0])
        return None
    out = {}
    for b in f.blocks:
        t = b.term; nxt = list(b.succ)
        if t.op == 'br' and t.a:
            c, pred, ops = f.cond(t.a[0])
            if c is not None and c.op == 'icmp' and len(ops) == 2:
                l, r = val(ops[0]), val(ops[1])
                if l is not None and r is not None:
                    res = {'eq': l == r, 'ne': l != r, 'slt': l < r, 'sgt': l > r, 'sle': l <= r, 'sge': l >= r, 'ult': l < r, 'ugt': l > r, 'ule': l <= r, 'uge': l >= r}.get(pred)
                    if res is not None:
                        nxt = [t.d['succ'][0] if res else t.d['succ'][1]]
        elif t.op == 'switch':
            v = val(t.a[0])
            if v is not None:
                nxt = [t.d['default']]
                for cv, bb in t.d['cases']:
                    if cv == v:
                        nxt = [bb]
        out[b.id] = nxt
    return out


def _reach(succ, start, avoid=()):
    seen = set(); work = [start]
    while work:
        b = work.pop()
        if b in seen or b in avoid:
            continue
        seen.add(b); work.extend(succ[b])
    return seen


def _guard_edges_in(f, succ, target, avoid=()):
    """edges (block, successor) every path entry->target must take in the graph `succ` minus `avoid` blocks"""
    out = set()
    if target not in _reach(succ, 0, avoid):
        return None
    for b, ss in succ.items():
        if len(set(ss)) < 2:
            continue
        for s in set(ss):
            seen = set(); work = [0]; hit = False
            while work:
                n = work.pop()
                if n in seen or n in avoid:
                    continue
                seen.add(n)
                if n == target:
                    hit = True; break
                for t in succ[n]:
                    if n == b and t == s:
                        continue
                    work.append(t)
            if not hit:
                out.add((b, s))
    return out


def _flag_threaded(f, succ, ge, depth=0):
    """Jump threading over flag variables: a guard edge whose branch tests a phi of constants (`int inside = 1; ... inside = 0; ... if
    (inside)`) is taken exactly when the phi block was last entered from a predecessor whose constant selects that side; what every path
    to each of those predecessors must pass (and the edge out of it) therefore also guards the target.  Returns ge plus those edges."""
    if depth > 2 or ge is None:
        return ge
    out = set(ge)
    for (b, s) in ge:
        t = f.blocks[b].term
        if t.op != 'br' or not t.a:
            continue
        c, pred, ops = f.cond(t.a[0])
        phi = None; K = 0
        if c is not None and c.op == 'phi' and pred in ('is', 'not'):
            phi = c; K = 0; pred = 'ne' if pred == 'is' else 'eq'
        elif c is not None and c.op == 'icmp' and pred in ('eq', 'ne') and len(ops) == 2:
            for i_ in (0, 1):
                y = f.v(f.strip_casts(ops[i_])) if ops[i_][0] == 'v' else None
                if y is not None and y.op == 'phi' and ops[1 - i_][0] == 'c':
                    phi = y; K = int(ops[1 - i_][1])
        if phi is None:
            continue
        # leaves: (constant, predecessor, phi block) where each constant enters the flag, through nested phis
        leaves = []; ok = True; seen_ = set(); work = [phi]
        while work and ok:
            q = work.pop()
            if q.i in seen_:
                continue
            seen_.add(q.i)
            for a, bb in zip(q.a, q.d['bb']):
                y = f.v(a) if a[0] == 'v' else None
                if a[0] == 'c':
                    leaves.append((int(a[1]), bb, q.bb.id))
                elif y is not None and y.op == 'phi':
                    work.append(y)
                else:
                    ok = False
        if not ok or not leaves:
            continue
        sel = []
        for cv, bb, pb in leaves:
            truth = (cv != K) if pred == 'ne' else (cv == K)
            if (t.d['succ'][0] if truth else t.d['succ'][1]) == s:
                sel.append((bb, pb))
        common = None
        for bb, pb in sel:
            if pb not in succ.get(bb, ()):
                continue
            g = _guard_edges_in(f, succ, bb)
            if g is None:
                continue            # that predecessor is unreachable under this specialisation
            g = set(_flag_threaded(f, succ, g, depth + 1))
            if len(set(succ[bb])) >= 2:
                g.add((bb, pb))
            common = g if common is None else (common & g)
        if common:
            out |= common
    return out


def cond_facts(f, succ, o, truth, depth=0):
    """comparisons implied by the boolean value o being `truth`: {(icmp id, bool)}.  Peels casts, llvm.expect, logical negation and
    == 0 / != 0 of a boolean; a short-circuit phi (`a && b`: phi [false, A], [b, B]) contributes, for each incoming edge that can deliver
    that truth value, what holds on every path to that predecessor plus the incoming value itself - intersected over those edges."""
    for _ in range(16):
        if o[0] != 'v':
            return set()
        x = f.by_id[o[1]]
        if x.op in ('zext', 'sext', 'trunc', 'freeze'):
            o = x.a[0]; continue
        if x.op == 'call' and isinstance(x.callee, str) and x.callee.startswith('llvm.expect'):
            o = x.a[0]; continue
        if x.op == 'xor' and x.ty == 'i1' and any(a[0] == 'c' and int(a[1]) & 1 for a in x.a):
            o = [a for a in x.a if a[0] != 'c'][0]; truth = not truth; continue
        if x.op == 'icmp':
            zero = [a for a in x.a if a[0] == 'c' and int(a[1]) == 0]
            if x.pred in ('eq', 'ne') and zero:
                other = [a for a in x.a if a is not zero[0]][0]
                q = other
                for _2 in range(8):
                    y = f.v(q) if q[0] == 'v' else None
                    if y is not None and (y.op in ('zext', 'sext', 'trunc', 'freeze') or (y.op == 'call' and isinstance(y.callee, str) and y.callee.startswith('llvm.expect'))):
                        q = y.a[0]; continue
                    break
                y = f.v(q) if q[0] == 'v' else None
                if y is not None and y.ty == 'i1':
                    o = q; truth = truth if x.pred == 'ne' else not truth; continue
            return {(x.i, truth)}
        if x.op in ('and', 'or') and x.ty == 'i1':
            if (x.op == 'and') == truth:
                return cond_facts(f, succ, x.a[0], truth, depth + 1) | cond_facts(f, succ, x.a[1], truth, depth + 1)
            return set()
        if x.op == 'phi' and x.ty == 'i1' and depth <= 3:
            common = None
            for a, bb in zip(x.a, x.d['bb']):
                if a[0] == 'c' and bool(int(a[1]) & 1) != truth:
                    continue
                if x.bb.id not in succ.get(bb, ()):
                    continue
                g = facts_at(f, succ, bb, depth + 1)
                if g is None:
                    continue
                if a[0] != 'c':
                    g = g | cond_facts(f, succ, a, truth, depth + 1)
                common = g if common is None else (common & g)
            return common or set()
        return set()
    return set()


def facts_at(f, succ, target, depth=0):
    """{(icmp id, truth)} that hold on every path from the entry to block `target` in the graph `succ` (None: unreachable)"""
    ge = _guard_edges_in(f, succ, target)
    if ge is None:
        return None
    out = set()
    for b, s in ge:
        t = f.blocks[b].term
        if t.op == 'br' and t.a:
            out |= cond_facts(f, succ, t.a[0], t.d['succ'][0] == s, depth)
    return out


def r4_repeat_typestate(ck, P):
    R = ck.rule('C04-R4', 'a coordinate that addresses pixels without a bounds check has passed repeat() with the matching dimension (or, for REPEAT_NONE, both bounds tests of its axis) on every path', floor=30)
    reps = find_repeat(P)
    rep_enum = P.enum('pixman_repeat_t')
    n_sites = 0
    for f in P.functions():
        rp = reps.get(f.unit.name)
        if rp is None:
            continue
        # coordinate locals: allocas whose address is passed to repeat()
        coord = {}
        for c in f.calls(rp.name):
            r = f.root(f.path(c.a[1]))
            if r[0] == 'alloca':
                dims = {a[1] for a in f.atoms(c.a[2]) if a[0] == 'field'} | {f.params[a[1]][0] for a in f.atoms(c.a[2]) if a[0] == 'arg'}
                coord.setdefault(r[1], []).append((c, dims))
        # use sites: (inst, {alloca id: axis}) — unchecked get_pixel calls and row/pixel addresses built from bits.bits
        sites = []
        for x in f.insts():
            if x.op == 'call' and x.callee is None and 'callee' in x.d and x.d['callee'][0] == 'a' and len(x.a) >= 4 and x.a[3][0] == 'c':
                if int(x.a[3][1]) == 0:
                    sites.append((x, [(x.a[1], 'x'), (x.a[2], 'y')]))
            elif x.op == 'getelementptr':
                y = f.v(f.strip_casts(x.a[0]))
                if y is not None and y.op == 'load' and f.last_field(f.path(y.a[0])) == 'bits_image.bits':
                    idx = [st[1] for st in x.d['path'] if st[0] in ('p', 'x') and st[1][0] != 'c']
                    for o in idx:
                        if ('field', 'bits_image.rowstride') in f.atoms(o) or any(a[0] == 'local' for a in f.atoms(o)):
                            sites.append((x, [(o, 'y')]))
        if not sites:
            continue
        if not coord and not any(f.by_id.get(a[1]) is not None for s, ops in sites for a, ax in ops if a[0] == 'v'):
            continue
        # specialisations: a parameter of the repeat enum type
        specs = [{}]
        for i, t in enumerate(f.dparams):
            if t == 'pixman_repeat_t' and i < len(f.params):
                specs = [{i: v} for v in sorted(set(rep_enum.values()))]
        for x, ops in sites:
            for o, axis in ops:
                # loads of address-taken locals in the operand's slice (the coordinate variables), not looking through the loads
                loads = []
                stack = [o]; seen_ = set()
                while stack:
                    q = stack.pop()
                    y = f.v(q)
                    if y is None or y.i in seen_:
                        continue
                    seen_.add(y.i)
                    if y.op == 'load':
                        r = f.root(f.path(y.a[0]))
                        if r[0] == 'alloca' and f.path(y.a[0])[0][0] != 'load':
                            loads.append((y, f.by_id[r[1]]))
                        continue
                    if y.op in ('call', 'phi'):
                        continue
                    stack.extend(y.a)
                loaded_locals = []
                for L, A in loads:
                    if A not in loaded_locals:
                        loaded_locals.append(A)
                load_of = {A.i: [L for L, A2 in loads if A2 is A] for A in loaded_locals}
                if not loaded_locals:
                    continue
                n_sites += 1; ck.saw(f)
                for A in loaded_locals:
                    want_dim = 'width' if axis == 'x' else 'height'
                    bad = None
                    for spec in specs:
                        succ = spec_succ(f, spec)
                        if x.bb.id not in _reach(succ, 0):
                            continue
                        # wrap calls on this local with the dimension of the axis (positional for get_pixel; the row index is the y axis)
                        reps_ok = [c for c, dims in coord.get(A.i, []) if any(want_dim in d for d in dims)]
                        rep_blocks = {c.bb.id for c in reps_ok}
                        # every load of the local feeding this use must come after the wrap
                        wrapped = True
                        for L in load_of[A.i]:
                            if L.bb.id in rep_blocks and any(c.bb.id == L.bb.id and c.i < L.i for c in reps_ok):
                                continue
                            if L.bb.id not in _reach(succ, 0, rep_blocks):
                                continue
                            wrapped = False
                        if wrapped and reps_ok:
                            continue
                        ge = _flag_threaded(f, succ, _guard_edges_in(f, succ, x.bb.id))
                        if ge is None:
                            continue            # the use is unreachable for this repeat mode
                        # REPEAT_NONE style: both bounds of this coordinate are established on every remaining path, either by
                        # tests of the local itself or of its axis sibling (L2 = L1 + 1) together with the boundary-equality test
                        facts_ = set()
                        for (b, s) in ge:
                            t = f.blocks[b].term
                            if t.op != 'br' or not t.a:
                                continue
                            c, pred, cops = f.cond(t.a[0])
                            if c is None or c.op != 'icmp':
                                continue
                            taken_true = t.d['succ'][0] == s
                            p = pred if taken_true else f.INV.get(pred, pred)
                            ats = f.atoms(t.a[0])
                            dimcmp = any(a[0] == 'field' and a[1] in ('bits_image.width', 'bits_image.height') for a in ats) or any(a[0] == 'arg' and f.params[a[1]][0] in ('width', 'height') for a in ats)
                            for L in {a[1] for a in ats if a[0] == 'local'}:
                                minus1 = ('const', 1) in ats or ('const', -1) in ats
                                if not dimcmp and ('const', 0) in ats and p in ('sge', 'sgt'):
                                    facts_.add(('ge0', L))
                                if not dimcmp and ('const', 0) in ats and p == 'ne':
                                    facts_.add(('ne0', L))
                                if dimcmp and p in ('slt', 'sle'):
                                    facts_.add(('lt_dim', L))
                                if dimcmp and p == 'ne':
                                    facts_.add(('ne_last', L))
                        me = A.dv or str(A.i)
                        # siblings: stores  S = load(T) + 1
                        up = set(); down = set()
                        for y in f.insts():
                            if y.op == 'store':
                                r = f.root(f.path(y.a[1]))
                                v = f.v(y.a[0])
                                if r[0] == 'alloca' and v is not None and v.op == 'add' and any(o[0] == 'c' and int(o[1]) == 1 for o in v.a):
                                    src = {a[1] for a in f.atoms(y.a[0]) if a[0] == 'local'}
                                    tgt = f.by_id[r[1]].dv or str(r[1])
                                    for sname in src:
                                        if sname == me:
                                            up.add(tgt)           # tgt = me + 1
                                        if tgt == me:
                                            down.add(sname)       # me = sname + 1
                        lo = ('ge0', me) in facts_ or any(('ge0', u_) in facts_ and ('ne0', u_) in facts_ for u_ in up) or any(('ge0', d_) in facts_ for d_ in down)
                        hi = ('lt_dim', me) in facts_ or any(('lt_dim', d_) in facts_ and ('ne_last', d_) in facts_ for d_ in down) or any(('lt_dim', u_) in facts_ for u_ in up)
                        if not (lo and hi):
                            bad = spec; break
                    desc = '%s: %s coordinate %s at %s' % (f.name, axis, A.dv, x.loc())
                    if bad is None:
                        ck.ok(R, desc)
                    else:
                        ck.violation(R, f.name, '%s coordinate %s used unchecked' % (axis, A.dv), '%s uses %s to address pixels on a path%s where it was neither wrapped by repeat() nor tested against 0 and the image %s: samples outside the image are read from outside the buffer' % (f.name, A.dv, (' (repeat mode %s)' % list(bad.values())[0]) if bad else '', want_dim), x.loc())
    if n_sites < 20:
        ck.incomplete(R, 'only %d unchecked-coordinate sites recognised' % n_sites)


# ------------------------------------------------------------------------------------------------ C08-R3 / R4
def r3_iter_instantiation(ck, P):
    R = ck.rule('C08-R3', 'every iterator-table entry pointing to a generated fetcher is registered with the format and repeat mode the fetcher was instantiated with; the fetcher table\'s untransformed entry excludes the repeats it does not implement', floor=48)
    C = consts.fast_path_flags()
    F = {k[len('FAST_PATH_'):]: v for k, v in C.items() if k.startswith('FAST_PATH_')}
    rep = P.enum('pixman_repeat_t')
    rep_by_val = {v: k for k, v in rep.items()}
    rep_masks = {'PIXMAN_REPEAT_NONE': F['NONE_REPEAT'], 'PIXMAN_REPEAT_PAD': F['PAD_REPEAT'], 'PIXMAN_REPEAT_NORMAL': F['NORMAL_REPEAT'], 'PIXMAN_REPEAT_REFLECT': F['REFLECT_REPEAT']}
    filt_bits = F['NEAREST_FILTER'] | F['BILINEAR_FILTER'] | F['SEPARABLE_CONVOLUTION_FILTER'] | F['NO_CONVOLUTION_FILTER']
    names = tables.format_names(P)
    byhelper = defaultdict(set)
    for u, g, t in tables.iter_tables(P):
        for idx, e in enumerate(t):
            fn = tables.fname(e['get_scanline'])
            w = u.functions.get(fn) if fn else None
            if w is None:
                continue
            inst = None
            for c in w.calls():
                h = u.functions.get(c.callee or '')
                if h is None or not h.internal:
                    continue
                fi = [i for i, tname in enumerate(h.dparams) if tname == 'pixman_format_code_t']
                ri = [i for i, tname in enumerate(h.dparams) if tname == 'pixman_repeat_t']
                if fi and ri and c.a[fi[0]][0] == 'c' and c.a[ri[0]][0] == 'c':
                    inst = (h, int(c.a[fi[0]][1]) & 0xffffffff, int(c.a[ri[0]][1]), c)
            if inst is None:
                continue
            h, fmt, rp, c = inst
            ck.saw(w)
            probs = []
            if e['format'] != fmt:
                probs.append('registered for %s but instantiated for %s' % (names.get(e['format'], hex(e['format'])), names.get(fmt, hex(fmt))))
            pinned = [k for k, m in rep_masks.items() if e['image_flags'] & m == m]
            if pinned != [rep_by_val.get(rp)]:
                probs.append('registered for repeat %s but instantiated for %s' % (pinned or 'any', rep_by_val.get(rp, rp)))
            byhelper[(u.name, h.name)].add(e['image_flags'] & filt_bits)
            if probs:
                ck.violation(R, fn, '%s[%d]' % (g['name'], idx), '; '.join(probs) + ': requests are fetched with the wrong pixel layout or wrap rule', c.loc())
            else:
                ck.ok(R, '%s[%d] %s' % (g['name'], idx, fn))
    for (un, hn), fs in byhelper.items():
        if len(fs) == 1:
            ck.ok(R, 'all entries using %s pin the same filter kind' % hn)
        else:
            ck.violation(R, hn, 'filter kind of entries using ' + hn, 'entries instantiated from %s are registered under different filter flags %s' % (hn, sorted(hex(x) for x in fs)), un)
    # fetcher_info: an entry whose scanline functions branch only on repeat == NONE must exclude PAD and REFLECT
    u, g = P.global_('fetcher_info', required=False)
    if g is None:
        ck.incomplete(R, 'fetcher_info table not found'); return
    for idx, e in enumerate(P.table(u, g)):
        fn = tables.fname(e['get_scanline_32'])
        w = u.functions.get(fn) if fn else None
        if w is None:
            continue
        ck.saw(w)
        # does the fetcher (depth 1) call the repeat() helper or handle all modes?  count distinct callees selected by the repeat field
        uses_repeat_helper = any(True for c in w.calls() if c.callee == 'repeat') or any(any(d.callee == 'repeat' for d in (u.functions.get(c.callee).calls() if u.functions.get(c.callee or '') else [])) for c in w.calls() if c.callee)
        branches_on_repeat = any(t.op == 'br' and t.a and ('field', 'image_common.repeat') in w.atoms(t.a[0]) for t in (b.term for b in w.blocks))
        if branches_on_repeat and not uses_repeat_helper:
            need = F['NO_PAD_REPEAT'] | F['NO_REFLECT_REPEAT']
            if e['flags'] & need == need:
                ck.ok(R, 'fetcher_info[%d] %s excludes PAD and REFLECT' % (idx, fn))
            else:
                ck.violation(R, fn, 'fetcher_info[%d]' % idx, '%s distinguishes only NONE from NORMAL repeat but is registered without excluding PAD/REFLECT: those modes would be drawn as NORMAL' % fn, u.name)
        else:
            ck.ok(R, 'fetcher_info[%d] %s handles repeat through the generic path' % (idx, fn))


def r4_enum_exhaustive(ck, P):
    R = ck.rule('C08-R4', 'every pixman_filter_t and pixman_repeat_t enumerator is handled by the switch statements that dispatch on them (filtered fetch, flag computation, extent analysis, repeat())', floor=4)
    filt = P.enum('pixman_filter_t'); rep = P.enum('pixman_repeat_t')
    def switches_on(field):
        out = []
        for f in P.functions():
            for x in f.insts():
                if x.op == 'switch' and ('field', field) in f.atoms(x.a[0]):
                    out.append((f, x))
        return out
    for field, en, nm in (('image_common.filter', filt, 'filter'), ('image_common.repeat', rep, 'repeat')):
        sw = switches_on(field)
        if not sw:
            ck.incomplete(R, 'no switch on %s found' % field)
        for f, x in sw:
            ck.saw(f)
            cases = {cv for cv, bb in x.d['cases']}
            miss = [k for k, v in en.items() if v not in cases]
            # a default that does real work also handles them; a default that fails (returns 0 / logs) does not
            d = f.blocks[x.d['default']]
            only_br = all(y.op == 'br' for y in d.insts)
            feeds_undef = any(ph.op == 'phi' and any(a[0] == 'u' and bb == d.id for a, bb in zip(ph.a, ph.d['bb'])) for sb in d.succ for ph in f.blocks[sb].insts)
            default_is_reject = any(y.op in ('ret', 'unreachable') for y in d.insts) or common.is_log_error_block(f, d.id) or (only_br and feeds_undef) or any(y.op == 'call' and y.callee in ('__assert_fail', 'abort') for y in d.insts)
            if not miss or not default_is_reject:
                ck.ok(R, '%s: switch on %s covers all %d enumerators' % (f.name, nm, len(en)))
            else:
                ck.violation(R, f.name, 'switch on ' + nm, '%s does not handle %s: such an image is rejected or drawn with an uninitialised mode' % (f.name, ', '.join(miss)), x.loc())
    # repeat(): switch on its mode parameter
    for un, rp in find_repeat(P).items():
        sw = [x for x in rp.insts() if x.op == 'switch' and x.a[0] == ['a', 0]]
        if sw:
            cases = {cv for cv, bb in sw[0].d['cases']}
            need = {v for k, v in rep.items() if k != 'PIXMAN_REPEAT_NONE'}
            if need <= cases:
                ck.ok(R, '%s/%s handles NORMAL, PAD and REFLECT' % (un, rp.name))
            else:
                ck.violation(R, rp.name, 'repeat modes (%s)' % un, 'the wrap helper does not handle repeat mode(s) %s' % sorted(need - cases), '%s:%d' % (un, rp.line))
            break


def r6_coordinate_siblings(ck, P):
    """T-IND / sibling agreement: the components of one position vector advance together"""
    from .factors import _loops_of
    R = ck.rule('C08-R6', 'in every sampling loop the loop-carried components initialised from one position vector (x, y and the homogeneous w) are all advanced by a loop-invariant step on every path to the back edge: no component is skipped for pixels the loop otherwise passes over (masked-out or clipped)', floor=5)
    n = 0
    for un, u in P.units.items():
        L = _loops_of(u) if any(k in un for k in ('bits-image', 'fast-path', 'gradient', 'sse2', 'ssse3', 'mmx')) else {}
        for fn, loops in L.items():
            f = u.functions.get(fn)
            if f is None:
                continue
            for lp in loops:
                groups = {}
                for p in lp['phis']:
                    ph = f.by_id[p['v']]
                    if not ph.ty.startswith('i') or ph.ty in ('i1', 'i8'):
                        continue
                    init = [a for a, bb in zip(ph.a, ph.d['bb']) if bb not in lp['blocks']]
                    if len(init) != 1 or init[0][0] != 'v':
                        continue
                    ld = f.v(f.strip_casts(init[0]))
                    if ld is None or ld.op != 'load':
                        continue
                    base = f.root(f.path(ld.a[0]))
                    if base[0] != 'alloca':
                        continue
                    lf = f.last_field(f.path(ld.a[0])) or ''
                    if 'vector' not in lf:
                        continue
                    groups.setdefault(base, []).append((ph, p))
                for base, mem in groups.items():
                    if len(mem) < 2:
                        continue
                    n += 1; ck.saw(f)
                    blocks_ = set(lp['blocks'])

                    def kinds_of(ph):
                        # how the component reaches the back edge: advanced (phi + step), unchanged, or something else
                        def classify(o, seen):
                            if o == ['v', ph.i]:
                                return {'same'}
                            if o[0] != 'v' or o[1] in seen:
                                return set()
                            seen.add(o[1])
                            y = f.by_id[o[1]]
                            if y.op in ('add', 'sub') and any(q == ['v', ph.i] for q in y.a):
                                return {'adv'}
                            if y.op == 'phi' and y.bb.id in blocks_:
                                r = set()
                                for q in y.a:
                                    r |= classify(q, seen)
                                return r
                            return {'other'}
                        ks = set()
                        for a_, bb_ in zip(ph.a, ph.d['bb']):
                            if bb_ in blocks_:
                                ks |= classify(a_, set())
                        return ks
                    kinds = {ph.i: kinds_of(ph) for ph, p in mem}
                    aff = [ph for ph, p in mem if kinds[ph.i] == {'adv'}]
                    non = [ph for ph, p in mem if 'same' in kinds[ph.i]]
                    names = '/'.join(ph.dv or '?' for ph, p in mem)
                    if aff and non:
                        ck.violation(R, f.name, 'position components %s' % names, '%s advances %s on every iteration but %s only on some paths (loop at block %d): after a skipped pixel the remaining pixels of the scanline are sampled with a stale component' % (f.name, '/'.join(ph.dv or '?' for ph in aff), '/'.join(ph.dv or '?' for ph in non), lp['header']), non[0].loc())
                    else:
                        ck.ok(R, '%s loop %d: %s' % (f.name, lp['header'], names))
    if n == 0:
        ck.incomplete(R, 'no sampling loop with a loop-carried position vector found')


def r7_neighbour_before_repeat(ck, P):
    """the second bilinear neighbour is the successor of the *unmapped* coordinate"""
    R = ck.rule('C08-R7n', 'in every fetcher that maps two neighbouring coordinates through repeat(), the second one is computed as first + 1 from the first coordinate as it was before repeat() mapped it (PAD and REFLECT do not commute with +1)', floor=4)
    n = 0
    for f in P.functions():
        reps = [c for c in f.calls('repeat') if len(c.a) >= 2 and c.a[1][0] == 'v' and f.by_id[c.a[1][1]].op == 'alloca']
        if len(reps) < 2:
            continue
        rep_of = {}
        for c in reps:
            rep_of.setdefault(c.a[1][1], []).append(c)
        for st in f.insts():
            if st.op != 'store' or st.a[1][0] != 'v' or st.a[1][1] not in rep_of:
                continue
            v = f.v(st.a[0])
            if v is None or v.op != 'add' or not any(o[0] == 'c' and int(o[1]) == 1 for o in v.a):
                continue
            src = [f.v(o) for o in v.a if o[0] == 'v']
            if not src or src[0] is None or src[0].op != 'load' or src[0].a[0][0] != 'v' or src[0].a[0][1] not in rep_of or src[0].a[0][1] == st.a[1][1]:
                continue
            first = src[0].a[0][1]
            n += 1; ck.saw(f)
            # the load of the first coordinate must not come after a repeat() of the first coordinate
            late = any(f.dominates(c, src[0]) or (c.bb.id == src[0].bb.id and c.i < src[0].i) for c in rep_of[first])
            where = '%s: %s = %s + 1' % (f.name, f.by_id[st.a[1][1]].dv or 'second', f.by_id[first].dv or 'first')
            if late:
                ck.violation(R, f.name, 'second neighbour derived from the mapped coordinate', '%s computes the neighbouring coordinate from the first one after repeat() has already mapped it: for PAD left of the image and inside mirrored REFLECT periods the wrong neighbour is blended (the 32-bit and float fetchers then disagree)' % f.name, st.loc())
            else:
                ck.ok(R, where)
    if n == 0:
        ck.incomplete(R, 'no fetcher with two repeat()-mapped neighbouring coordinates found')


def r8_rotation_tiles(ck, P):
    """sibling agreement of the two tiled rotations: the direction in which source rows are consumed"""
    import sympy
    from .factors import _loops_of
    R = ck.rule('C08-R8r', 'in the tiled 90/270-degree rotations the destination column advances by +1 per pixel of x in every tile call, while the source row advances by +stride for 90 degrees and by -stride for 270 degrees (the derivative of the source argument with respect to the tile loop variable)', floor=6)
    u = P.units.get('pixman-fast-path.c')
    L = _loops_of(u) if u else {}
    n = 0
    for fn, f in (u.functions.items() if u else []):
        if not (fn.startswith('blt_rotated_90_') or fn.startswith('blt_rotated_270_')) or 'trivial' in fn:
            continue
        want_sign = 1 if '_90_' in fn else -1
        loops = L.get(fn, [])
        hdr_phis = {p['v'] for lp in loops for p in lp['phis'] if p['ty'] == 'i32'}
        syms = {}

        def ev(o, d=0):
            if d > 30:
                return None
            if o[0] == 'c':
                return sympy.Integer(int(o[1]))
            if o[0] == 'a':
                return syms.setdefault(('a', o[1]), sympy.Symbol(f.params[o[1]][0] or 'arg%d' % o[1]))
            if o[0] != 'v':
                return None
            x = f.by_id[o[1]]
            if x.op in ('sext', 'zext', 'trunc', 'bitcast', 'freeze'):
                return ev(x.a[0], d + 1)
            if x.op == 'phi':
                return syms.setdefault(('v', x.i), sympy.Symbol(('x' if x.i in hdr_phis and (x.dv == 'x') else (x.dv or 'v%d' % x.i) + '_%d' % x.i)))
            if x.op in ('add', 'sub', 'mul'):
                a, b = ev(x.a[0], d + 1), ev(x.a[1], d + 1)
                if a is None or b is None:
                    return None
                return {'add': a + b, 'sub': a - b, 'mul': a * b}[x.op]
            if x.op == 'getelementptr':
                base = ev(x.a[0], d + 1)
                idx = [st for st in x.d.get('path') or [] if st[0] in ('p', 'x')]
                if base is None or len(idx) != 1:
                    return None
                i = ev(idx[0][1], d + 1)
                return None if i is None else base + i
            return syms.setdefault(('v', x.i), sympy.Symbol('v%d' % x.i))

        X = None
        for c in f.calls():
            if 'trivial' not in (c.callee or ''):
                continue
            if not any(c.bb.id in lp['blocks'] for lp in loops):
                continue
            dst, src = ev(c.a[0]), ev(c.a[2])
            xs = [s_ for s_ in (dst.free_symbols if dst is not None else set()) if str(s_) == 'x']
            if dst is None or src is None or not xs:
                ck.incomplete(R, '%s: tile call arguments are not expressions of the tile loop variable' % fn); continue
            X = xs[0]
            n += 1; ck.saw(f)
            stride = syms.get(('a', 3))
            dd = sympy.expand(sympy.diff(dst, X)); ds = sympy.expand(sympy.diff(src, X))
            if dd == 1 and stride is not None and sympy.expand(ds - want_sign * stride) == 0:
                ck.ok(R, '%s: d(dst)/dx = 1, d(src)/dx = %s' % (fn, ds))
            else:
                ck.violation(R, fn, 'direction of the tiled source walk', '%s passes tiles whose source row changes by %s per destination pixel (destination by %s); a rotation by %s degrees needs %s%s: with more than one whole tile the tiles are taken from the source in the wrong order' % (fn, ds, dd, '90' if want_sign > 0 else '270', '+' if want_sign > 0 else '-', stride), c.loc())
    if n == 0:
        ck.incomplete(R, 'no tiled rotation found')


def r9_signed_projective_division(ck, P):
    """T-WID: source coordinates are signed; so is their quotient by w"""
    R = ck.rule('C08-R9', 'every division of a source coordinate by the homogeneous coordinate w in the fetchers is a signed division (sdiv): coordinates left of / above the image and negative w are ordinary values', floor=2)
    n = 0
    for f in P.functions():
        if f.unit.name not in ('pixman-bits-image.c', 'pixman-fast-path.c', 'pixman-sse2.c', 'pixman-mmx.c', 'pixman-ssse3.c'):
            continue
        wl = set()
        for x in f.insts():
            if x.op == 'load':
                q = list(f.path(x.a[0])[1])
                if len(q) >= 2 and q[-2] == 'pixman_vector.vector' and q[-1] == '[2]':
                    wl.add(x.i)
        if not wl:
            continue
        memo = {}

        def dep_w(o, d=0):
            if o[0] != 'v' or d > 25:
                return False
            if o[1] in memo:
                return memo[o[1]]
            memo[o[1]] = False
            x = f.by_id[o[1]]
            r = x.i in wl or (x.op in ('phi', 'add', 'sub', 'sext', 'zext', 'trunc') and any(dep_w(a, d + 1) for a in x.a))
            memo[o[1]] = r
            return r

        for x in f.insts():
            if x.op not in ('sdiv', 'udiv') or not dep_w(x.a[1]):
                continue
            n += 1; ck.saw(f)
            if x.op == 'sdiv':
                ck.ok(R, '%s: coordinate / w at %s is signed' % (f.name, x.loc()))
            else:
                ck.violation(R, f.name, 'unsigned division by w', '%s divides a source coordinate by w with an unsigned division: for a negative coordinate (outside the image, reached through any repeat mode) or a negative w and a w that is not a power of two the sampled position is garbage' % f.name, x.loc())
    if n == 0:
        ck.incomplete(R, 'no division by the homogeneous coordinate found in the fetchers')


TRANSFORM_FLAG_REQUIRES = {
    # flag: matrix tests (row, column, predicate, constant) that must all hold where the flag is set
    'FAST_PATH_AFFINE_TRANSFORM': {(2, 0, 'eq', 0), (2, 1, 'eq', 0), (2, 2, 'eq', 65536)},
    'FAST_PATH_SCALE_TRANSFORM': {(2, 0, 'eq', 0), (2, 1, 'eq', 0), (2, 2, 'eq', 65536), (0, 1, 'eq', 0), (1, 0, 'eq', 0)},
    'FAST_PATH_ROTATE_180_TRANSFORM': {(2, 0, 'eq', 0), (2, 1, 'eq', 0), (2, 2, 'eq', 65536), (0, 1, 'eq', 0), (1, 0, 'eq', 0), (0, 0, 'eq', -65536), (1, 1, 'eq', -65536)},
    'FAST_PATH_ROTATE_90_TRANSFORM': {(2, 0, 'eq', 0), (2, 1, 'eq', 0), (2, 2, 'eq', 65536), (0, 0, 'eq', 0), (1, 1, 'eq', 0), (0, 1, 'eq', -65536), (1, 0, 'eq', 65536)},
    'FAST_PATH_ROTATE_270_TRANSFORM': {(2, 0, 'eq', 0), (2, 1, 'eq', 0), (2, 2, 'eq', 65536), (0, 0, 'eq', 0), (1, 1, 'eq', 0), (0, 1, 'eq', 65536), (1, 0, 'eq', -65536)},
    'FAST_PATH_Y_UNIT_ZERO': {(1, 0, 'eq', 0)},
    'FAST_PATH_X_UNIT_POSITIVE': {(0, 0, 'sgt', 0)},
}


def r10_transform_flags(ck, P, rid='C08-R10'):
    """the transform classification the fast paths and affine fetchers rely on (they never divide by w, never look at the off-diagonal ...)"""
    R = ck.rule(rid, 'each transform classification flag is set only under the matrix tests its consumers assume: AFFINE needs the bottom row (0, 0, 1.0) exactly - the affine fetchers and scaled fast paths never divide by w - SCALE additionally a zero off-diagonal, the ROTATE flags their exact +-1.0 entries, Y_UNIT_ZERO m[1][0] == 0, X_UNIT_POSITIVE m[0][0] > 0', floor=7)
    C = __import__('pxv.consts', fromlist=['x']).fast_path_flags()
    f = None
    for g in P.functions():
        if g.name == 'compute_image_info':
            f = g
    if f is None:
        ck.incomplete(R, 'compute_image_info not found'); return
    ck.saw(f)
    bit = {C[k]: k for k in TRANSFORM_FLAG_REQUIRES if k in C}
    seen = set()
    for x in f.insts():
        if x.op != 'or':
            continue
        cs = [int(o[1]) & 0xffffffff for o in x.a if o[0] == 'c']
        if not cs:
            continue
        for b_, name in bit.items():
            if not (cs[0] & b_):
                continue
            have = set()
            for t, s_ in f.guard_edges(x.bb.id):
                if t.op != 'br' or not t.a:
                    continue
                c, pred, ops = f.cond(t.a[0])
                if c is None or c.op != 'icmp':
                    continue
                taken = t.d['succ'][0] == s_
                if not taken:
                    pred = f.INV.get(pred, pred)
                for i in (0, 1):
                    y = f.v(f.strip_casts(ops[i])) if ops[i][0] == 'v' else None
                    k = ops[1 - i]
                    if y is None or y.op != 'load' or k[0] != 'c':
                        continue
                    q = list(f.path(y.a[0])[1])
                    if len(q) >= 3 and q[-3] == 'pixman_transform.matrix':
                        pr = pred if i == 0 else {'sgt': 'slt', 'slt': 'sgt', 'sge': 'sle', 'sle': 'sge'}.get(pred, pred)
                        have.add((int(q[-2].strip('[]')), int(q[-1].strip('[]')), pr, int(k[1])))
            # equalities between entries (m01 == -m10) count through the values they imply: solve the linear system of all
            # equality guards over the matrix entries
            import sympy as _sp
            eqs = []; syms = {}
            def mform(o, d=0):
                y = f.v(f.strip_casts(o)) if o[0] == 'v' else None
                if o[0] == 'c':
                    return _sp.Integer(int(o[1]))
                if y is None or d > 6:
                    return None
                if y.op == 'load':
                    q = list(f.path(y.a[0])[1])
                    if len(q) >= 3 and q[-3] == 'pixman_transform.matrix':
                        key = (int(q[-2].strip('[]')), int(q[-1].strip('[]')))
                        return syms.setdefault(key, _sp.Symbol('m%d%d' % key))
                    return None
                if y.op in ('add', 'sub'):
                    a_, b_ = mform(y.a[0], d + 1), mform(y.a[1], d + 1)
                    return None if a_ is None or b_ is None else (a_ + b_ if y.op == 'add' else a_ - b_)
                if y.op in ('sext', 'zext', 'trunc'):
                    return mform(y.a[0], d + 1)
                return None
            for t, s_ in f.guard_edges(x.bb.id):
                if t.op != 'br' or not t.a:
                    continue
                c, pred, ops = f.cond(t.a[0])
                if c is None or c.op != 'icmp':
                    continue
                if t.d['succ'][0] != s_:
                    pred = f.INV.get(pred, pred)
                if pred != 'eq':
                    continue
                a_, b_ = mform(ops[0]), mform(ops[1])
                if a_ is not None and b_ is not None and (a_ - b_).free_symbols:
                    eqs.append(a_ - b_)
            if eqs:
                sol = _sp.solve(eqs, list(syms.values()), dict=True)
                if len(sol) == 1:
                    for key, sy in syms.items():
                        v_ = sol[0].get(sy)
                        if v_ is not None and v_.is_Integer:
                            have.add((key[0], key[1], 'eq', int(v_)))
            need = TRANSFORM_FLAG_REQUIRES[name]
            missing = need - have
            seen.add(name)
            if missing:
                ck.violation(R, f.name, 'guards of ' + name, 'compute_image_info sets %s without testing %s: consumers of the flag (affine fetchers, scaled and rotated fast paths, the bilinear-to-nearest reduction) assume it and sample the wrong position for the matrices now let through' % (name, ', '.join('matrix[%d][%d] %s %d' % m for m in sorted(missing))), x.loc())
            else:
                ck.ok(R, '%s set under %d matrix tests' % (name, len(need)))
    for name in TRANSFORM_FLAG_REQUIRES:
        if name in C and name not in seen:
            ck.incomplete(R, 'no site setting %s found in compute_image_info' % name)


def r11_rounding_epsilon(ck, P):
    """rounding.txt: a coordinate is converted to a pixel index as floor (v - e); the epsilon appears at every conversion of a sibling group"""
    from .geometry import linear
    from . import filt
    R = ck.rule('C08-R11', 'the kernel start of every separable-convolution reader is int (coordinate - pixman_fixed_e - offset) on both axes, and every row/column offset of the 90/270-degree rotations is int (translation + 1/2 - pixman_fixed_e): within each sibling group all conversions carry the same epsilon as rounding.txt prescribes', floor=8)
    n = 0
    for f in P.functions():
        # (a) convolution readers: ashr 16 of (coord - offset_derived_from_header [- 1])
        sy = filt.Sym(P, f)
        hdr = {x.i for x in f.insts() if x.op == 'load' and sy.header_index(x.a[0]) in (0, 1)}
        if hdr and f.name != 'pixman_image_set_filter' and 'analyze' not in f.name:
            def dep_hdr(o, d=0, seen=None):
                seen = seen if seen is not None else set()
                if o[0] != 'v' or o[1] in seen or d > 12:
                    return False
                seen.add(o[1])
                y = f.by_id[o[1]]
                return y.i in hdr or (y.op not in ('load', 'call', 'phi') and any(dep_hdr(a, d + 1, seen) for a in y.a))
            for x in f.insts():
                if x.op != 'ashr' or not (x.a[1][0] == 'c' and int(x.a[1][1]) == 16):
                    continue
                lf = linear(f, x.a[0])
                if lf is None:
                    continue
                offs = [t for t, c in lf.items() if t and t[0] == 'opaque' and c == -1 and dep_hdr(['v', t[1]])]
                if len(offs) != 1:
                    continue
                n += 1; ck.saw(f)
                if lf.get((), 0) == -1:
                    ck.ok(R, '%s: kernel start at %s subtracts the epsilon' % (f.name, x.loc()))
                else:
                    ck.violation(R, f.name, 'kernel start without the rounding epsilon', '%s converts (coordinate - offset%s) to the first kernel tap: rounding.txt and the sibling reader subtract pixman_fixed_e first, so when the difference is an exact integer the window starts one pixel further right/down than in the other implementation' % (f.name, (' %+d' % lf.get((), 0)) if lf.get((), 0) else ''), x.loc())
        # (b) rotations
        if f.name.startswith('fast_composite_rotate_'):
            for x in f.insts():
                if x.op != 'ashr' or not (x.a[1][0] == 'c' and int(x.a[1][1]) == 16):
                    continue
                lf = linear(f, x.a[0])
                if lf is None:
                    continue
                mats = [t for t, c in lf.items() if t and t[0] == 'mem' and 'pixman_transform.matrix' in str(t)]
                if len(mats) != 1:
                    continue
                n += 1; ck.saw(f)
                if lf.get((), 0) == 32767:
                    ck.ok(R, '%s: offset at %s is int (t + 1/2 - e)' % (f.name, x.loc()))
                else:
                    ck.violation(R, f.name, 'rotation offset rounding', '%s converts a translation to a source offset with the constant %d instead of pixman_fixed_1 / 2 - pixman_fixed_e (32767): for translations with a fraction of exactly one half it copies from one row/column further than the extent analysis allowed, reading outside the image at the border' % (f.name, lf.get((), 0)), x.loc())
    if n == 0:
        ck.incomplete(R, 'no coordinate-to-index conversion found')


def r12_wrap_is_a_loop(ck, P, rid='C04-R9'):
    """NORMAL repeat in the nearest scanline kernels: the coordinate is brought back into the tile by a loop, for any step size"""
    from .factors import _loops_of
    R = ck.rule(rid, 'in every scaled nearest-neighbour scanline kernel the subtraction that wraps the source coordinate back into the tile (vx -= width of the tile) sits in a loop of its own (while (vx >= 0)): a single conditional subtraction lets vx grow without bound when the step exceeds the tile width, and pixels are then read further and further past the source', floor=6)
    n = 0
    for un, u in P.units.items():
        L = None
        for f in u.functions.values():
            if 'scaled_nearest_scanline' not in f.name or f.name.endswith('_wrapper'):
                continue
            wp = [i for i, (pn, pt) in enumerate(f.params) if pn in ('src_width_fixed', 'max_vx')]
            if not wp:
                continue
            if L is None:
                L = _loops_of(u)
            loops = L.get(f.name, [])
            for x in f.insts():
                if x.op != 'sub' or x.a[1][:2] != ['a', wp[0]]:
                    continue
                n += 1; ck.saw(f)
                inner = [lp for lp in loops if x.bb.id in lp['blocks'] and lp['parent'] != -1]
                if inner:
                    # the loop must also run for a coordinate of exactly 0 (= exactly one tile width): the valid range is [-width, 0)
                    lp = min(inner, key=lambda l_: len(l_['blocks']))
                    blocks = set(lp['blocks']); zero_wraps = None
                    for b in blocks:
                        t = f.blocks[b].term
                        if t.op != 'br' or not t.a or all(s_ in blocks for s_ in t.d['succ']):
                            continue
                        cc = f.v(t.a[0])
                        if cc is None or cc.op != 'icmp' or cc.a[1][0] != 'c':
                            continue
                        k = int(cc.a[1][1]); pr = cc.d['p']
                        truth = {'sge': 0 >= k, 'sgt': 0 > k, 'sle': 0 <= k, 'slt': 0 < k, 'eq': 0 == k, 'ne': 0 != k}.get(pr)
                        if truth is None:
                            continue
                        stay = t.d['succ'][0] in blocks
                        zero_wraps = (truth == stay)
                    if zero_wraps is False:
                        ck.violation(R, f.name, 'wrap loop leaves coordinate 0 unwrapped', '%s stops wrapping when the source coordinate is exactly 0, i.e. exactly one tile width (%s): the valid range is [-width, 0), so the next load reads the pixel just past the end of the row' % (f.name, x.loc()), x.loc())
                    else:
                        ck.ok(R, '%s: wrap at %s is a loop' % (f.name, x.loc()))
                else:
                    ck.violation(R, f.name, 'single-step wrap of the source coordinate', '%s subtracts the tile width from the source coordinate at most once per pixel (%s): with a step larger than the tile the coordinate is still outside afterwards and the next load reads past the source' % (f.name, x.loc()), x.loc())
    if n == 0:
        ck.incomplete(R, 'no wrapping subtraction found in the scaled nearest scanline kernels')


# ------------------------------------------------------------------------------ C08-R13: SIMD weight vector tracks the scalar position
def _lin(f, o, d=0):
    """a scalar as a linear form {root: coeff, 1: const} over parameters / opaque values (arithmetic modulo the lane width)"""
    if d > 30:
        return None
    if o[0] == 'c':
        return {1: int(o[1])}
    if o[0] == 'a':
        return {('a', o[1]): 1}
    if o[0] != 'v':
        return None
    x = f.by_id[o[1]]
    if x.op in ('trunc', 'sext', 'zext'):
        return _lin(f, x.a[0], d + 1)
    if x.op in ('add', 'sub'):
        p, q = _lin(f, x.a[0], d + 1), _lin(f, x.a[1], d + 1)
        if p is None or q is None:
            return None
        out = dict(p)
        for k, v in q.items():
            out[k] = out.get(k, 0) + (v if x.op == 'add' else -v)
        return {k: v for k, v in out.items() if v}
    if x.op in ('mul', 'shl'):
        p, q = _lin(f, x.a[0], d + 1), _lin(f, x.a[1], d + 1)
        if p is None or q is None:
            return None
        if x.op == 'shl':
            if set(q) - {1}:
                return None
            c = 1 << q.get(1, 0); return {k: v * c for k, v in p.items()}
        for a_, b_ in ((p, q), (q, p)):
            if not (set(b_) - {1}):
                c = b_.get(1, 0)
                return {k: v * c for k, v in a_.items() if v * c}
        return None
    return {('v', x.i): 1}


def r13_weight_vector_tracks_position(ck, P, rid='C08-R13'):
    """SSE2 bilinear scanlines keep the source position twice: the scalar vx (which pixel pair is fetched) and the 16-bit lanes of xmm_x
    (the horizontal weights).  Relational induction over the paired phis: they start equal and advance by the same number of unit_x on
    every edge, and each interpolation takes its weights and its pixels at the same advance."""
    R = ck.rule(rid, 'in every SSE2 and MMX bilinear scanline the packed weight vector and the scalar source position start at the same coordinate, advance by the same multiple of unit_x along every control-flow edge between their paired phis, and every interpolation reads its weights and its two pixel pairs at the same advance', floor=8)
    from .. import build, facts as _facts
    cfgs = []
    if 'pixman-sse2.c' in P.units:
        cfgs.append((P.units['pixman-sse2.c'], '_mm_set_epi16', 8, '_mm_add_epi16', '_mm_srli_epi16', '<2 x i64>', True))
    if 'pixman-mmx.c' in P.units:
        # __m64 values are coerced through memory at -O0: the scalar-replaced IR of that unit has them in SSA form
        PS = _facts.Program(build.library_facts('S', only={'pixman-mmx.c'}))
        cfgs.append((PS.units['pixman-mmx.c'], '_mm_set_pi16', 4, '_mm_add_pi16', '_mm_srli_pi16', '<1 x i64>', False))
    if not cfgs:
        ck.incomplete(R, 'neither pixman-sse2.c nor pixman-mmx.c is part of the build'); return
    for u, SETFN, NL, ADDFN, SRLFN, VTY, COMPL in cfgs:
      def want_lane(j, form, compl_form):
          return form if (not COMPL or j % 2 == 1) else compl_form
      for f in u.functions.values():
        sets = {}
        for x in f.insts():
            if x.op == 'call' and x.callee == SETFN and len(x.a) == NL:
                sets[x.i] = [_lin(f, a) for a in reversed(x.a)]        # lane 0 first
        # advance vectors: lanes +k*unit, -k*unit, ...
        adv = {}
        for i, L in sets.items():
            if None in L or not L[1] or len(L[1]) != 1 or 1 in L[1]:
                continue
            (root, k), = L[1].items()
            # SSE2: _mm_set_epi16 (u, -u, ...): odd lanes carry the position, even lanes its complement; MMX: every lane carries it
            if all(L[j] == want_lane(j, {root: k}, {root: -k}) for j in range(NL)):
                adv[i] = (root, k)
        if not adv:
            continue
        # only splats that are really added to a loop-carried vector are advances (MMX also splats the vertical weights)
        def _strip(o_):
            y_ = f.v(o_)
            while y_ is not None and y_.op == 'bitcast':
                o_ = y_.a[0]; y_ = f.v(o_)
            return o_
        used = set()
        for x in f.insts():
            if x.op == 'phi' and x.ty == VTY:
                for a in x.a:
                    y = f.v(_strip(a))
                    if y is not None and y.op == 'call' and y.callee == ADDFN and len(y.a) == 2:
                        for o_ in (_strip(y.a[0]), _strip(y.a[1])):
                            if o_[0] == 'v' and o_[1] in adv:
                                used.add(o_[1])
        adv = {k_: v_ for k_, v_ in adv.items() if k_ in used}
        if not adv:
            continue
        # weight family: values reached from an _mm_add_epi16 (X, advance)
        def xbase(o, d=0):
            """(base value id, advance accumulated, unit root) of a weight-vector value"""
            k = 0; unit = None
            while d < 200:
                d += 1
                x = f.v(o)
                if x is None:
                    return None
                if x.op == 'call' and x.callee == ADDFN and len(x.a) == 2:
                    def strip(o_):
                        y_ = f.v(o_)
                        while y_ is not None and y_.op == 'bitcast':
                            o_ = y_.a[0]; y_ = f.v(o_)
                        return o_
                    a0, a1 = strip(x.a[0]), strip(x.a[1])
                    if a1[0] == 'v' and a1[1] in adv:
                        pass
                    elif a0[0] == 'v' and a0[1] in adv:
                        a0, a1 = a1, a0
                    else:
                        return None
                    r_, k_ = adv[a1[1]]
                    if unit not in (None, r_):
                        return None
                    unit = r_; k += k_; o = a0; continue
                if x.op == 'bitcast':
                    o = x.a[0]; continue
                return (x.i, k, unit)
            return None

        def vbase(o, unit, d=0):
            k = 0
            while d < 200:
                d += 1
                x = f.v(o)
                if x is None:
                    return (tuple(o), k)
                if x.op == 'add':
                    for a0, a1 in ((x.a[0], x.a[1]), (x.a[1], x.a[0])):
                        l = _lin(f, a1)
                        if l is not None and set(l) == {unit}:
                            k += l[unit]; o = a0; break
                    else:
                        return (x.i, k)
                    continue
                if x.op in ('sext', 'trunc', 'zext'):
                    o = x.a[0]; continue
                return (x.i, k)
            return None

        xphis = []; fam = set(); grew = True
        vphis = [x for x in f.insts() if x.op == 'phi' and x.ty == VTY]
        while grew:
            grew = False
            for x in vphis:
                if x.i in fam:
                    continue
                bs = [xbase(a) for a in x.a]
                if any(b is not None and (b[1] != 0 or b[0] in fam) for b in bs):
                    fam.add(x.i); grew = True
        xphis = [x for x in vphis if x.i in fam]
        if not xphis:
            continue
        ck.saw(f)
        def _bloc(X):
            return next((y.loc() for y in X.bb.insts if y.d.get('l')), X.loc())
        unit = next(iter(adv.values()))[0]
        # the initial vector: lane 0 is the scalar position, lane 1 its complement
        init = None
        pair = {}          # id of vector phi / init -> id (or operand) of its scalar partner
        bad = False
        for X in xphis:
            cands = []
            for V in X.bb.insts:
                if V.op != 'phi' or not V.ty.startswith('i') or V.ty == 'i1':
                    continue
                ok = True; any_adv = False
                for a, b in zip(V.a, X.a):
                    vb = vbase(a, unit); xb = xbase(b)
                    if vb is None or xb is None or vb[1] != xb[1]:
                        ok = False; break
                    any_adv = any_adv or vb[1] != 0
                if ok:
                    cands.append(V)
            exact = [V for V in cands if V.d.get('bb') == X.d.get('bb')]
            if len(exact) >= 1:
                # prefer the candidate whose bases pair up consistently (decided below)
                pair[X.i] = [V.i for V in exact]
            else:
                # find the closest scalar phi to explain what differs
                best = None
                for V in X.bb.insts:
                    if V.op == 'phi' and V.ty.startswith('i') and V.ty != 'i1':
                        diffs = []
                        for a, b, p_ in zip(V.a, X.a, X.d.get('bb', [])):
                            vb = vbase(a, unit); xb = xbase(b)
                            if vb is not None and xb is not None and vb[1] != xb[1]:
                                diffs.append((p_, vb[1], xb[1]))
                        if diffs and (best is None or len(diffs) < len(best)):
                            best = diffs
                if best:
                    p_, kv, kx = best[0]
                    ck.violation(R, f.name, 'weight vector at block %d' % X.bb.id, 'along the edge from block %d the scalar source position advances by %d x unit_x but the packed weight vector advances by %d x unit_x: from there on every interpolated pixel is fetched at one coordinate and weighted for another' % (p_, kv, kx), _bloc(X))
                else:
                    ck.incomplete(R, '%s: no scalar position phi pairs with the weight vector phi at %s' % (f.name, _bloc(X)))
                bad = True
        if bad:
            continue
        # bases must pair up: the base of X's incoming value is a vector phi whose partner is the base of V's incoming value, or the initial vector
        okf = True
        for X in xphis:
            good = []
            for vi in pair[X.i]:
                V = f.by_id[vi]
                fine = True
                for a, b in zip(V.a, X.a):
                    vb = vbase(a, unit); xb = xbase(b)
                    if xb[0] in sets:
                        L = sets[xb[0]]
                        vl = _lin(f, ['v', vb[0]] if not isinstance(vb[0], tuple) else list(vb[0]))
                        comp = None
                        if vl is not None:
                            comp = {k: -v for k, v in vl.items()}; comp[1] = comp.get(1, 0) - 1
                            comp = {k: v for k, v in comp.items() if v}
                        if vl is None or any(L[j] != want_lane(j, vl, comp) for j in range(NL)):
                            fine = False
                    elif xb[0] in pair:
                        if vb[0] not in pair[xb[0]]:
                            fine = False
                    else:
                        fine = False
                if fine:
                    good.append(vi)
            if not good:
                okf = False
                ck.violation(R, f.name, 'weight vector at block %d' % X.bb.id, 'the packed weight vector merged at block %d does not start from the coordinate of the scalar source position it is paired with (lanes must be -(vx + 1), vx, ...): weights and fetched pixels belong to different coordinates' % X.bb.id, _bloc(X))
            pair[X.i] = good
        if not okf:
            continue
        # uses: per block, the weights (srli of the vector) and the pixel-pair loads (position >> 16) are taken at the same advances
        nuse = 0
        for b in f.blocks:
            wu = []; pu = set()
            for x in b.insts:
                if x.op == 'call' and x.callee == SRLFN:
                    xb = xbase(x.a[0])
                    if xb is not None and (xb[0] in pair or xb[0] in sets):
                        wu.append((xb, x))
                if x.op == 'ashr' and x.a[1][0] == 'c' and int(x.a[1][1]) == 16:
                    vb = vbase(x.a[0], unit)
                    if vb is not None:
                        pu.add(vb)
            for xb, x in wu:
                nuse += 1
                partners = pair.get(xb[0], [])
                if xb[0] in sets:
                    want = None
                    match = any(k == xb[1] for (_, k) in pu)
                else:
                    match = any(bv in partners and k == xb[1] for (bv, k) in pu)
                if not match:
                    ks = sorted(k for (bv, k) in pu if xb[0] in sets or bv in partners)
                    ck.violation(R, f.name, 'interpolation weights at %s' % x.loc(), 'the horizontal weights are taken from the weight vector after %d advance(s) of unit_x but the pixel pairs of that block are fetched at advance(s) %s of the scalar position' % (xb[1], ks), x.loc())
                    okf = False
        if okf:
            ck.ok(R, '%s: %d weight-vector phis paired with the source position, %d interpolations aligned' % (f.name, len(xphis), nuse))


def r14_float_bilinear_weights(ck, P, rid='C08-R14'):
    """T-ALG: the float bilinear blend is tl*(1-dx)(1-dy) + tr*dx(1-dy) + bl*(1-dx)dy + br*dx*dy in every channel (symbolic comparison of
    the expression trees with the arguments taken in declaration order)."""
    import sympy
    R = ck.rule(rid, 'bilinear_interpolation_float returns, in each of its four channels, the blend tl*(1-dx)*(1-dy) + tr*dx*(1-dy) + bl*(1-dx)*dy + br*dx*dy of the same channel of its four pixel arguments (weights identical across channels and summing to one): checked symbolically on the expression trees', floor=4)
    n = 0
    for un, u in sorted(P.units.items()):
        f = u.functions.get('bilinear_interpolation_float')
        if f is None:
            continue
        ck.saw(f)
        allocas = [x for x in f.insts() if x.op == 'alloca']
        # which alloca receives which incoming arguments
        recv = {}
        for x in f.insts():
            if x.op == 'store' and x.a[0][0] == 'a':
                base = f.root(f.path(x.a[1]))
                if base[0] == 'alloca':
                    recv.setdefault(base[1], []).append(x.a[0][1])
        pix = sorted((min(v), k) for k, v in recv.items())
        if len(pix) != 4:
            ck.incomplete(R, '%s/%s: expected four pixel arguments spilled to locals, found %d' % (un, f.name, len(pix))); continue
        names = ['tl', 'tr', 'bl', 'br']
        base_name = {k: names[i] for i, (_, k) in enumerate(pix)}
        scal = [i for i, (pn, pt) in enumerate(f.params) if pt == 'float']
        if len(scal) != 2:
            ck.incomplete(R, '%s/%s: expected two scalar weights' % (un, f.name)); continue
        dx, dy = sympy.symbols('dx dy')
        env = {}
        def ev(o, d=0):
            if d > 40:
                return None
            if o[0] == 'fc':
                return sympy.nsimplify(float(o[1]))
            if o[0] == 'c':
                return sympy.Integer(int(o[1]))
            if o[0] == 'a':
                return dx if o[1] == scal[0] else dy if o[1] == scal[1] else None
            if o[0] != 'v':
                return None
            x = f.by_id[o[1]]
            if x.op in ('fadd', 'fsub', 'fmul'):
                a, b = ev(x.a[0], d + 1), ev(x.a[1], d + 1)
                if a is None or b is None:
                    return None
                return {'fadd': a + b, 'fsub': a - b, 'fmul': a * b}[x.op]
            if x.op == 'call' and (x.callee or '').startswith('llvm.fmuladd'):
                a, b, c = (ev(y, d + 1) for y in x.a[:3])
                return None if None in (a, b, c) else a * b + c
            if x.op == 'load':
                p = f.path(x.a[0]); r = f.root(p)
                fs = [s for s in p[1] if isinstance(s, str) and s.startswith('argb_t.')]
                if r[0] == 'alloca' and r[1] in base_name and fs:
                    return sympy.Symbol('%s_%s' % (base_name[r[1]], fs[-1].split('.')[1]))
                return None
            return None
        outs = {}
        for x in f.insts():
            if x.op == 'store' and x.a[0][0] == 'v':
                p = f.path(x.a[1]); r = f.root(p)
                fs = [s for s in p[1] if isinstance(s, str) and s.startswith('argb_t.')]
                if r[0] == 'alloca' and r[1] not in base_name and fs:
                    outs[fs[-1].split('.')[1]] = (ev(x.a[0]), x)
        for c in 'argb':
            if c not in outs:
                ck.incomplete(R, '%s/%s: channel %s of the result is not stored' % (un, f.name, c)); continue
            got, x = outs[c]
            n += 1
            if got is None:
                ck.incomplete(R, '%s/%s: channel %s is not an arithmetic expression of the arguments' % (un, f.name, c)); continue
            tl, tr, bl, br = (sympy.Symbol('%s_%s' % (nm, c)) for nm in names)
            want = tl * (1 - dx) * (1 - dy) + tr * dx * (1 - dy) + bl * (1 - dx) * dy + br * dx * dy
            if sympy.expand(got - want) == 0:
                ck.ok(R, '%s/%s channel %s' % (un, f.name, c))
            else:
                ck.violation(R, f.name, 'channel %s (%s)' % (c, un), 'bilinear_interpolation_float computes channel %s as %s, which is not the four-neighbour blend (difference %s): that channel is interpolated with other weights than the rest of the pixel' % (c, sympy.factor(got), sympy.factor(sympy.expand(got - want))), x.loc())
    if n == 0:
        ck.incomplete(R, 'bilinear_interpolation_float not found in any unit')


def selector_params(P):
    """(function, parameter index) pairs that are pipeline selectors: integer parameters every call site in the unit passes as the constant
    0 or 1 (both occur) or as the caller's own selector - fixpoint over call sites"""
    if getattr(P, '_selpar', None) is not None:
        return P._selpar
    sel = set(); grew = True
    fns = list(P.functions())
    while grew:
        grew = False
        for g in fns:
            for k, (pn, pt) in enumerate(g.params):
                if (g, k) in sel or pt not in ('i32', 'i1', 'i8'):
                    continue
                sites = [(h, c) for h in fns if h.unit is g.unit for c in h.calls(g.name)]
                if len(sites) < 2 and not any((h, a[1]) in sel for h, c in sites for a in [c.a[k]] if a[0] == 'a'):
                    continue
                vals = []
                ok = True
                for h, c in sites:
                    a = c.a[k] if k < len(c.a) else None
                    if a is None:
                        ok = False
                    elif a[0] == 'c' and int(a[1]) in (0, 1):
                        vals.append(int(a[1]))
                    elif a[0] == 'a' and (h, a[1]) in sel:
                        vals += [0, 1]
                    else:
                        ok = False
                if ok and set(vals) == {0, 1}:
                    sel.add((g, k)); grew = True
    P._selpar = sel
    return sel


def pipeline_selectors(P):
    """the selector parameters that choose the pixel representation: inside the function a branch on the parameter decides which
    function produces the pixels (an indirect call, or a function constant flowing into a phi, in a block only one selector value
    reaches), or the parameter is handed on as such a selector of a callee"""
    if getattr(P, '_pipesel', None) is not None:
        return P._pipesel
    sel = selector_params(P)
    def on_selector(g, k, t):
        if t.op != 'br' or not t.a:
            return False
        c, p, ops = g.cond(t.a[0])
        if c is None:
            return False
        for q in ops:
            z = g.v(q)
            while z is not None and z.op in ('zext', 'sext', 'trunc'):
                q = z.a[0]; z = g.v(q)
            if list(q) == ['a', k]:
                return True
        return False
    out = set()
    for g, k in sel:
        ev = False
        for x in g.insts():
            if x.op == 'select' and x.a[1][0] == 'f' and x.a[2][0] == 'f':
                y = g.v(x.a[0])
                if y is not None and y.op == 'icmp' and any(list(q) == ['a', k] for q in y.a):
                    ev = True
        for b in g.blocks:
            if not any(on_selector(g, k, t) for t, s_ in g.guard_edges(b.id)):
                continue
            if any(x.op == 'call' and x.callee is None and 'callee' in x.d for x in b.insts):
                ev = True
            for s_ in b.succ:
                for x in g.blocks[s_].insts:
                    if x.op == 'phi' and any(a[0] == 'f' and bb == b.id for a, bb in zip(x.a, x.d['bb'])):
                        ev = True
        if ev:
            out.add((g, k))
    grew = True
    while grew:
        grew = False
        for g, k in sel - out:
            for c in g.calls():
                h = P.resolve(g, c.callee) if c.callee else None
                if h is None:
                    continue
                if any((h, j) in out and list(a) == ['a', k] for j, a in enumerate(c.a)):
                    out.add((g, k)); grew = True
    P._pipesel = out
    return out


def _lin_under(f, o, k, v, d=0):
    """_lin with the selector parameter k assumed to be v: a phi (or select) all of whose incoming edges but one are excluded by a
    branch on the selector resolves to the remaining operand"""
    if d > 30:
        return None
    if o[0] == 'c':
        return {1: int(o[1])}
    if o[0] == 'a':
        return {1: v} if o[1] == k else {('a', o[1]): 1}
    if o[0] != 'v':
        return None
    x = f.by_id[o[1]]
    def sel_edge_ok(t, s):
        """is the edge (branch t -> s) possible under the assumption?"""
        if not t.a:
            return True
        c, p, ops = f.cond(t.a[0])
        if c is None:
            return True
        if p in ('is', 'not'):
            q = ops[0]; z = f.v(q)
            while z is not None and z.op in ('zext', 'sext', 'trunc'):
                q = z.a[0]; z = f.v(q)
            if list(q) != ['a', k]:
                return True
            truth = bool(v) if p == 'is' else not v
        elif p in ('eq', 'ne'):
            qs = []
            for q in ops:
                z = f.v(q)
                while z is not None and z.op in ('zext', 'sext', 'trunc'):
                    q = z.a[0]; z = f.v(q)
                qs.append(list(q))
            if ['a', k] not in qs:
                return True
            cs = [q for q in qs if q[0] == 'c']
            if not cs:
                return True
            truth = (v == int(cs[0][1])) == (p == 'eq')
        else:
            return True
        return (t.d['succ'][0] == s) == truth if t.d['succ'][0] != t.d['succ'][1] else True
    if x.op in ('trunc', 'sext', 'zext'):
        return _lin_under(f, x.a[0], k, v, d + 1)
    if x.op == 'phi':
        live = []
        for a, bb in zip(x.a, x.d['bb']):
            ok = True
            tb = f.blocks[bb].term
            if tb.op == 'br' and tb.a and not sel_edge_ok(tb, x.bb.id):
                ok = False
            for t, s_ in f.guard_edges(bb):
                if not sel_edge_ok(t, s_):
                    ok = False
            if ok:
                live.append(a)
        if len(live) == 1:
            return _lin_under(f, live[0], k, v, d + 1)
        return {('v', x.i): 1}
    if x.op == 'select':
        c = _lin_under(f, x.a[0], k, v, d + 1)
        y = f.v(x.a[0])
        if y is not None and y.op == 'icmp' and y.d['p'] in ('eq', 'ne'):
            l, r = _lin_under(f, y.a[0], k, v, d + 1), _lin_under(f, y.a[1], k, v, d + 1)
            if l is not None and r is not None and not (set(l) - {1}) and not (set(r) - {1}):
                truth = (l.get(1, 0) == r.get(1, 0)) == (y.d['p'] == 'eq')
                return _lin_under(f, x.a[1] if truth else x.a[2], k, v, d + 1)
        return {('v', x.i): 1}
    if x.op in ('add', 'sub'):
        p, q = _lin_under(f, x.a[0], k, v, d + 1), _lin_under(f, x.a[1], k, v, d + 1)
        if p is None or q is None:
            return None
        out = dict(p)
        for kk, vv in q.items():
            out[kk] = out.get(kk, 0) + (vv if x.op == 'add' else -vv)
        return {kk: vv for kk, vv in out.items() if vv}
    if x.op in ('mul', 'shl'):
        p, q = _lin_under(f, x.a[0], k, v, d + 1), _lin_under(f, x.a[1], k, v, d + 1)
        if p is None or q is None:
            return None
        if x.op == 'shl':
            if set(q) - {1}:
                return None
            c = 1 << q.get(1, 0); return {kk: vv * c for kk, vv in p.items()}
        for a_, b_ in ((p, q), (q, p)):
            if not (set(b_) - {1}):
                c = b_.get(1, 0)
                return {kk: vv * c for kk, vv in a_.items() if vv * c}
        return None
    return {('v', x.i): 1}


def r17_cursor_step_follows_pipeline(ck, P, rid='C01-R14'):
    """T-WID: a routine that serves both pipelines walks its output scanline in pixels of the selected size: every advance of the word
    cursor and every byte count cleared at it is, under selector == 1, exactly four times what it is under selector == 0."""
    R = ck.rule(rid, 'in every routine instantiated for both pipelines through a constant 0/1 selector, each advance of the uint32_t output cursor (buffer += n) and each byte count zero-filled at it (memset (buffer, 0, n)) evaluates under selector == 1 to four times its value under selector == 0 (a float pixel is four words): an advance that does not scale leaves the following pixels at the wrong place in the float scanline', floor=8)
    n = 0
    for g, k in sorted(pipeline_selectors(P), key=lambda t: (t[0].unit.name, t[0].name, t[1])):
        outs = [i for i, (pn, pt) in enumerate(g.params) if pt == 'i32*' and 'mask' not in (pn or '')]
        def from_out(o, seen=None):
            seen = set() if seen is None else seen
            if o[0] == 'a':
                return o[1] in outs
            y = g.v(o)
            if y is None or y.i in seen:
                return False
            seen.add(y.i)
            if y.op == 'load':
                return g.last_field(g.path(y.a[0])) == 'pixman_iter_t.buffer'
            if y.op in ('getelementptr', 'bitcast'):
                return from_out(y.a[0], seen)
            if y.op == 'phi':
                return any(from_out(a, seen) for a in y.a)
            return False
        items = []
        for x in g.insts():
            if x.op == 'getelementptr' and x.ty == 'i32*' and from_out(x.a[0]):
                idx = [st[1] for st in x.d.get('path', []) if st and st[0] in ('p', 'x') and isinstance(st[1], list)]
                if len(idx) != 1:
                    continue
                # an advance: the result flows back into the cursor (a phi) or is the cursor used afterwards; an indexed access (used only
                # as the address of a load / store) is not
                us = list(g.users(x))
                if us and all(u.op in ('load', 'store') and (u.op == 'load' or list(u.a[1]) == ['v', x.i]) for u in us):
                    continue
                items.append(('advance', x, idx[0], 1))
            elif x.op == 'call' and isinstance(x.callee, str) and x.callee.startswith('llvm.memset') and from_out(x.a[0]):
                items.append(('memset size', x, x.a[2], 4))
        for kind, x, o, unit in items:
            l0, l1 = _lin_under(g, o, k, 0), _lin_under(g, o, k, 1)
            n += 1; ck.saw(g)
            where = '%s: %s at %s' % (g.name, kind, x.loc())
            if l0 is None or l1 is None or not l0:
                ck.incomplete(R, '%s: not a linear form' % where); continue
            if {kk: vv * 4 for kk, vv in l0.items()} == l1:
                ck.ok(R, where)
            else:
                ck.violation(R, g.name, '%s at %s' % (kind, x.loc()), '%s serves both pipelines (parameter %s is passed as 0 and as 1); its %s at %s is %s under the 32-bit pipeline and %s under the float pipeline, not four times as much: a float pixel is four words, so the pixels that follow are written to / cleared at the wrong place in the scanline' % (g.name, g.params[k][0] or k, kind, x.loc(), _fmt_lin(g, l0), _fmt_lin(g, l1)), x.loc())
    if n == 0:
        raise AnalysisBroken('%s: no output-cursor advance in a routine shared by both pipelines found' % rid)


def _fmt_lin(f, l):
    def nm(kk):
        if kk == 1:
            return ''
        if kk[0] == 'a':
            return '*' + (f.params[kk[1]][0] or 'arg%d' % kk[1])
        y = f.by_id.get(kk[1])
        return '*<%s at %s>' % (y.op, y.loc()) if y is not None else '*?'
    return ' + '.join('%d%s' % (vv, nm(kk)) for kk, vv in sorted(l.items(), key=repr)) or '0'


def r15_mask_stride_follows_pipeline(ck, P, rid='C08-R15'):
    """T-WID: a routine that serves both pipelines (it takes a selector that its callers pass as the constants 0 and 1) and looks at the
    mask scanline reads the mask with the element size of the selected pipeline: one word per pixel only under selector == 0."""
    R = ck.rule(rid, 'in every routine that is instantiated for both the 32-bit and the float pipeline through a constant 0/1 selector and that reads a mask scanline, a read of mask[i] (one word per pixel) happens only under selector == 0; under the float pipeline a mask pixel is four words (argb_t) and is addressed as mask[4*i + k]: otherwise three of four source pixels are skipped or kept on the value of a neighbour\'s channel', floor=2)
    sel = selector_params(P)
    n = 0
    for g, k in sorted(sel, key=lambda t: (t[0].unit.name, t[0].name, t[1])):
        mp = [i for i, (pn, pt) in enumerate(g.params) if pt == 'i32*' and 'mask' in (pn or 'mask')]
        for m in mp:
            for x in g.insts():
                if x.op != 'load' or x.ty != 'i32':
                    continue
                y = g.v(x.a[0])
                if y is None or y.op != 'getelementptr' or y.a[0] != ['a', m]:
                    continue
                idx = [st[1] for st in y.d.get('path', []) if st and st[0] in ('p', 'x') and isinstance(st[1], list)]
                if not idx or idx[-1][0] != 'v':
                    continue
                lin = _lin(g, idx[-1])
                coeffs = [c for key, c in (lin or {}).items() if key != 1]
                scaled = bool(coeffs) and all(c % 4 == 0 for c in coeffs)
                n += 1; ck.saw(g)
                narrow_guard = False
                for t, s in g.guard_edges(x.bb.id):
                    cc = g.v(t.a[0]) if t.a else None
                    if cc is None or cc.op != 'icmp' or cc.d['p'] not in ('eq', 'ne'):
                        continue
                    ops = []
                    for q in cc.a:
                        z = g.v(q)
                        while z is not None and z.op in ('zext', 'sext', 'trunc'):
                            q = z.a[0]; z = g.v(q)
                        ops.append(q)
                    if ['a', k] in ops and any(q[0] == 'c' and int(q[1]) == 0 for q in ops):
                        is_zero_edge = (cc.d['p'] == 'eq') == (t.d['succ'][0] == s)
                        if is_zero_edge:
                            narrow_guard = True
                where = '%s/%s: mask read at %s (%s index)' % (g.unit.name, g.name, x.loc(), 'scaled' if scaled else 'per-pixel')
                if scaled or narrow_guard:
                    ck.ok(R, where)
                else:
                    ck.violation(R, g.name, 'mask read at %s' % x.loc(), '%s serves both pipelines (parameter %s is passed as 0 and as 1) but reads mask[i] as one word per pixel whatever the pipeline: in the float pipeline the mask scanline holds four floats per pixel, so the test looks at a channel of pixel i/4 - with an a8 mask (r = g = b = 0.0) three of every four source pixels are skipped and composited as zero' % (g.name, g.params[k][0] or k), x.loc())
    if n == 0:
        ck.incomplete(R, 'no mask read in a routine shared by both pipelines found')


def r16_skip_only_on_zero_mask_word(ck, P, rid='C01-R10'):
    """T-GRD: a source fetcher may leave a pixel unfetched only when the mask value of that pixel is zero as a whole: with a
    component-alpha mask the combiners multiply the source by every channel of the mask, not just by its alpha byte."""
    R = ck.rule(rid, 'wherever a source fetcher (gradient scanlines, per-pixel bits fetchers, C fast-path fetchers) decides from the mask scanline whether to produce a pixel, it compares the whole mask word with zero: a test of part of the word (its alpha byte, one channel) skips pixels that a component-alpha mask still lets through', floor=8)
    n = 0
    for g in P.functions():
        mp = [i for i, (pn, pt) in enumerate(g.params) if pt == 'i32*' and pn == 'mask']
        if not mp or not any('iter' in (pn or '') for pn, pt in g.params):
            continue
        for x in g.insts():
            if x.op != 'load' or x.ty != 'i32':
                continue
            r = g.root(g.path(x.a[0]))
            if not ((r[0] == 'arg' and r[1] in mp) or (r[0] == 'phi' and any(rr == ('arg', m) for m in mp for rr in common.roots(g, x.a[0])))):
                continue
            # follow the loaded word to the comparisons it decides
            seen = set(); work = [(x, False)]
            while work:
                y, partial = work.pop()
                for z in g.users(y):
                    if (z.i, partial) in seen:
                        continue
                    seen.add((z.i, partial))
                    if z.op == 'icmp' and any(a[0] == 'c' and int(a[1]) == 0 for a in z.a) and any(t.op == 'br' for t in g.users(z)):
                        n += 1; ck.saw(g)
                        where = '%s/%s: mask test at %s' % (g.unit.name, g.name, z.loc())
                        if partial:
                            ck.violation(R, g.name, 'mask test at %s' % z.loc(), '%s decides whether to produce a source pixel from part of the mask word (a shifted / masked / truncated value) instead of the whole word: a component-alpha mask pixel whose tested part is zero but whose other channels are not (e.g. 0x00ffffff) gets no source pixel, and the combiner multiplies a stale value by the mask' % g.name, z.loc())
                        else:
                            ck.ok(R, where)
                    elif z.op in ('lshr', 'ashr', 'and', 'trunc', 'shl'):
                        work.append((z, True))
                    elif z.op in ('zext', 'sext', 'phi'):
                        work.append((z, partial))
    if n == 0:
        ck.incomplete(R, 'no mask test found in any fetcher')


def r18_rotation_tiles(ck, P, rid='C08-R18'):
    """symbolic path execution of the tiled 90 / 270 degree copies: the destination is cut into a leading, cache-line aligned middle and
    trailing group of columns, and every group must be handed the source rows that belong to exactly those columns, whatever was
    adjusted (dst, src, W) on the way there."""
    import sympy
    from .factors import _loops_of
    R = ck.rule(rid, 'in every tiled rotation copy (blt_rotated_90_* / blt_rotated_270_*) each call of the per-tile helper, on every path through the leading / middle / trailing split, receives for destination columns [a, a + w) the source rows that a rotation assigns to them: src + src_stride * a for 90 degrees, src + src_stride * (W - a - w) for 270 degrees, a and W measured from the arguments of the function', floor=40)
    u = P.units.get('pixman-fast-path.c')
    if u is None:
        raise AnalysisBroken('pixman-fast-path.c not compiled')
    L = _loops_of(u)
    n = 0
    for fn, f in sorted(u.functions.items()):
        helpers = [c for c in f.calls() if c.callee and c.callee != fn and ('_trivial_' in c.callee) and len(c.a) == 6]
        if not helpers or len(f.params) != 6 or '_trivial_' in fn:
            continue
        kind = None
        # the helper tells the direction: which helper family is called
        fam = {c.callee.split('_trivial_')[0] for c in helpers}
        if len(fam) != 1:
            continue
        DST, SRC, DS, SS, W0, H0 = sympy.symbols('DST SRC dst_stride S W H')
        argsym = [DST, DS, SRC, SS, W0, H0]
        headers = {lp['header'] for lp in L.get(fn, [])}
        opaque = {}
        results = []          # (call, dst_off, src_off, w)
        budget = [0]

        def val(o, env):
            if o[0] == 'c':
                return sympy.Integer(int(o[1]))
            if o[0] == 'a':
                return argsym[o[1]]
            if o[0] == 'v':
                if o[1] in env:
                    return env[o[1]]
                return opaque.setdefault(o[1], sympy.Symbol('t%d' % o[1]))
            return sympy.Symbol('u')

        def step(x, env):
            if x.op in ('sext', 'zext', 'trunc', 'bitcast', 'freeze'):
                env[x.i] = val(x.a[0], env)
            elif x.op in ('add', 'sub', 'mul'):
                a, b = val(x.a[0], env), val(x.a[1], env)
                env[x.i] = a + b if x.op == 'add' else a - b if x.op == 'sub' else sympy.expand(a * b)
            elif x.op == 'shl' and x.a[1][0] == 'c':
                env[x.i] = val(x.a[0], env) * (1 << int(x.a[1][1]))
            elif x.op == 'getelementptr':
                idx = [st[1] for st in x.d.get('path', []) if st and st[0] in ('p', 'x') and isinstance(st[1], list)]
                if len(idx) == 1:
                    env[x.i] = val(x.a[0], env) + val(idx[0], env)
                else:
                    env[x.i] = opaque.setdefault(x.i, sympy.Symbol('t%d' % x.i))
            elif x.op == 'call' and x.callee and '_trivial_' in x.callee:
                d_, s_, w_ = val(x.a[0], env), val(x.a[2], env), val(x.a[4], env)
                results.append((x, sympy.expand(d_ - DST), sympy.expand(s_ - SRC), sympy.expand(w_)))
            elif x.op in ('store', 'br', 'ret', 'switch', 'alloca'):
                pass
            else:
                env[x.i] = opaque.setdefault(x.i, sympy.Symbol('t%d' % x.i))

        def walk(b, prev, env, visited):
            budget[0] += 1
            if budget[0] > 4000:
                return
            env = dict(env)
            for x in f.blocks[b].insts:
                if x.op == 'phi':
                    if b in headers:
                        env[x.i] = opaque.setdefault(x.i, sympy.Symbol('x%d' % x.i))       # any iteration of the tile loop
                    else:
                        for a, bb in zip(x.a, x.d['bb']):
                            if bb == prev:
                                env[x.i] = val(a, env)
                    continue
                step(x, env)
            for s_ in f.blocks[b].succ:
                if (b, s_) in visited:
                    continue
                walk(s_, b, env, visited | {(b, s_)})

        walk(0, None, {}, frozenset())
        if not results:
            continue
        is270 = None
        seen = set()
        for c, doff, soff, w in results:
            key = (c.i, doff, soff, w)
            if key in seen:
                continue
            seen.add(key)
            n += 1; ck.saw(f)
            e90 = sympy.expand(soff - SS * doff)
            e270 = sympy.expand(soff - SS * (W0 - doff - w))
            where = '%s: %s at %s (columns %s .. +%s)' % (fn, c.callee, c.loc(), doff, w)
            if e90 == 0 and '270' not in fn:
                ck.ok(R, where, 'src + S * a')
            elif e270 == 0 and '90' not in fn.replace('270', ''):
                ck.ok(R, where, 'src + S * (W - a - w)')
            elif e90 == 0 or e270 == 0:
                ck.violation(R, fn, 'tile at %s' % c.loc(), '%s hands %s the source rows of the opposite rotation for destination columns starting at %s' % (fn, c.callee, doff), c.loc())
            else:
                ck.violation(R, fn, 'tile at %s' % c.loc(), '%s calls %s for the destination columns [%s, +%s) with the source offset %s, which is neither S * a (90 degrees) nor S * (W - a - w) (270 degrees) for these columns (a, W measured from the function\'s arguments): along this path the adjustments of dst, src and W before the call do not add up, so the tile is copied from the wrong source rows' % (fn, c.callee, doff, w, soff), c.loc())
    if n == 0:
        raise AnalysisBroken('%s: no tiled rotation copy found in pixman-fast-path.c' % rid)


def r20_cover_from_corners_needs_affine(ck, P, rid='C09-R12'):
    """T-GRD: the SAMPLES_COVER_CLIP flags that are derived from the *transformed* extents (the four corners, computed by the exact
    rounding division of pixman_transform_point) promise something about every sample the fetchers compute.  For an affine transform
    the fetchers add exact 16.16 steps to the same start point; for a projective one they divide per sample, truncating, with numerator
    and denominator rounded to 16.16 first - the positions differ from the corners by more than one unit.  The flags (and the opaque
    promotion of alpha-less sources that follows from them) are therefore granted only under a test of FAST_PATH_AFFINE_TRANSFORM."""
    R = ck.rule(rid, 'every site that introduces FAST_PATH_SAMPLES_COVER_CLIP_NEAREST / _BILINEAR under comparisons of the transformed extents (box_48_16_t fields) is also guarded by a test that the image\'s flags contain FAST_PATH_AFFINE_TRANSFORM: under a projective transform the general fetcher divides per sample with truncation, a corner at x = 0.97/65536 is rounded to 1/65536 by pixman_transform_point and passes the test while the sample lands at -1, and an x8r8g8b8 source with REPEAT_NONE is promoted to opaque although that sample is transparent', floor=2)
    C = consts.fast_path_flags()
    cn, cb, aff = C['FAST_PATH_SAMPLES_COVER_CLIP_NEAREST'], C['FAST_PATH_SAMPLES_COVER_CLIP_BILINEAR'], C['FAST_PATH_AFFINE_TRANSFORM']
    n = 0
    for f in P.functions():
        for x in f.insts():
            if x.op != 'or' or not any(o[0] == 'c' and int(o[1]) > 0 and int(o[1]) & (cn | cb) and not (int(o[1]) & 0x80000000) for o in x.a):
                continue
            ge = f.guard_edges(x.bb.id)
            ats = set()
            for br, s in ge:
                if br.a:
                    ats |= f.atoms(br.a[0])
            if not any(a[0] == 'field' and a[1].startswith(('box_48_16_t.', 'box_48_16.')) for a in ats):
                continue
            n += 1; ck.saw(f)
            ok = False
            for br, s in ge:
                if br.op != 'br' or not br.a:
                    continue
                c, p, ops = f.cond(br.a[0])
                if c is None or c.op != 'icmp' or p not in ('eq', 'ne') or len(ops) != 2:
                    continue
                taken_true = br.d['succ'][0] == s
                for i in (0, 1):
                    y = f.v(f.strip_casts(ops[i])) if ops[i][0] == 'v' else None
                    k = ops[1 - i]
                    if y is None or y.op != 'and' or k[0] != 'c':
                        continue
                    m = [o for o in y.a if o[0] == 'c']
                    l = [f.v(o) for o in y.a if o[0] == 'v']
                    if not m or not l or l[0] is None or l[0].op != 'load' or f.last_field(f.path(l[0].a[0])) != 'image_common.flags':
                        continue
                    M = int(m[0][1]) & 0xffffffff; K = int(k[1]) & 0xffffffff
                    holds_all = (p == 'eq') == taken_true and K == M          # (flags & M) == M
                    holds_any = (p == 'ne') == taken_true and K == 0 and M == aff   # (flags & AFFINE) != 0
                    if M & aff and (holds_all or holds_any):
                        ok = True
            where = '%s: %s' % (f.name, x.loc())
            if ok:
                ck.ok(R, where, 'under FAST_PATH_AFFINE_TRANSFORM')
            else:
                ck.violation(R, f.name, 'COVER_CLIP from transformed corners', '%s grants SAMPLES_COVER_CLIP from the transformed corners of the request (%s) without requiring an affine transform: under a projective transform the fetchers\' per-sample truncating division does not agree with the corners\' rounding division, a sample just outside the image is reported as covered, and an alpha-less source with REPEAT_NONE is treated as opaque (OVER becomes SRC and writes the transparent sample)' % (f.name, x.loc()), x.loc())
    if n == 0:
        raise AnalysisBroken('%s: no site introduces a COVER_CLIP flag under comparisons of transformed extents' % rid)
